#ifndef VERIF_SUPPORT_H_
#define VERIF_SUPPORT_H_
#include <stdint.h>
#include <mujoco/mujoco.h>

struct VgError { char msg[1024]; };

typedef struct VgField_ {
  const char* name;
  const char* ctype;
  void* ptr;
  long long nrow;
  long long ncol;
  int elsize;
  int kind;  // 0 model size, 1 model array, 2 option, 3 statistic, 4 raw; 10 data buffer, 11 arena, 12 scalar, 13 vector
} VgField;

enum {
  VG_CMP_BUFFER = 1, VG_CMP_ARENA = 2, VG_CMP_SCALAR = 4, VG_CMP_VECTOR = 8,
  VG_CMP_WARNING = 16, VG_CMP_SOLVERSTAT = 32, VG_CMP_STACKPTR = 64, VG_CMP_SIZES = 128,
  VG_CMP_ALL = 1 | 2 | 4 | 8 | 16 | 32
};

#ifdef __cplusplus
extern "C" {
#endif
void vg_log_handler(const mjLogMessage* msg);
void vg_install_handlers(void);
const char* vg_last_error(void);
void vg_set_last_error(const char* s);
const char* vg_last_warning(void);
long vg_warning_count(void);
long vg_error_count(void);
int vg_warning_log(char* out, int n);
void vg_alloc_install(long fail1, long fail2);
void vg_alloc_uninstall(void);
long vg_alloc_count(void);
long vg_alloc_live(void);
long vg_alloc_badfree(void);
long vg_alloc_failed(void);
int vg_model_field(const mjModel* m, int idx, VgField* f);
int vg_data_field(const mjModel* m, const mjData* d, int idx, VgField* f);
int vg_data_diff(const mjModel* m, const mjData* a, const mjData* b, unsigned mask, char* name, int nname);
uint64_t vg_data_hash(const mjModel* m, const mjData* d, unsigned mask);
int vg_model_diff(const mjModel* a, const mjModel* b, char* name, int nname);
int vg_sizeof(const char* what);
#ifdef __cplusplus
}
#endif
#endif
