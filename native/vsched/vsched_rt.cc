// vsched runtime + explorer (see vsched.h).
// Executions run inside a persistent forked worker process (fork and thread creation are very expensive in this
// sandbox): the explorer (parent) sends one schedule prefix per request over a pipe, the worker runs the closed
// harness in-process on a pool of reusable OS threads and sends back the recorded decision points.  A failing
// execution (assertion, deadlock, livelock, crash) ends the worker process - parked threads cannot be unwound -
// and the explorer forks a fresh one.
#include "vsched.h"

#include <errno.h>
#include <poll.h>
#include <semaphore.h>
#include <signal.h>
#include <sys/types.h>
#include <sys/wait.h>
#include <unistd.h>

#include <algorithm>
#include <cstdio>
#include <cstdlib>
#include <deque>
#include <map>
#include <memory>
#include <set>
#include <sstream>
#include <unordered_map>

extern "C" {
__attribute__((no_instrument_function)) void __cyg_profile_func_enter(void*, void*);
__attribute__((no_instrument_function)) void __cyg_profile_func_exit(void*, void*);
}

namespace vsched {

namespace {

enum BlockKind { B_NONE = 0, B_ATOMIC_NE, B_LOCK, B_JOIN, B_CV };
enum Status { ST_OK = 0, ST_FAIL, ST_DEADLOCK, ST_LIVELOCK, ST_HORIZON, ST_DIVERGED, ST_CRASH, ST_FORCED_DISABLED };

struct Th {
  int id = 0;
  sem_t sem;
  bool finished = false;
  bool started = false;
  // pending
  int kind = OP_START;
  const void* obj = nullptr;
  long long val = 0;
  int bk = B_NONE;
  bool (*differs)(const void*, long long) = nullptr;
  long long old = 0;
  const void* mtx = nullptr;
  int join_tid = -1;
  int cv_ticket = -1;
  const void* cv = nullptr;
  bool spin = false;
  // last load (for spin detection)
  const void* last_load_obj = nullptr;
  long long last_load_val = 0;
  long last_load_version = -1;
  long last_load_calls = -1;
  bool last_was_load = false;
  std::function<void()> fn;
};

struct OsThread {
  std::thread th;
  sem_t start;
  Th* assigned = nullptr;
};

struct PointRec {
  int cur;            // thread that reached the point
  bool cur_enabled;
  std::vector<int> enabled;   // canonical order
  int chosen;         // index into enabled
};

struct Exec {
  bool active = false;
  std::vector<std::unique_ptr<Th>> th;
  int cur = 0;
  std::vector<int> prefix;
  std::vector<int> forced_tids;  // replay_forced mode
  size_t forced_pos = 0;
  bool forced = false;
  std::vector<PointRec> points;
  std::unordered_map<const void*, int> owner;          // mutex -> tid
  std::unordered_map<const void*, long> version;       // atomic -> write count
  long global_writes = 0;
  std::map<const void*, std::vector<std::pair<int, bool>>> cvwait;  // cv -> (ticket, notified by notify_all)
  std::map<const void*, std::vector<std::set<int>>> cvtokens;       // cv -> notify_one tokens: tickets eligible to take it
  int next_ticket = 0;
  std::unordered_map<const void*, int> ids;
  std::string log;       // outcome (harness observations)
  std::string trace;     // op trace (when requested)
  bool want_trace = false;
  long steps = 0;
  long max_steps = 200000;
  int forced_spin_wakes = 0;
  long writes_at_last_forced = -1;
  int out_fd = -1;
  int status = ST_OK;
  std::string failure;
  int hw = 4;
  bool all_done = false;
};

Exec* g = nullptr;
thread_local Th* tl_self = nullptr;
thread_local long tl_calls = 0;   // function entries in instrumented code (progress indicator for the spin rule)

void write_all(int fd, const std::string& s) {
  size_t off = 0;
  while (off < s.size()) {
    ssize_t n = ::write(fd, s.data() + off, s.size() - off);
    if (n <= 0) break;
    off += (size_t)n;
  }
}

std::string serialize_result(int status, const std::string& failure) {
  std::ostringstream os;
  os << "STATUS " << status << "\n";
  os << "FAILURE " << failure.size() << "\n" << failure << "\n";
  os << "LOG " << g->log.size() << "\n" << g->log << "\n";
  os << "TRACE " << g->trace.size() << "\n" << g->trace << "\n";
  os << "POINTS " << g->points.size() << "\n";
  for (auto& p : g->points) {
    os << p.cur << " " << (p.cur_enabled ? 1 : 0) << " " << p.chosen << " " << p.enabled.size();
    for (int t : p.enabled) os << " " << t;
    os << "\n";
  }
  os << "END\n";
  std::string body = os.str();
  return "RESULT " + std::to_string(body.size()) + "\n" + body;
}

// a failing / aborted execution: report and leave the process (parked threads cannot be unwound)
[[noreturn]] void finish_child(int status, const std::string& failure) {
  write_all(g->out_fd, serialize_result(status, failure));
  _exit(0);
}

bool is_enabled(Th* t) {
  if (t->finished) return false;
  switch (t->bk) {
    case B_NONE: return true;
    case B_ATOMIC_NE: return t->differs(t->obj, t->old);
    case B_LOCK: return g->owner.find(t->mtx) == g->owner.end();
    case B_JOIN: return g->th[t->join_tid]->finished;
    case B_CV: {
      auto& w = g->cvwait[t->cv];
      bool notified = false;
      for (auto& e : w) if (e.first == t->cv_ticket) notified = e.second;
      // notify_one wakes ANY ONE of the threads waiting at that moment: every eligible waiter is enabled and the
      // one that gets scheduled first consumes the token (the nondeterminism becomes a scheduling choice)
      for (auto& tok : g->cvtokens[t->cv]) if (tok.count(t->cv_ticket)) notified = true;
      return notified && g->owner.find(t->mtx) == g->owner.end();
    }
  }
  return false;
}

const char* kind_name(int k) {
  static const char* n[] = {"start", "load", "store", "rmw", "wait", "notify", "lock", "unlock", "trylock", "cvwait",
                            "cvnotify", "spawn", "join", "yield", "after", "end", "user"};
  return (k >= 0 && k <= OP_USER) ? n[k] : "?";
}

bool is_protocol(int k) {
  return k == OP_LOAD || k == OP_STORE || k == OP_RMW || k == OP_WAIT || k == OP_NOTIFY || k == OP_LOCK || k == OP_UNLOCK ||
         k == OP_TRYLOCK || k == OP_CVWAIT || k == OP_CVNOTIFY || k == OP_JOIN;
}

// called by thread `me` at a scheduling point with its pending op set
void schedule(Th* me) {
  Exec* e = g;
  if (++e->steps > e->max_steps) finish_child(ST_HORIZON, "horizon of scheduling steps exceeded (livelock?)");
  PointRec pr;
  pr.cur = me->id;
  for (;;) {
    pr.enabled.clear();
    pr.cur_enabled = is_enabled(me);
    if (pr.cur_enabled) pr.enabled.push_back(me->id);
    for (auto& t : e->th) if (t.get() != me && is_enabled(t.get())) pr.enabled.push_back(t->id);
    if (!pr.enabled.empty()) break;
    // nobody enabled
    bool all_finished = true;
    for (auto& t : e->th) if (!t->finished) all_finished = false;
    if (all_finished) { e->all_done = true; return; }
    // only spinners left?  let one proceed; repeated without any write => livelock
    Th* sp = nullptr;
    for (auto& t : e->th) if (!t->finished && t->bk == B_ATOMIC_NE && t->spin) { sp = t.get(); break; }
    if (sp) {
      if (e->writes_at_last_forced == e->global_writes) e->forced_spin_wakes++;
      else { e->forced_spin_wakes = 1; e->writes_at_last_forced = e->global_writes; }
      if (e->forced_spin_wakes > 2 * (int)e->th.size() + 2) {
        finish_child(ST_LIVELOCK, "livelock: only spinning threads are left and nothing they wait for can change");
      }
      sp->bk = B_NONE; sp->spin = false; sp->last_was_load = false;
      continue;
    }
    std::string msg = "deadlock: no enabled thread;";
    for (auto& t : e->th) if (!t->finished) {
      msg += " t" + std::to_string(t->id) + " blocked in " + kind_name(t->kind);
    }
    finish_child(ST_DEADLOCK, msg);
  }
  // pick
  size_t idx = e->points.size();
  int choice = 0;
  if (e->forced) {
    // eager internal steps: lowest-id enabled thread whose pending op is not a protocol op
    choice = -1;
    int best = 1 << 30;
    for (size_t k = 0; k < pr.enabled.size(); k++) {
      Th* t = e->th[pr.enabled[k]].get();
      if (!is_protocol(t->kind) && t->id < best) { best = t->id; choice = (int)k; }
    }
    if (choice < 0) {
      if (e->forced_pos < e->forced_tids.size()) {
        int want = e->forced_tids[e->forced_pos++];
        for (size_t k = 0; k < pr.enabled.size(); k++) if (pr.enabled[k] == want) choice = (int)k;
        if (choice < 0) {
          pr.chosen = 0; e->points.push_back(pr);
          std::string msg = "model path step " + std::to_string(e->forced_pos - 1) + ": thread t" + std::to_string(want) +
                            " is not enabled in the implementation; enabled:";
          for (int t : pr.enabled) msg += " t" + std::to_string(t) + "(" + kind_name(e->th[t]->kind) + ")";
          finish_child(ST_FORCED_DISABLED, msg);
        }
      } else {
        choice = 0;
      }
    }
  } else if (idx < e->prefix.size()) {
    choice = e->prefix[idx];
    if (choice < 0 || choice >= (int)pr.enabled.size()) {
      pr.chosen = 0; e->points.push_back(pr);
      finish_child(ST_DIVERGED, "replay diverged: choice " + std::to_string(choice) + " out of range at point " + std::to_string(idx));
    }
  }
  pr.chosen = choice;
  e->points.push_back(pr);
  Th* next = e->th[pr.enabled[choice]].get();
  if (e->want_trace) {
    e->trace += "t" + std::to_string(next->id) + ":" + ((next->kind == OP_WAIT && next->spin) ? "load" : kind_name(next->kind)) + ":o" + std::to_string(obj_id(next->obj)) + ":" +
                std::to_string(next->val) + "\n";
  }
  if (next != me) {
    e->cur = next->id;
    // an exiting thread must not touch any execution state after it has passed the baton:
    // the main thread may finish the execution and free it right away
    bool exiting = me->finished;
    sem_t* mysem = &me->sem;
    sem_post(&next->sem);
    if (exiting) return;
    sem_wait(mysem);
  }
}

std::vector<OsThread*> g_pool;      // parked OS threads (touched only by the thread holding the baton)

void os_thread_main(OsThread* os) {
  for (;;) {
    sem_wait(&os->start);
    Th* t = os->assigned;
    tl_self = t;
    sem_wait(&t->sem);      // wait until first scheduled
    t->started = true;
    t->kind = OP_USER;
    t->fn();
    t->fn = nullptr;
    // thread end: give the OS thread back before passing the baton
    t->kind = OP_END; t->obj = nullptr; t->bk = B_NONE;
    t->finished = true;
    tl_self = nullptr;
    g_pool.push_back(os);
    schedule(t);
  }
}

}  // namespace

void bump_calls() { tl_calls++; }
bool active() { return g && g->active && tl_self != nullptr; }
int self() { return tl_self ? tl_self->id : -1; }

int obj_id(const void* obj) {
  if (!obj) return 0;
  auto it = g->ids.find(obj);
  if (it != g->ids.end()) return it->second;
  int id = (int)g->ids.size() + 1;
  g->ids[obj] = id;
  return id;
}

void point(int kind, const void* obj, long long value) {
  Th* me = tl_self;
  me->kind = kind; me->obj = obj; me->val = value; me->bk = B_NONE;
  if (kind != OP_LOAD && kind != OP_AFTER) me->last_was_load = false;
  schedule(me);
}

void after(const void* obj, long long result) {
  Th* me = tl_self;
  me->kind = OP_AFTER; me->obj = obj; me->val = result; me->bk = B_NONE;
  schedule(me);
}

bool spin_check(const void* obj, long long value) {
  Th* me = tl_self;
  long ver = g->version[obj];
  // a spin: the same value re-loaded with no write to it and no function call by this thread in between
  bool rep = me->last_was_load && me->last_load_obj == obj && me->last_load_val == value && me->last_load_version == ver &&
             me->last_load_calls == tl_calls;
  me->last_was_load = true; me->last_load_obj = obj; me->last_load_val = value; me->last_load_version = ver;
  me->last_load_calls = tl_calls;
  return rep;
}

void yield_now() {
  if (!active()) { std::this_thread::yield(); return; }
  point(OP_YIELD, nullptr, 0);
}

void note_write(const void* obj) { g->version[obj]++; g->global_writes++; }

void block_atomic_ne(const void* obj, bool (*differs)(const void*, long long), long long old, bool was_spin) {
  Th* me = tl_self;
  if (!was_spin) me->last_was_load = false;
  me->kind = OP_WAIT; me->obj = obj; me->val = old;
  me->bk = B_ATOMIC_NE; me->differs = differs; me->old = old; me->spin = was_spin;
  schedule(me);
  me->bk = B_NONE; me->spin = false;
}

void block_lock(const void* mtx) {
  Th* me = tl_self;
  me->last_was_load = false;
  me->kind = OP_LOCK; me->obj = mtx; me->val = 0; me->bk = B_LOCK; me->mtx = mtx;
  schedule(me);
  me->bk = B_NONE;
  g->owner[mtx] = me->id;
}

bool mtx_try_acquire(const void* mtx) {
  if (g->owner.find(mtx) != g->owner.end()) return false;
  g->owner[mtx] = tl_self->id;
  return true;
}

void mtx_release(const void* mtx) {
  auto it = g->owner.find(mtx);
  if (it == g->owner.end() || it->second != tl_self->id) {
    fail("mutex unlocked by a thread that does not own it");
    return;
  }
  g->owner.erase(it);
}

void block_join(int tid) {
  if (!active()) return;
  Th* me = tl_self;
  me->last_was_load = false;
  me->kind = OP_JOIN; me->obj = nullptr; me->val = tid; me->bk = B_JOIN; me->join_tid = tid;
  schedule(me);
  me->bk = B_NONE;
  after(nullptr);
}

int cv_wait_begin(const void* cv) {
  int ticket = g->next_ticket++;
  g->cvwait[cv].push_back({ticket, false});
  return ticket;
}

void cv_wait_block(const void* cv, int ticket, const void* mtx) {
  Th* me = tl_self;
  me->kind = OP_CVWAIT; me->obj = cv; me->val = ticket; me->bk = B_CV; me->cv = cv; me->cv_ticket = ticket; me->mtx = mtx;
  schedule(me);
  me->bk = B_NONE;
  auto& w = g->cvwait[cv];
  bool by_all = false;
  for (size_t i = 0; i < w.size(); i++) if (w[i].first == ticket) { by_all = w[i].second; w.erase(w.begin() + i); break; }
  auto& toks = g->cvtokens[cv];
  if (!by_all) {
    for (size_t i = 0; i < toks.size(); i++) if (toks[i].count(ticket)) { toks.erase(toks.begin() + i); break; }
  }
  for (size_t i = toks.size(); i-- > 0;) { toks[i].erase(ticket); if (toks[i].empty()) toks.erase(toks.begin() + i); }
  g->owner[mtx] = me->id;
}

void cv_notify(const void* cv, bool all) {
  auto& w = g->cvwait[cv];
  if (all) {
    for (auto& e : w) e.second = true;
    return;
  }
  std::set<int> eligible;
  for (auto& e : w) if (!e.second) eligible.insert(e.first);
  if (!eligible.empty()) g->cvtokens[cv].push_back(eligible);
}

int spawn(std::function<void()> fn) {
  if (!active()) { std::fprintf(stderr, "vsched: thread created outside a controlled execution\n"); std::abort(); }
  point(OP_SPAWN, nullptr, (long long)g->th.size());
  auto t = std::make_unique<Th>();
  t->id = (int)g->th.size();
  sem_init(&t->sem, 0, 0);
  t->fn = std::move(fn);
  t->kind = OP_START;
  Th* raw = t.get();
  g->th.push_back(std::move(t));
  OsThread* os;
  if (!g_pool.empty()) { os = g_pool.back(); g_pool.pop_back(); }
  else { os = new OsThread(); sem_init(&os->start, 0, 0); os->th = std::thread(os_thread_main, os); os->th.detach(); }
  os->assigned = raw;
  sem_post(&os->start);
  after(nullptr);
  return raw->id;
}

unsigned thread::hardware_concurrency() noexcept { return g ? (unsigned)g->hw : 4u; }

void log_event(const char* what, long long a, long long b) {
  if (!g) return;
  char buf[160];
  std::snprintf(buf, sizeof(buf), "%s(%lld,%lld);", what, a, b);
  g->log += buf;
}

void fail(const char* msg) {
  if (!g) { std::fprintf(stderr, "vsched::fail outside execution: %s\n", msg); std::abort(); }
  if (g->status == ST_OK) { g->status = ST_FAIL; g->failure = msg; }
  finish_child(ST_FAIL, g->failure);
}

// ------------------------------------------------------------------------------------------ explorer
namespace {

struct RunOut {
  int status = ST_CRASH;
  std::string failure, log, trace;
  std::vector<PointRec> points;
  int sig = 0;
};

std::string read_all(int fd) {
  std::string s;
  char buf[65536];
  for (;;) {
    ssize_t n = ::read(fd, buf, sizeof(buf));
    if (n <= 0) break;
    s.append(buf, (size_t)n);
  }
  return s;
}

bool parse_block(const std::string& s, size_t& pos, const char* tag, std::string* out) {
  size_t tl = std::strlen(tag);
  if (s.compare(pos, tl, tag) != 0) return false;
  pos += tl + 1;
  size_t nl = s.find('\n', pos);
  if (nl == std::string::npos) return false;
  size_t len = (size_t)std::atol(s.substr(pos, nl - pos).c_str());
  pos = nl + 1;
  if (pos + len > s.size()) return false;
  *out = s.substr(pos, len);
  pos += len + 1;
  return true;
}

// ---- persistent worker process ---------------------------------------------------------------
struct Worker {
  pid_t pid = -1;
  int to_fd = -1, from_fd = -1;
  bool alive = false;
};
Worker g_worker;

// run one execution in-process (worker side); returns the serialized result if it completed
std::string run_one(const std::function<void()>& body, const Options& opt, const std::vector<int>& prefix,
                    bool forced, bool want_trace, int out_fd) {
  Exec* e = new Exec();
  Exec* old = g;
  g = e;
  delete old;
  e->out_fd = out_fd;
  if (forced) { e->forced = true; e->forced_tids = prefix; } else { e->prefix = prefix; }
  e->want_trace = want_trace;
  e->max_steps = opt.max_steps;
  e->hw = opt.hw_concurrency;
  auto t0 = std::make_unique<Th>();
  t0->id = 0; sem_init(&t0->sem, 0, 0); t0->started = true; t0->kind = OP_USER;
  tl_self = t0.get();
  e->th.push_back(std::move(t0));
  e->active = true;
  body();
  // main body returned: wait for stragglers (joins add points only if threads are left)
  for (size_t i = 1; i < e->th.size(); i++) {
    if (!e->th[i]->finished) block_join((int)i);
  }
  e->active = false;
  tl_self = nullptr;
  return serialize_result(e->status, e->failure);
}

[[noreturn]] void worker_loop(const std::function<void()>& body, const Options& opt, int rfd, int wfd) {
  FILE* in = fdopen(rfd, "r");
  char* line = nullptr;
  size_t cap = 0;
  while (getline(&line, &cap, in) > 0) {
    // "RUN <want_trace> <forced> <n> c0 c1 ..."
    std::istringstream is(line);
    std::string cmd; int wt = 0, forced = 0; long n = 0;
    is >> cmd >> wt >> forced >> n;
    if (cmd != "RUN") break;
    std::vector<int> prefix((size_t)n);
    for (long i = 0; i < n; i++) is >> prefix[(size_t)i];
    std::string res = run_one(body, opt, prefix, forced != 0, wt != 0, wfd);
    write_all(wfd, res);
  }
  _exit(0);
}

void kill_worker() {
  if (g_worker.pid > 0) {
    if (g_worker.alive) kill(g_worker.pid, SIGKILL);
    int st; waitpid(g_worker.pid, &st, 0);
    close(g_worker.to_fd); close(g_worker.from_fd);
  }
  g_worker = Worker();
}

void ensure_worker(const std::function<void()>& body, const Options& opt) {
  if (g_worker.alive) return;
  kill_worker();
  int to[2], from[2];
  if (pipe(to) != 0 || pipe(from) != 0) { std::perror("pipe"); std::exit(2); }
  fflush(stdout); fflush(stderr);
  pid_t pid = fork();
  if (pid == 0) {
    close(to[1]); close(from[0]);
    signal(SIGPIPE, SIG_DFL);
    worker_loop(body, opt, to[0], from[1]);
  }
  close(to[0]); close(from[1]);
  g_worker.pid = pid; g_worker.to_fd = to[1]; g_worker.from_fd = from[0]; g_worker.alive = true;
}

// read exactly n bytes with a timeout; returns false on EOF / timeout
bool read_n(int fd, size_t n, std::string* out, int timeout_ms) {
  out->clear();
  char buf[65536];
  while (out->size() < n) {
    struct pollfd pfd{fd, POLLIN, 0};
    int pr = poll(&pfd, 1, timeout_ms);
    if (pr < 0 && errno == EINTR) continue;
    if (pr <= 0) return false;
    size_t want = std::min(sizeof(buf), n - out->size());
    ssize_t k = ::read(fd, buf, want);
    if (k <= 0) return false;
    out->append(buf, (size_t)k);
  }
  return true;
}

bool read_line(int fd, std::string* out, int timeout_ms) {
  out->clear();
  for (;;) {
    struct pollfd pfd{fd, POLLIN, 0};
    int pr = poll(&pfd, 1, timeout_ms);
    if (pr < 0 && errno == EINTR) continue;
    if (pr <= 0) return false;
    char c;
    ssize_t k = ::read(fd, &c, 1);
    if (k <= 0) return false;
    if (c == '\n') return true;
    out->push_back(c);
  }
}

RunOut parse_result(const std::string& s) {
  RunOut out;
  size_t pos = 0;
  bool ok = false;
  if (s.compare(0, 7, "STATUS ") == 0) {
    size_t nl = s.find('\n');
    out.status = std::atoi(s.substr(7, nl - 7).c_str());
    pos = nl + 1;
    if (parse_block(s, pos, "FAILURE", &out.failure) && parse_block(s, pos, "LOG", &out.log) &&
        parse_block(s, pos, "TRACE", &out.trace) && s.compare(pos, 7, "POINTS ") == 0) {
      size_t nl2 = s.find('\n', pos);
      long np = std::atol(s.substr(pos + 7, nl2 - pos - 7).c_str());
      pos = nl2 + 1;
      const char* p = s.c_str() + pos;
      char* endp = nullptr;
      out.points.reserve((size_t)np);
      for (long i = 0; i < np; i++) {
        PointRec pr;
        pr.cur = (int)std::strtol(p, &endp, 10); p = endp;
        pr.cur_enabled = std::strtol(p, &endp, 10) != 0; p = endp;
        pr.chosen = (int)std::strtol(p, &endp, 10); p = endp;
        long n = std::strtol(p, &endp, 10); p = endp;
        pr.enabled.resize((size_t)n);
        for (long k = 0; k < n; k++) { pr.enabled[(size_t)k] = (int)std::strtol(p, &endp, 10); p = endp; }
        out.points.push_back(std::move(pr));
      }
      while (*p == '\n' || *p == ' ') p++;
      ok = std::strncmp(p, "END", 3) == 0;
    }
  }
  if (!ok) { out.status = ST_CRASH; out.failure = "malformed result from worker"; }
  return out;
}

RunOut run_child(const std::function<void()>& body, const Options& opt, const std::vector<int>& prefix,
                 const std::vector<int>* forced, bool want_trace) {
  ensure_worker(body, opt);
  const std::vector<int>& v = forced ? *forced : prefix;
  std::string req = "RUN " + std::to_string(want_trace ? 1 : 0) + " " + std::to_string(forced ? 1 : 0) + " " + std::to_string(v.size());
  for (int c : v) { req += ' '; req += std::to_string(c); }
  req += "\n";
  write_all(g_worker.to_fd, req);
  RunOut out;
  std::string header, payload;
  const int kTimeoutMs = 120000;
  bool got = read_line(g_worker.from_fd, &header, kTimeoutMs) && header.compare(0, 7, "RESULT ") == 0 &&
             read_n(g_worker.from_fd, (size_t)std::atol(header.c_str() + 7), &payload, kTimeoutMs);
  if (got) {
    out = parse_result(payload);
    if (out.status != ST_OK) {   // the worker has left the process after reporting
      int st; waitpid(g_worker.pid, &st, 0);
      close(g_worker.to_fd); close(g_worker.from_fd);
      g_worker = Worker();
    }
    return out;
  }
  // no (complete) result: crash or hang
  int st = 0;
  pid_t r = waitpid(g_worker.pid, &st, WNOHANG);
  if (r == 0) {   // still running: hang
    kill(g_worker.pid, SIGKILL);
    waitpid(g_worker.pid, &st, 0);
    out.status = ST_HORIZON;
    out.failure = "execution did not finish within the wall-clock limit (hang outside the scheduler's control)";
  } else {
    out.status = ST_CRASH;
    out.sig = WIFSIGNALED(st) ? WTERMSIG(st) : 0;
    out.failure = "worker died without a result (signal " + std::to_string(out.sig) + ", exit " +
                  std::to_string(WIFEXITED(st) ? WEXITSTATUS(st) : -1) + ")";
  }
  close(g_worker.to_fd); close(g_worker.from_fd);
  g_worker = Worker();
  return out;
}

std::string join_ints(const std::vector<int>& v) {
  std::string s;
  for (size_t i = 0; i < v.size(); i++) { if (i) s += ","; s += std::to_string(v[i]); }
  return s;
}

const char* status_name(int st) {
  static const char* n[] = {"ok", "fail", "deadlock", "livelock", "horizon", "diverged", "crash", "forced-disabled"};
  return n[st];
}

}  // namespace

Result explore(const std::function<void()>& body, const Options& opt) {
  Result res;
  std::vector<std::deque<std::vector<int>>> queue(opt.max_preemptions + 1);
  queue[0].push_back({});
  std::set<std::string> outcomes;
  bool root = true;
  for (int b = 0; b <= opt.max_preemptions; b++) {
    while (!queue[b].empty()) {
      if (opt.max_executions >= 0 && res.executions >= opt.max_executions) { res.capped = true; break; }
      std::vector<int> prefix = std::move(queue[b].front());
      queue[b].pop_front();
      RunOut r = run_child(body, opt, prefix, nullptr, false);
      if (root && r.status == ST_OK) {
        // determinism self-test: executions share a worker process, so the harness body must be re-entrant;
        // the root schedule is run a second time and must record identical decision points and observations
        RunOut again = run_child(body, opt, prefix, nullptr, true);
        bool same = again.status == ST_OK && again.points.size() == r.points.size() && again.log == r.log;
        for (size_t i = 0; same && i < r.points.size(); i++) {
          same = r.points[i].cur == again.points[i].cur && r.points[i].enabled == again.points[i].enabled;
          if (!same) {
            std::fprintf(stderr, "vsched: first difference at point %zu: cur %d/%d, enabled %zu/%zu\n", i, r.points[i].cur,
                         again.points[i].cur, r.points[i].enabled.size(), again.points[i].enabled.size());
          }
        }
        if (!same) {
          std::fprintf(stderr, "vsched: HARNESS ERROR: the harness body is not re-entrant (second run of the default schedule "
                               "differs: %zu vs %zu points, status %s)\n%s\n", r.points.size(), again.points.size(),
                       status_name(again.status), again.trace.substr(0, 4000).c_str());
          std::exit(2);
        }
      }
      bool counted = !(root && opt.shard != 0);
      if (counted) {
        res.executions++;
        res.points += (long)r.points.size() - (long)prefix.size();
        if (outcomes.insert(r.log).second && res.outcome_samples.size() < 3) res.outcome_samples.push_back(r.log);
      }
      std::vector<int> choices;
      for (auto& p : r.points) choices.push_back(p.chosen);
      if (res.schedule_samples.size() < 3 && prefix.size() > 0) res.schedule_samples.push_back(join_ints(choices));
      if (r.status != ST_OK) {
        if (std::getenv("VSCHED_VERBOSE")) {
          std::fprintf(stderr, "vsched: %s: %s [prefix %s] npoints=%zu\n", status_name(r.status), r.failure.c_str(),
                       join_ints(prefix).c_str(), r.points.size());
        }
        if (r.status == ST_DIVERGED) {
          std::fprintf(stderr, "vsched: HARNESS ERROR: %s (prefix %s)\n", r.failure.c_str(), join_ints(prefix).c_str());
          std::exit(2);
        }
        // believe a failure only if it reproduces twice with identical observations
        RunOut r2 = run_child(body, opt, choices.size() ? choices : prefix, nullptr, false);
        RunOut r3 = run_child(body, opt, choices.size() ? choices : prefix, nullptr, false);
        // the same schedule must fail every time; the *kind* of failure may differ between runs when the defect
        // corrupts memory (executions share a worker process), which is still a reproducible failure
        if (r2.status == ST_OK || r3.status == ST_OK) {
          std::fprintf(stderr, "vsched: HARNESS ERROR: failure not reproducible under the same schedule (%s / %s / %s)\n",
                       status_name(r.status), status_name(r2.status), status_name(r3.status));
          std::exit(2);
        }
        if (counted || true) {
          res.failures++;
          if (r.status == ST_DEADLOCK) res.deadlocks++;
          if (r.status == ST_LIVELOCK || r.status == ST_HORIZON) res.livelocks++;
          if (res.first_failure.empty()) {
            res.first_failure = std::string(status_name(r.status)) + ": " + r.failure;
            res.first_failure_schedule = join_ints(choices.size() ? choices : prefix);
          }
        }
        if (res.failures >= 5) { res.capped = true; break; }   // enough counterexamples: stop (reported as capped)
      }
      // children
      int cost = b;
      // cost of the prefix is b by construction; later default choices are free
      for (size_t i = prefix.size(); i < r.points.size(); i++) {
        const PointRec& p = r.points[i];
        int newcost = cost + (p.cur_enabled ? 1 : 0);
        if (newcost > opt.max_preemptions) continue;
        for (int alt = 1; alt < (int)p.enabled.size(); alt++) {
          if (root && prefix.empty()) {
            // distribute the root's subtrees over shards
            static long child_index = 0;
            if ((child_index++ % opt.nshards) != opt.shard) continue;
          }
          std::vector<int> np(choices.begin(), choices.begin() + i);
          np.push_back(alt);
          queue[newcost].push_back(std::move(np));
        }
      }
      root = false;
    }
    if (res.capped) break;
    res.completed_bound = b;
  }
  res.distinct_outcomes = (long)outcomes.size();
  res.distinct_prefixes = res.points + 1;
  kill_worker();
  return res;
}

std::string replay(const std::function<void()>& body, const Options& opt, const std::string& schedule, bool* failed,
                   std::string* failure) {
  std::vector<int> prefix;
  std::istringstream is(schedule);
  std::string tok;
  while (std::getline(is, tok, ',')) if (!tok.empty()) prefix.push_back(std::atoi(tok.c_str()));
  RunOut r = run_child(body, opt, prefix, nullptr, true);
  if (failed) *failed = r.status != ST_OK;
  if (failure) *failure = std::string(status_name(r.status)) + ": " + r.failure;
  return r.log + "\n--trace--\n" + r.trace;
}

bool replay_forced(const std::function<void()>& body, const Options& opt, const std::vector<int>& tids,
                   std::string* trace_out, std::string* err) {
  RunOut r = run_child(body, opt, {}, &tids, true);
  if (trace_out) *trace_out = r.trace;
  if (r.status != ST_OK) { if (err) *err = std::string(status_name(r.status)) + ": " + r.failure; return false; }
  return true;
}

static std::string jesc(const std::string& s) {
  std::string o;
  for (char c : s) {
    if (c == '"' || c == '\\') { o += '\\'; o += c; }
    else if (c == '\n') o += "\\n";
    else if ((unsigned char)c < 0x20) o += ' ';
    else o += c;
  }
  return o;
}

std::string result_json(const Result& r) {
  std::ostringstream os;
  os << "{\"executions\":" << r.executions << ",\"points\":" << r.points << ",\"distinct_outcomes\":" << r.distinct_outcomes
     << ",\"distinct_prefixes\":" << r.distinct_prefixes << ",\"completed_bound\":" << r.completed_bound
     << ",\"capped\":" << (r.capped ? "true" : "false") << ",\"deadlocks\":" << r.deadlocks << ",\"livelocks\":" << r.livelocks
     << ",\"failures\":" << r.failures << ",\"first_failure\":\"" << jesc(r.first_failure) << "\",\"first_failure_schedule\":\""
     << r.first_failure_schedule << "\",\"outcome_samples\":[";
  for (size_t i = 0; i < r.outcome_samples.size(); i++) os << (i ? "," : "") << "\"" << jesc(r.outcome_samples[i].substr(0, 400)) << "\"";
  os << "],\"schedule_samples\":[";
  for (size_t i = 0; i < r.schedule_samples.size(); i++) os << (i ? "," : "") << "\"" << r.schedule_samples[i].substr(0, 400) << "\"";
  os << "]}";
  return os.str();
}

}  // namespace vsched

extern "C" {
void __cyg_profile_func_enter(void*, void*) { vsched::bump_calls(); }
void __cyg_profile_func_exit(void*, void*) {}
}
