// Force-included (-include) in front of an UNMODIFIED translation unit of the code
// under test: the real standard headers are included first, then the tokens
// atomic / thread / mutex / condition_variable are renamed so that std::atomic<T>
// etc. resolve to the scheduler-controlled replacements.
#ifndef VERIF_VSCHED_PRELUDE_H_
#define VERIF_VSCHED_PRELUDE_H_
#ifdef __cplusplus
#include <algorithm>
#include <array>
#include <atomic>
#include <chrono>
#include <condition_variable>
#include <cstdint>
#include <cstring>
#include <deque>
#include <functional>
#include <future>
#include <iostream>
#include <map>
#include <memory>
#include <mutex>
#include <new>
#include <optional>
#include <queue>
#include <set>
#include <shared_mutex>
#include <sstream>
#include <string>
#include <string_view>
#include <thread>
#include <unordered_map>
#include <unordered_set>
#include <utility>
#include <vector>

#include "vsched/vsched.h"

namespace std {
template <typename T> using vsched_atomic = ::vsched::atomic<T>;
using vsched_atomic_int = ::vsched::atomic<int>;
using vsched_atomic_bool = ::vsched::atomic<bool>;
using vsched_atomic_size_t = ::vsched::atomic<size_t>;
using vsched_thread = ::vsched::thread;
using vsched_mutex = ::vsched::mutex;
using vsched_condition_variable = ::vsched::condition_variable;
}  // namespace std

#define atomic vsched_atomic
#define atomic_int vsched_atomic_int
#define atomic_bool vsched_atomic_bool
#define atomic_size_t vsched_atomic_size_t
#define thread vsched_thread
#define mutex vsched_mutex
#define condition_variable vsched_condition_variable
#endif  // __cplusplus
#endif
