// vsched: a controlled-scheduler stateless model checker for C++ code that uses
// std::atomic / std::thread / std::mutex / std::condition_variable.
//
// Real OS threads, exactly one runnable at a time (per-thread semaphore baton), so
// thread_local state in the code under test behaves as in production.  Every
// intercepted operation is bracketed by scheduling points (before and after), so
// the plain code between two synchronisation operations is its own atomic step.
// Atomics are sequentially consistent here (weak memory orders are not modelled).
#ifndef VERIF_VSCHED_H_
#define VERIF_VSCHED_H_

#include <atomic>
#include <chrono>
#include <condition_variable>
#include <cstdint>
#include <cstring>
#include <functional>
#include <mutex>
#include <string>
#include <thread>
#include <type_traits>
#include <utility>
#include <vector>

#define VS_NI __attribute__((no_instrument_function))

namespace vsched {

enum OpKind : int {
  OP_START = 0,     // thread start
  OP_LOAD, OP_STORE, OP_RMW, OP_WAIT, OP_NOTIFY,
  OP_LOCK, OP_UNLOCK, OP_TRYLOCK, OP_CVWAIT, OP_CVNOTIFY,
  OP_SPAWN, OP_JOIN, OP_YIELD, OP_AFTER, OP_END, OP_USER
};

// ---- runtime interface (vsched_rt.cc) ------------------------------------------------------
bool active();                       // inside a controlled execution?
void point(int kind, const void* obj, long long value);   // scheduling point (always-enabled continuation)
void after(const void* obj, long long result = 0);         // scheduling point after an op (result is traced)
// blocking points: the calling thread is disabled until pred-kind becomes true
void block_atomic_ne(const void* obj, bool (*differs)(const void* obj, long long old), long long old, bool spin);
void block_lock(const void* mtx);
void block_join(int tid);
int  cv_wait_begin(const void* cv);   // registers waiter, returns ticket
void cv_wait_block(const void* cv, int ticket, const void* mtx);  // disabled until notified and mutex free
void cv_notify(const void* cv, bool all);
void note_write(const void* obj);     // an atomic was written (wakes spinners)
bool spin_check(const void* obj, long long value);
void yield_now();   // std::this_thread::yield under the scheduler
void bump_calls();  // called from -finstrument-functions hooks  // call on load: true if this load repeats the previous one
int  spawn(std::function<void()> fn); // returns tid
void thread_exit_hook();
int  self();
int  obj_id(const void* obj);         // small stable id per object within an execution
void log_event(const char* what, long long a, long long b);  // harness observation (part of the outcome)

// mutex bookkeeping (owner table lives in the runtime so that enabledness can be evaluated)
bool mtx_try_acquire(const void* mtx);
void mtx_release(const void* mtx);

// ---- atomic --------------------------------------------------------------------------------
template <typename T>
class atomic {
  static_assert(std::is_trivially_copyable<T>::value, "T");
 public:
  atomic() noexcept = default;
  VS_NI constexpr atomic(T v) noexcept : v_(v) {}
  atomic(const atomic&) = delete;
  atomic& operator=(const atomic&) = delete;

  VS_NI static long long enc(T v) {
    if constexpr (std::is_integral<T>::value && std::is_signed<T>::value) {
      return static_cast<long long>(v);
    } else {
      long long r = 0; std::memcpy(&r, &v, sizeof(T) < 8 ? sizeof(T) : 8); return r;
    }
  }
  VS_NI static bool differs(const void* self, long long old) {
    return enc(static_cast<const atomic*>(self)->v_) != old;
  }

  VS_NI T load(std::memory_order = std::memory_order_seq_cst) const noexcept {
    if (!active()) return v_;
    if (spin_check(this, enc(v_))) {
      // the same value was just loaded by this thread with no write in between: a spin loop.
      block_atomic_ne(this, &atomic::differs, enc(v_), true);
    } else {
      point(OP_LOAD, this, enc(v_));
    }
    T r = v_;
    after(this, enc(r));
    return r;
  }
  VS_NI operator T() const noexcept { return load(); }
  VS_NI void store(T v, std::memory_order = std::memory_order_seq_cst) noexcept {
    if (!active()) { v_ = v; return; }
    point(OP_STORE, this, enc(v));
    v_ = v;
    note_write(this);
    after(this);
  }
  VS_NI T operator=(T v) noexcept { store(v); return v; }
  VS_NI T exchange(T v, std::memory_order = std::memory_order_seq_cst) noexcept {
    if (!active()) { T o = v_; v_ = v; return o; }
    point(OP_RMW, this, enc(v));
    T o = v_; v_ = v;
    note_write(this);
    after(this, enc(o));
    return o;
  }
  VS_NI bool compare_exchange_strong(T& expected, T desired, std::memory_order = std::memory_order_seq_cst,
                               std::memory_order = std::memory_order_seq_cst) noexcept {
    if (!active()) { if (v_ == expected) { v_ = desired; return true; } expected = v_; return false; }
    point(OP_RMW, this, enc(desired));
    bool ok = (enc(v_) == enc(expected));
    if (ok) { v_ = desired; note_write(this); } else { expected = v_; }
    after(this, ok ? 1 : 0);
    return ok;
  }
  VS_NI bool compare_exchange_weak(T& e, T d, std::memory_order a = std::memory_order_seq_cst,
                             std::memory_order b = std::memory_order_seq_cst) noexcept {
    return compare_exchange_strong(e, d, a, b);
  }
  template <typename U = T>
  VS_NI T fetch_add(U d, std::memory_order = std::memory_order_seq_cst) noexcept {
    if (!active()) { T o = v_; v_ = static_cast<T>(v_ + d); return o; }
    point(OP_RMW, this, enc(static_cast<T>(d)));
    T o = v_; v_ = static_cast<T>(v_ + d);
    note_write(this);
    after(this, enc(o));
    return o;
  }
  template <typename U = T>
  VS_NI T fetch_sub(U d, std::memory_order = std::memory_order_seq_cst) noexcept {
    if (!active()) { T o = v_; v_ = static_cast<T>(v_ - d); return o; }
    point(OP_RMW, this, enc(static_cast<T>(d)));
    T o = v_; v_ = static_cast<T>(v_ - d);
    note_write(this);
    after(this, enc(o));
    return o;
  }
  VS_NI T operator++() noexcept { return fetch_add(1) + 1; }
  VS_NI T operator++(int) noexcept { return fetch_add(1); }
  VS_NI T operator--() noexcept { return fetch_sub(1) - 1; }
  VS_NI T operator--(int) noexcept { return fetch_sub(1); }
  VS_NI T operator+=(T d) noexcept { return fetch_add(d) + d; }
  VS_NI T operator-=(T d) noexcept { return fetch_sub(d) - d; }

  VS_NI void wait(T old, std::memory_order = std::memory_order_seq_cst) const noexcept {
    if (!active()) { while (enc(v_) == enc(old)) std::this_thread::yield(); return; }
    block_atomic_ne(this, &atomic::differs, enc(old), false);   // disabled until value != old
    after(this, enc(v_));
  }
  VS_NI void notify_one() noexcept { if (active()) { point(OP_NOTIFY, this, 1); after(this); } }
  VS_NI void notify_all() noexcept { if (active()) { point(OP_NOTIFY, this, 2); after(this); } }
  VS_NI bool is_lock_free() const noexcept { return true; }

  VS_NI T raw() const { return v_; }

 private:
  T v_;
};

// ---- mutex ---------------------------------------------------------------------------------
class mutex {
 public:
  VS_NI constexpr mutex() noexcept {}
  mutex(const mutex&) = delete;
  mutex& operator=(const mutex&) = delete;
  VS_NI void lock() {
    if (!active()) { real_.lock(); return; }
    block_lock(this);       // disabled until free; acquires
    after(this);
  }
  VS_NI bool try_lock() {
    if (!active()) return real_.try_lock();
    point(OP_TRYLOCK, this, 0);
    bool ok = mtx_try_acquire(this);
    after(this);
    return ok;
  }
  VS_NI void unlock() {
    if (!active()) { real_.unlock(); return; }
    point(OP_UNLOCK, this, 0);
    mtx_release(this);
    after(this);
  }
 private:
  std::mutex real_;
};

// ---- condition_variable --------------------------------------------------------------------
class condition_variable {
 public:
  VS_NI condition_variable() {}
  condition_variable(const condition_variable&) = delete;
  VS_NI void notify_one() noexcept {
    if (!active()) { real_.notify_one(); return; }
    point(OP_CVNOTIFY, this, 1);
    cv_notify(this, false);
    after(this);
  }
  VS_NI void notify_all() noexcept {
    if (!active()) { real_.notify_all(); return; }
    point(OP_CVNOTIFY, this, 2);
    cv_notify(this, true);
    after(this);
  }
  VS_NI void wait(std::unique_lock<mutex>& lk) {
    if (!active()) { std::abort(); }
    // atomically: release mutex + become waiter
    point(OP_CVWAIT, this, 0);
    int ticket = cv_wait_begin(this);
    mtx_release(lk.mutex());
    cv_wait_block(this, ticket, lk.mutex());   // disabled until notified and mutex free; re-acquires
    after(this);
  }
  template <class Pred>
  VS_NI void wait(std::unique_lock<mutex>& lk, Pred pred) {
    while (!pred()) wait(lk);
  }
 private:
  std::condition_variable real_;
};

// ---- thread --------------------------------------------------------------------------------
class thread {
 public:
  using id = int;
  VS_NI thread() noexcept : tid_(-1) {}
  template <class F, class... Args,
            class = typename std::enable_if<!std::is_same<typename std::decay<F>::type, thread>::value>::type>
  VS_NI explicit thread(F&& f, Args&&... args) {
    auto bound = std::bind(std::forward<F>(f), std::forward<Args>(args)...);
    tid_ = spawn([bound]() mutable { bound(); });
  }
  VS_NI thread(thread&& o) noexcept : tid_(o.tid_) { o.tid_ = -1; }
  VS_NI thread& operator=(thread&& o) noexcept {
    if (joinable()) std::terminate();
    tid_ = o.tid_; o.tid_ = -1; return *this;
  }
  thread(const thread&) = delete;
  VS_NI ~thread() { if (joinable()) std::terminate(); }
  VS_NI bool joinable() const noexcept { return tid_ >= 0; }
  VS_NI void join() { block_join(tid_); tid_ = -1; }
  VS_NI void detach() { tid_ = -1; }
  VS_NI id get_id() const noexcept { return tid_; }
  static unsigned hardware_concurrency() noexcept;
 private:
  int tid_;
};

// ---- explorer ------------------------------------------------------------------------------
struct Options {
  int max_preemptions = 2;
  long max_executions = -1;      // cap (reported)
  bool fork_per_execution = false;
  int shard = 0, nshards = 1;    // subtrees are distributed by the index of the first deviation
  int hw_concurrency = 4;        // what std::thread::hardware_concurrency() answers
  long max_steps = 200000;       // horizon per execution
  bool verbose = false;
};

struct Result {
  long executions = 0;
  long points = 0;               // scheduling decisions taken
  long distinct_outcomes = 0;
  long distinct_prefixes = 0;    // distinct (schedule-prefix) states visited = decision points
  int completed_bound = -1;
  bool capped = false;
  long deadlocks = 0, livelocks = 0, failures = 0;
  std::string first_failure;     // message
  std::string first_failure_schedule;  // choices, comma separated
  std::vector<std::string> outcome_samples;
  std::vector<std::string> schedule_samples;
};

// body: the closed harness (creates objects, spawns threads, joins, checks).  It reports a
// violation by calling vsched::fail(msg).  check_outcome is hashed from log_event calls.
void fail(const char* msg);
Result explore(const std::function<void()>& body, const Options& opt);
// replay one schedule (comma-separated choice indices); returns outcome string, sets *failed
std::string replay(const std::function<void()>& body, const Options& opt, const std::string& schedule, bool* failed,
                   std::string* failure);
// conformance replay of a model path: `tids` lists, per *protocol operation* (atomic / mutex / cv / join op),
// the thread that performs it.  Internal steps (thread start, spawn, after-points, task bodies) are taken
// eagerly, so every thread always sits in front of its next protocol operation.  Returns false if the
// thread named by the path is not enabled (the implementation cannot follow the model).
bool replay_forced(const std::function<void()>& body, const Options& opt, const std::vector<int>& tids,
                   std::string* trace_out, std::string* err);
std::string result_json(const Result& r);

}  // namespace vsched

#endif  // VERIF_VSCHED_H_
