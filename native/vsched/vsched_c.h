/* C-side hook used when engine_memory.c is compiled for the controlled scheduler:
   mj_atomic_add_size_t (== __atomic_fetch_add on size_t) becomes a scheduling point. */
#ifndef VERIF_VSCHED_C_H_
#define VERIF_VSCHED_C_H_
#include <stddef.h>
#ifdef __cplusplus
extern "C"
#endif
size_t vsched_fetch_add_size(size_t* p, size_t v);
#endif
