// C38 driver: the tree's real mjCCache (src/user/user_cache.{h,cc}) against a dictionary reference model.
//
// Three builds of this one source:
//   (default)    E2: explicit-state exploration of ALL operation histories up to a depth (BFS, de-duplicated on the
//                cache's real internal state, read through `#define private public` in this TU only); links the tree library.
//   -DC38_SCHED  E3: user_cache.cc compiled UNMODIFIED under the vsched prelude; 2 threads x <=2 operations on colliding
//                ids, all interleavings with <= P preemptions, brute-force linearizability against the reference model.
//   -DC38_TSAN   companion (not deciding): the same concurrent scenarios free-running on real threads in the TSan build.
//
// usage: c38_cache bfs <depth> <nthreads> [cap_states]
//        c38_cache replay <history>                       history = ops joined by '.'
//        c38_cache explore <max_preemptions> <max_exec> <shard> <nshards> <scenario>    (C38_SCHED)
//        c38_cache replaysched <scenario> <schedule>                                    (C38_SCHED)
//        c38_cache free <repeats> <scenario>...                                         (C38_TSAN)
// operations:
//   I<m><i><s><t>  Insert(model m in 0..1, id i in 0..2, size s in 1..3, resource timestamp t in 0..1) with a fresh data token
//   P<i><r><f>     PopulateData(id i, resource r: 0/1 = timestamp t0/t1 with a provider, n = no provider (always "modified"),
//                  callback f: a = accepts (returns true), r = rejects (returns false))
//   H<i> HasAsset   R<m> RemoveModel   X<m> Reset(model)   Z Reset()   C<c> SetCapacity(c in {0,3,5})   D<i> DeleteAsset
//   S Size()  K Capacity()      (explicit observers; only used in concurrent scenarios)
// scenario (E3): <prefix ops>|<thread-1 ops>|<thread-2 ops>, each a '.'-joined list (prefix may be empty)
#if defined(C38_SCHED)
#include "vsched/vsched_prelude.h"
#endif

#include <algorithm>
#include <array>
#include <cstddef>
#include <cstdint>
#include <cstdio>
#include <cstdlib>
#include <cstring>
#include <functional>
#include <map>
#include <memory>
#include <mutex>
#include <set>
#include <sstream>
#include <string>
#include <thread>
#include <tuple>
#include <unordered_map>
#include <unordered_set>
#include <utility>
#include <vector>

#include <mujoco/mjplugin.h>
#include <mujoco/mujoco.h>

// the cache's private state is read (never written) by this TU
#define private public
#include "user/user_cache.h"
#undef private

#if defined(C38_SCHED)
#undef atomic
#undef atomic_int
#undef atomic_bool
#undef atomic_size_t
#undef thread
#undef mutex
#undef condition_variable
#include "vsched/vsched.h"
#endif  // C38_SCHED (prelude macros removed)

#if defined(C38_TSAN)
// the companion links user_cache.cc only; this is the (5-line) function of user_resource.cc it needs
extern "C" int mju_isModifiedResource(const mjResource* resource, const char* timestamp) {
  if (resource && resource->provider && resource->provider->modified) {
    return resource->provider->modified(resource, timestamp);
  }
  return 1;
}
#endif  // C38_TSAN (resource stub)

namespace {

constexpr int kModels = 2, kIds = 3;
const char* const kModelName[kModels] = {"m0.xml", "m1.xml"};
const char* const kIdName[kIds] = {"asset0", "asset1", "asset2"};
const char* const kTs[2] = {"t0", "t1"};

// ------------------------------------------------------------------------------------------------ operations
enum Kind { INSERT, POPULATE, HAS, REMOVEMODEL, RESETMODEL, RESETALL, SETCAP, DELETEASSET, SIZE, CAPACITY };

struct Op {
  Kind kind;
  int m = 0, id = 0, size = 0, ts = 0;   // ts: 0/1, 2 = resource without provider
  bool accept = true;
  int cap = 0;
  std::string str() const {
    char b[16];
    switch (kind) {
      case INSERT: std::snprintf(b, sizeof b, "I%d%d%d%d", m, id, size, ts); break;
      case POPULATE: std::snprintf(b, sizeof b, "P%d%c%c", id, ts == 2 ? 'n' : char('0' + ts), accept ? 'a' : 'r'); break;
      case HAS: std::snprintf(b, sizeof b, "H%d", id); break;
      case REMOVEMODEL: std::snprintf(b, sizeof b, "R%d", m); break;
      case RESETMODEL: std::snprintf(b, sizeof b, "X%d", m); break;
      case RESETALL: std::snprintf(b, sizeof b, "Z"); break;
      case SETCAP: std::snprintf(b, sizeof b, "C%d", cap); break;
      case DELETEASSET: std::snprintf(b, sizeof b, "D%d", id); break;
      case SIZE: std::snprintf(b, sizeof b, "S"); break;
      case CAPACITY: std::snprintf(b, sizeof b, "K"); break;
    }
    return b;
  }
};

bool parse_op(const std::string& s, Op* o) {
  if (s.empty()) return false;
  auto dig = [&](size_t i, int lo, int hi, int* out) {
    if (i >= s.size() || s[i] < '0' + lo || s[i] > '0' + hi) return false;
    *out = s[i] - '0';
    return true;
  };
  switch (s[0]) {
    case 'I': o->kind = INSERT; return s.size() == 5 && dig(1, 0, 1, &o->m) && dig(2, 0, 2, &o->id) && dig(3, 1, 3, &o->size) && dig(4, 0, 1, &o->ts);
    case 'P':
      o->kind = POPULATE;
      if (s.size() != 4 || !dig(1, 0, 2, &o->id)) return false;
      if (s[2] == 'n') o->ts = 2; else if (!dig(2, 0, 1, &o->ts)) return false;
      o->accept = s[3] == 'a';
      return s[3] == 'a' || s[3] == 'r';
    case 'H': o->kind = HAS; return s.size() == 2 && dig(1, 0, 2, &o->id);
    case 'R': o->kind = REMOVEMODEL; return s.size() == 2 && dig(1, 0, 1, &o->m);
    case 'X': o->kind = RESETMODEL; return s.size() == 2 && dig(1, 0, 1, &o->m);
    case 'Z': o->kind = RESETALL; return s.size() == 1;
    case 'C': o->kind = SETCAP; return s.size() == 2 && dig(1, 0, 9, &o->cap);
    case 'D': o->kind = DELETEASSET; return s.size() == 2 && dig(1, 0, 2, &o->id);
    case 'S': o->kind = SIZE; return s.size() == 1;
    case 'K': o->kind = CAPACITY; return s.size() == 1;
  }
  return false;
}

bool parse_ops(const std::string& s, std::vector<Op>* out) {
  std::istringstream is(s);
  std::string tok;
  while (std::getline(is, tok, '.')) {
    if (tok.empty()) continue;
    Op o;
    if (!parse_op(tok, &o)) return false;
    out->push_back(o);
  }
  return true;
}

std::vector<Op> sequential_alphabet() {
  std::vector<Op> a;
  for (int m = 0; m < kModels; m++)
    for (int id = 0; id < kIds; id++)
      for (int s = 1; s <= 3; s++)
        for (int t = 0; t < 2; t++) { Op o; o.kind = INSERT; o.m = m; o.id = id; o.size = s; o.ts = t; a.push_back(o); }
  for (int id = 0; id < kIds; id++) {
    for (int t = 0; t < 2; t++)
      for (int acc = 1; acc >= 0; acc--) { Op o; o.kind = POPULATE; o.id = id; o.ts = t; o.accept = acc; a.push_back(o); }
    Op o; o.kind = POPULATE; o.id = id; o.ts = 2; o.accept = true; a.push_back(o);
  }
  for (int id = 0; id < kIds; id++) { Op o; o.kind = HAS; o.id = id; a.push_back(o); }
  for (int m = 0; m < kModels; m++) { Op o; o.kind = REMOVEMODEL; o.m = m; a.push_back(o); }
  for (int m = 0; m < kModels; m++) { Op o; o.kind = RESETMODEL; o.m = m; a.push_back(o); }
  { Op o; o.kind = RESETALL; a.push_back(o); }
  for (int c : {0, 3, 5}) { Op o; o.kind = SETCAP; o.cap = c; a.push_back(o); }
  for (int id = 0; id < kIds; id++) { Op o; o.kind = DELETEASSET; o.id = id; a.push_back(o); }
  return a;
}

// ------------------------------------------------------------------------------------------------ resources
int modified_cb(const mjResource* r, const char* timestamp) { return std::strcmp(r->timestamp, timestamp) ? 1 : 0; }

struct Resources {
  mjpResourceProvider prov;
  mjResource res[3];
  Resources() {
    std::memset(&prov, 0, sizeof prov);
    prov.modified = modified_cb;
    for (int i = 0; i < 3; i++) {
      std::memset(&res[i], 0, sizeof(mjResource));
      std::strcpy(res[i].timestamp, kTs[i == 2 ? 0 : i]);
      res[i].provider = i == 2 ? nullptr : &prov;
    }
  }
};
const Resources& resources() { static Resources r; return r; }

// what one call returned
struct Ret {
  long ret = 0;        // bool / size
  int token = -1;      // POPULATE: token handed to the callback (-1: callback not called)
  int ncalls = 0;      // POPULATE: number of callback invocations
  std::string ts;      // HAS: the timestamp reported
  bool operator==(const Ret& o) const { return ret == o.ret && token == o.token && ncalls == o.ncalls && ts == o.ts; }
  std::string str() const {
    std::ostringstream os;
    os << ret;
    if (ncalls || token >= 0) os << "/tok" << token << "x" << ncalls;
    if (!ts.empty()) os << "/" << ts;
    return os.str();
  }
};

// run one operation on the real cache; `token` identifies the data object of an Insert
Ret apply_real(mjCCache& c, const Op& o, int token, bool deref_has = true) {
  Ret r;
  switch (o.kind) {
    case INSERT: {
      std::shared_ptr<const void> data = std::make_shared<int>(token);
      r.ret = c.Insert(kModelName[o.m], kIdName[o.id], &resources().res[o.ts], data, (std::size_t)o.size) ? 1 : 0;
      break;
    }
    case POPULATE: {
      bool acc = o.accept;
      r.ret = c.PopulateData(kIdName[o.id], &resources().res[o.ts], [&r, acc](const void* p) {
        r.ncalls++;
        r.token = p ? *static_cast<const int*>(p) : -2;
        return acc;
      }) ? 1 : 0;
      break;
    }
    case HAS: {
      const std::string* ts = c.HasAsset(kIdName[o.id]);
      r.ret = ts ? 1 : 0;
      // the returned pointer refers into the cache: it is only dereferenced in single-threaded histories
      if (ts && deref_has) r.ts = *ts;
      break;
    }
    case REMOVEMODEL: c.RemoveModel(kModelName[o.m]); break;
    case RESETMODEL: c.Reset(kModelName[o.m]); break;
    case RESETALL: c.Reset(); break;
    case SETCAP: c.SetCapacity((std::size_t)o.cap); break;
    case DELETEASSET: c.DeleteAsset(kIdName[o.id]); break;
    case SIZE: r.ret = (long)c.Size(); break;
    case CAPACITY: r.ret = (long)c.Capacity(); break;
  }
  return r;
}

// ------------------------------------------------------------------------------------------------ reference model
// A dictionary id -> record, written from the statement and the comments of user_cache.h:
//  * Insert: a new asset is stored iff it fits (Size + size <= capacity; the cache never evicts on Insert); an asset
//    already present gets the model as an additional reference and "its data is updated only if the timestamps disagree"
//    (then timestamp, size and data are replaced, provided the new size fits); access count and insertion order are those of
//    the first insertion.
//  * PopulateData: miss if absent or if the resource is modified w.r.t. the stored timestamp; otherwise the access count is
//    incremented and the callback receives the stored data exactly once; returns what the callback returns.
//  * SetCapacity: "low-priority cached assets will be dropped": evict min (access count, insertion order) while Size > cap.
//  * RemoveModel: "assets only referenced by the model will be deleted".  Reset(model): all assets of the model.  Reset(): all.
struct RefAsset {
  int ts = 0;
  int size = 0;
  int token = -1;
  long access = 0;
  long insnum = 0;
  std::set<int> refs;
};

struct Ref {
  long cap = 0;
  long counter = 0;
  std::map<int, RefAsset> a;   // by id

  long Size() const { long s = 0; for (auto& kv : a) s += kv.second.size; return s; }

  // impl_ret: what the implementation returned; consulted ONLY where the documentation leaves the result open
  // (re-insertion with an unchanged timestamp whose nominal size would not fit).  *open reports that case.
  Ret apply(const Op& o, int token, long impl_ret, bool* open = nullptr) {
    Ret r;
    if (open) *open = false;
    switch (o.kind) {
      case INSERT: {
        auto it = a.find(o.id);
        if (it == a.end()) {
          if (Size() + o.size > cap) { r.ret = 0; break; }
          RefAsset x; x.ts = o.ts; x.size = o.size; x.token = token; x.insnum = counter++; x.refs.insert(o.m);
          a[o.id] = x;
          r.ret = 1;
          break;
        }
        RefAsset& x = it->second;
        bool fits = Size() - x.size + o.size <= cap;
        if (x.ts == o.ts) {
          // nothing to update; the data / size offered are ignored.  If the offered size would not fit, a refusal is
          // tolerated (undocumented), but then nothing may change.
          if (!fits) { if (open) *open = true; if (!impl_ret) { r.ret = 0; break; } }
          x.refs.insert(o.m);
          r.ret = 1;
          break;
        }
        if (!fits) { r.ret = 0; break; }
        x.refs.insert(o.m);
        x.ts = o.ts; x.size = o.size; x.token = token;
        r.ret = 1;
        break;
      }
      case POPULATE: {
        auto it = a.find(o.id);
        if (it == a.end()) { r.ret = 0; break; }
        bool modified = (o.ts == 2) || (o.ts != it->second.ts);
        if (modified) { r.ret = 0; break; }
        it->second.access++;
        r.ncalls = 1;
        r.token = it->second.token;
        r.ret = o.accept ? 1 : 0;
        break;
      }
      case HAS: {
        auto it = a.find(o.id);
        if (it != a.end()) { r.ret = 1; r.ts = kTs[it->second.ts]; }
        break;
      }
      case REMOVEMODEL:
        // every stored asset has >= 1 reference, so an asset that does not reference the model keeps a non-empty set
        for (auto it = a.begin(); it != a.end();) {
          it->second.refs.erase(o.m);
          if (it->second.refs.empty()) it = a.erase(it); else ++it;
        }
        break;
      case RESETMODEL:
        for (auto it = a.begin(); it != a.end();) {
          if (it->second.refs.count(o.m)) it = a.erase(it); else ++it;
        }
        break;
      case RESETALL: a.clear(); counter = 0; break;
      case SETCAP:
        cap = o.cap;
        while (Size() > cap) {
          auto victim = a.end();
          for (auto it = a.begin(); it != a.end(); ++it) {
            if (victim == a.end() || it->second.access < victim->second.access ||
                (it->second.access == victim->second.access && it->second.insnum < victim->second.insnum)) victim = it;
          }
          a.erase(victim);
        }
        break;
      case DELETEASSET: a.erase(o.id); break;
      case SIZE: r.ret = Size(); break;
      case CAPACITY: r.ret = cap; break;
    }
    return r;
  }
};

// ------------------------------------------------------------------------------------------------ snapshots
struct SnapAsset {
  bool present = false;
  int ts = -1, size = 0, token = -1, refs = 0 /*bitmask*/, insrank = -1;
  long access = 0;
};
struct Snap {
  long cap = 0, size = 0;
  SnapAsset a[kIds];
  std::vector<int> evict;   // ids in eviction order
  std::string str() const {
    std::ostringstream os;
    os << "cap=" << cap << " size=" << size;
    for (int i = 0; i < kIds; i++) {
      if (!a[i].present) { os << " [" << i << ":-]"; continue; }
      os << " [" << i << ":ts" << a[i].ts << " sz" << a[i].size << " acc" << a[i].access << " refs" << a[i].refs << " ins#" << a[i].insrank
         << " tok" << a[i].token << "]";
    }
    os << " evict=";
    for (int id : evict) os << id;
    return os.str();
  }
};

Snap snap_ref(const Ref& r) {
  Snap s;
  s.cap = r.cap; s.size = r.Size();
  std::vector<std::pair<long, int>> byins;
  std::vector<std::tuple<long, long, int>> prio;
  for (auto& kv : r.a) {
    SnapAsset& x = s.a[kv.first];
    x.present = true; x.ts = kv.second.ts; x.size = kv.second.size; x.token = kv.second.token; x.access = kv.second.access;
    for (int m : kv.second.refs) x.refs |= 1 << m;
    byins.push_back({kv.second.insnum, kv.first});
    prio.push_back({kv.second.access, kv.second.insnum, kv.first});
  }
  std::sort(byins.begin(), byins.end());
  for (size_t k = 0; k < byins.size(); k++) s.a[byins[k].second].insrank = (int)k;
  std::sort(prio.begin(), prio.end());
  for (auto& p : prio) s.evict.push_back(std::get<2>(p));
  return s;
}

int id_of(const std::string& name) { for (int i = 0; i < kIds; i++) if (name == kIdName[i]) return i; return -1; }
int model_of(const std::string& name) { for (int i = 0; i < kModels; i++) if (name == kModelName[i]) return i; return -1; }

// snapshot of the REAL cache (private members); returns a rule name if an internal-consistency invariant is broken
const char* snap_real(mjCCache& c, Snap* out) {
  Snap s;
  s.cap = (long)c.Capacity();
  s.size = (long)c.Size();
  long sum = 0;
  std::vector<std::pair<std::size_t, int>> byins;
  std::set<const mjCAsset*> live;
  for (auto& kv : c.lookup_) {
    int id = id_of(kv.first);
    if (id < 0 || kv.second.Id() != kv.first) return "lookup key differs from the asset id";
    live.insert(&kv.second);
    SnapAsset& x = s.a[id];
    x.present = true;
    x.ts = kv.second.Timestamp() == kTs[0] ? 0 : kv.second.Timestamp() == kTs[1] ? 1 : 3;
    x.size = (int)kv.second.BytesCount();
    x.token = kv.second.Data() ? *static_cast<const int*>(kv.second.Data()) : -2;
    x.access = (long)kv.second.AccessCount();
    for (auto& m : kv.second.References()) { int mi = model_of(m); if (mi < 0) return "unknown model in references"; x.refs |= 1 << mi; }
    sum += x.size;
    byins.push_back({kv.second.InsertNum(), id});
  }
  std::sort(byins.begin(), byins.end());
  for (size_t k = 0; k < byins.size(); k++) s.a[byins[k].second].insrank = (int)k;
  *out = s;
  for (size_t k = 1; k < byins.size(); k++) if (byins[k].first == byins[k - 1].first) return "two held assets share an insertion number";
  for (int id = 0; id < kIds; id++) if (s.a[id].present && !s.a[id].refs) return "held asset without any model reference";
  if (sum != s.size) return "Size() differs from the sum of the sizes of the held assets";
  if (s.size > s.cap) return "Size() exceeds Capacity()";
  // priority queue: same elements as lookup_, iteration order is the eviction order
  if (c.entries_.size() != c.lookup_.size()) return "priority queue and lookup table hold different numbers of assets";
  const mjCAsset* prev = nullptr;
  for (mjCAsset* p : c.entries_) {
    if (!live.count(p)) return "priority queue holds a pointer to an asset that is not in the lookup table";
    if (prev && !mjCAssetCompare()(prev, p)) return "priority queue is not ordered by (access count, insertion number)";
    prev = p;
    out->evict.push_back(id_of(p->Id()));
  }
  // per-model index: exactly the assets that reference the model (empty sets are equivalent to missing keys)
  for (auto& kv : c.models_) {
    int mi = model_of(kv.first);
    if (mi < 0) { if (!kv.second.empty()) return "model index has an unknown model"; continue; }
    for (mjCAsset* p : kv.second) {
      if (!live.count(p)) return "model index holds a pointer to an asset that is not in the lookup table (dangling)";
      if (!(s.a[id_of(p->Id())].refs & (1 << mi))) return "model index lists an asset that does not reference the model";
    }
  }
  for (int id = 0; id < kIds; id++) {
    if (!s.a[id].present) continue;
    for (int mi = 0; mi < kModels; mi++) {
      if (!(s.a[id].refs & (1 << mi))) continue;
      auto it = c.models_.find(kModelName[mi]);
      bool found = false;
      if (it != c.models_.end()) for (mjCAsset* p : it->second) if (live.count(p) && id_of(p->Id()) == id) found = true;
      if (!found) return "asset references a model whose index does not list it";
    }
  }
  return nullptr;
}

// first difference between the real snapshot and the model's, as a rule name (stable: used as the violation key)
const char* snap_diff(const Snap& real, const Snap& ref) {
  if (real.cap != ref.cap) return "Capacity() differs from the model";
  for (int i = 0; i < kIds; i++) {
    if (real.a[i].present != ref.a[i].present)
      return real.a[i].present ? "asset is held although the model dropped it" : "asset is missing although the model holds it";
  }
  for (int i = 0; i < kIds; i++) {
    if (!real.a[i].present) continue;
    if (real.a[i].ts != ref.a[i].ts) return "stored timestamp differs from the model";
    if (real.a[i].size != ref.a[i].size) return "stored size differs from the model";
    if (real.a[i].token != ref.a[i].token) return "stored data is not the data the model holds (latest update)";
    if (real.a[i].refs != ref.a[i].refs) return "model references differ from the model";
    if (real.a[i].access != ref.a[i].access) return "access count differs from the model";
    if (real.a[i].insrank != ref.a[i].insrank) return "insertion order differs from the model";
  }
  if (real.size != ref.size) return "Size() differs from the model";
  if (real.evict != ref.evict) return "eviction order differs from the model";
  return nullptr;
}

// exact packing of the canonical state (no hashing): capacity + per id (present, ts, size, refs, insertion rank, access)
uint64_t canon(const Snap& s) {
  uint64_t v = (uint64_t)s.cap;    // < 16
  for (int i = 0; i < kIds; i++) {
    uint64_t f = 0;
    const SnapAsset& x = s.a[i];
    if (x.present)
      f = 1 | ((uint64_t)(x.ts & 1) << 1) | ((uint64_t)(x.size & 3) << 2) | ((uint64_t)(x.refs & 3) << 4) | ((uint64_t)(x.insrank & 3) << 6) |
          ((uint64_t)(x.access & 255) << 8);   // access <= depth <= 8
    v = (v << 16) | f;
  }
  return v;
}

#if !defined(C38_SCHED) && !defined(C38_TSAN)
// ------------------------------------------------------------------------------------------------ E2
struct StepResult {
  const char* rule = nullptr;   // violated rule (nullptr: ok)
  std::string detail;
  uint64_t key = 0;
  std::string outcome;
  bool changed = false;
  bool open_case = false;
};

// replay the history on a fresh cache and a fresh model; judge the LAST operation (prefixes were judged as shorter histories)
StepResult run_history(const std::vector<Op>& ops, bool verbose) {
  StepResult out;
  mjCCache cache(5);
  Ref ref;
  ref.cap = 5;
  Snap before;
  for (size_t k = 0; k < ops.size(); k++) {
    bool last = k + 1 == ops.size();
    if (last) snap_real(cache, &before);
    int token = (int)k + 1;
    Ret rr = apply_real(cache, ops[k], token);
    bool open = false;
    Ret mr = ref.apply(ops[k], token, rr.ret, &open);
    if (!last && !verbose) continue;
    Snap s;
    const char* inv = snap_real(cache, &s);
    Snap ms = snap_ref(ref);
    if (verbose) {
      std::printf("%-6s -> impl %-14s model %-14s | impl:  %s%s%s\n%48s model: %s\n", ops[k].str().c_str(), rr.str().c_str(),
                  mr.str().c_str(), s.str().c_str(), inv ? "  INVARIANT: " : "", inv ? inv : "", "|", ms.str().c_str());
    }
    const char* rule = nullptr;
    if (inv) rule = inv;
    else if (!(rr == mr)) {
      switch (ops[k].kind) {
        case INSERT: rule = "Insert returns a value the model does not allow"; break;
        case POPULATE:
          if (rr.ret != mr.ret) rule = "PopulateData hit/miss differs from the model";
          else if (rr.ncalls != mr.ncalls) rule = "PopulateData invokes the callback a wrong number of times";
          else rule = "PopulateData hands out data that is not the latest stored for the asset";
          break;
        case HAS: rule = "HasAsset answer or timestamp differs from the model"; break;
        default: rule = "return value differs from the model"; break;
      }
    } else rule = snap_diff(s, ms);
    if (rule && !out.rule) {
      out.rule = rule;
      out.detail = "after " + ops[k].str() + " (step " + std::to_string(k + 1) + "): returned " + rr.str() + ", model " + mr.str() +
                   "; impl {" + s.str() + "} model {" + ms.str() + "}";
    }
    if (last) {
      out.key = canon(s);
      out.changed = canon(before) != out.key;
      out.open_case = open;
      long dropped = 0;
      for (int i = 0; i < kIds; i++) if (before.a[i].present && !s.a[i].present) dropped++;
      char b[64];
      std::snprintf(b, sizeof b, "%c:ret%ld:calls%d:dropped%ld:dsize%+ld", ops[k].str()[0], rr.ret, rr.ncalls, dropped, s.size - before.size);
      out.outcome = b;
    }
  }
  return out;
}

struct Node { std::array<uint8_t, 8> h; };

struct Local {
  std::vector<std::pair<uint64_t, Node>> kids;
  long transitions = 0, changed = 0, open_cases = 0;
  std::set<std::string> outcomes;
  std::map<std::string, std::pair<std::string, std::string>> failures;
};

int cmd_bfs(int depth, int nthreads, long cap_states) {
  if (depth > 8) depth = 8;
  const std::vector<Op> alpha = sequential_alphabet();
  const int A = (int)alpha.size();
  std::unordered_set<uint64_t> seen;
  { mjCCache c(5); Snap s; snap_real(c, &s); seen.insert(canon(s)); }
  std::vector<Node> frontier(1);
  frontier[0].h.fill(0);
  long transitions = 0, changed = 0, open_cases = 0;
  std::set<std::string> outcomes;
  std::map<std::string, std::pair<std::string, std::string>> failures;   // rule -> (history, detail), first (shortest) only
  std::vector<long> per_depth;
  bool capped = false;
  std::vector<std::string> samples;
  for (int d = 1; d <= depth && !frontier.empty(); d++) {
    int nt = std::max(1, std::min<int>(nthreads, (int)frontier.size()));
    std::vector<Local> loc(nt);
    auto work = [&](int t) {
      size_t lo = frontier.size() * t / nt, hi = frontier.size() * (t + 1) / nt;
      Local& L = loc[t];
      std::unordered_set<uint64_t> mine;
      std::vector<Op> ops;
      for (size_t n = lo; n < hi; n++) {
        for (int oi = 0; oi < A; oi++) {
          ops.clear();
          for (int k = 0; k < d - 1; k++) ops.push_back(alpha[frontier[n].h[k]]);
          ops.push_back(alpha[oi]);
          StepResult r = run_history(ops, false);
          L.transitions++;
          if (r.changed) L.changed++;
          if (r.open_case) L.open_cases++;
          L.outcomes.insert(r.outcome);
          if (r.rule) {
            std::string hs;
            for (auto& o : ops) hs += (hs.empty() ? "" : ".") + o.str();
            if (!L.failures.count(r.rule)) L.failures[r.rule] = {hs, r.detail};
            continue;   // a state reached through a violating transition is not expanded
          }
          if (seen.count(r.key) || !mine.insert(r.key).second) continue;
          Node c = frontier[n];
          c.h[d - 1] = (uint8_t)oi;
          L.kids.push_back({r.key, c});
        }
      }
    };
    std::vector<std::thread> th;
    for (int t = 1; t < nt; t++) th.emplace_back(work, t);
    work(0);
    for (auto& t : th) t.join();
    std::vector<Node> next;
    for (int t = 0; t < nt; t++) {   // merge in frontier order: the representative of a state does not depend on nthreads
      transitions += loc[t].transitions; changed += loc[t].changed; open_cases += loc[t].open_cases;
      outcomes.insert(loc[t].outcomes.begin(), loc[t].outcomes.end());
      for (auto& f : loc[t].failures) if (!failures.count(f.first)) failures[f.first] = f.second;
      for (auto& k : loc[t].kids) if (seen.insert(k.first).second) next.push_back(k.second);
    }
    per_depth.push_back((long)next.size());
    if (!next.empty()) {
      std::string hs;
      const Node& n = next[next.size() / 2];
      for (int k = 0; k < d; k++) hs += (k ? "." : "") + alpha[n.h[k]].str();
      samples.push_back(hs);
    }
    frontier.swap(next);
    if (cap_states > 0 && (long)seen.size() > cap_states && d < depth) { capped = true; break; }
  }
  for (auto& f : failures) std::printf("FAIL\t%s\t%s\t%s\n", f.first.c_str(), f.second.first.c_str(), f.second.second.c_str());
  for (auto& s : samples) std::printf("SAMPLE\t%s\n", s.c_str());
  for (auto& o : outcomes) std::printf("OUTCOME\t%s\n", o.c_str());
  std::printf("PERDEPTH");
  for (long n : per_depth) std::printf(" %ld", n);
  std::printf("\nSTATS states=%zu transitions=%ld changed=%ld open=%ld ops=%d capped=%d\n", seen.size(), transitions, changed, open_cases, A,
              capped ? 1 : 0);
  return failures.empty() ? 0 : 1;
}

int cmd_replay(const std::string& h) {
  std::vector<Op> ops;
  if (!parse_ops(h, &ops)) { std::fprintf(stderr, "bad history\n"); return 2; }
  StepResult r = run_history(ops, true);
  if (r.rule) { std::printf("FAIL\t%s\t%s\t%s\n", r.rule, h.c_str(), r.detail.c_str()); return 1; }
  std::printf("OK\n");
  return 0;
}
#endif  // E2

// ------------------------------------------------------------------------------------------------ concurrent scenarios
struct Scenario {
  std::vector<Op> prefix, t[2];
  std::string text;
};

bool parse_scenario(const std::string& s, Scenario* sc) {
  sc->text = s;
  size_t a = s.find('|'), b = s.rfind('|');
  if (a == std::string::npos || a == b) return false;
  return parse_ops(s.substr(0, a), &sc->prefix) && parse_ops(s.substr(a + 1, b - a - 1), &sc->t[0]) && parse_ops(s.substr(b + 1), &sc->t[1]);
}

// Is there a sequential order of the two threads' operations (respecting each thread's program order) in which the
// reference model returns exactly the recorded values and ends in exactly the observed final state?
bool linearizable(const Ref& start, const Scenario& sc, const std::vector<Ret> got[2], const Snap& final_real, std::string* tried) {
  size_t n0 = sc.t[0].size(), n1 = sc.t[1].size();
  size_t n = n0 + n1;
  // interleavings as bitmasks with n1 ones (thread B) among n positions
  for (unsigned mask = 0; mask < (1u << n); mask++) {
    if ((size_t)__builtin_popcount(mask) != n1) continue;
    Ref r = start;
    size_t i[2] = {0, 0};
    bool ok = true;
    std::string order;
    for (size_t k = 0; k < n && ok; k++) {
      int t = (mask >> k) & 1;
      const Op& o = sc.t[t][i[t]];
      const Ret& want = got[t][i[t]];
      Ret mr = r.apply(o, 100 * (t + 1) + (int)i[t], want.ret);
      if (o.kind == HAS) mr.ts.clear();   // the timestamp pointer is not dereferenced concurrently
      order += (order.empty() ? "" : " ") + std::string(t ? "B:" : "A:") + o.str() + "=" + mr.str();
      if (!(mr == want)) ok = false;
      i[t]++;
    }
    if (ok && !snap_diff(final_real, snap_ref(r))) return true;
    if (tried) *tried += "[" + order + (ok ? " -> final state differs" : " -> return differs") + "] ";
  }
  return false;
}

#if defined(C38_SCHED)
Scenario g_sc;

void body() {
  mjCCache cache(5);
  Ref ref;
  ref.cap = 5;
  for (size_t k = 0; k < g_sc.prefix.size(); k++) {
    Ret rr = apply_real(cache, g_sc.prefix[k], (int)k + 1);
    ref.apply(g_sc.prefix[k], (int)k + 1, rr.ret);
  }
  std::vector<Ret> got[2];
  got[0].resize(g_sc.t[0].size());
  got[1].resize(g_sc.t[1].size());
  auto runner = [&](int t) {
    for (size_t i = 0; i < g_sc.t[t].size(); i++) got[t][i] = apply_real(cache, g_sc.t[t][i], 100 * (t + 1) + (int)i, false);
  };
  vsched::thread t1(runner, 0);
  vsched::thread t2(runner, 1);
  t1.join();
  t2.join();
  for (int t = 0; t < 2; t++)
    for (size_t i = 0; i < got[t].size(); i++) vsched::log_event(g_sc.t[t][i].str().c_str(), got[t][i].ret, got[t][i].token);
  Snap fin;
  const char* inv = snap_real(cache, &fin);
  vsched::log_event("final", (long long)canon(fin), 0);
  if (inv) {
    std::string m = std::string("cache: ") + inv + "; (concurrent) final {" + fin.str() + "}";
    vsched::fail(m.c_str());
  }
  std::string tried;
  if (!linearizable(ref, g_sc, got, fin, &tried)) {
    std::string m = "cache (concurrent): history is not linearizable; observed";
    for (int t = 0; t < 2; t++)
      for (size_t i = 0; i < got[t].size(); i++) m += std::string(t ? " B:" : " A:") + g_sc.t[t][i].str() + "=" + got[t][i].str();
    m += " final {" + fin.str() + "} sequential orders tried: " + tried;
    vsched::fail(m.c_str());
  }
}

int cmd_explore(char** argv) {
  vsched::Options opt;
  opt.max_preemptions = std::atoi(argv[2]);
  opt.max_executions = std::atol(argv[3]);
  opt.shard = std::atoi(argv[4]);
  opt.nshards = std::max(1, std::atoi(argv[5]));
  g_sc = Scenario();
  if (!parse_scenario(argv[6], &g_sc)) { std::fprintf(stderr, "bad scenario %s\n", argv[6]); return 2; }
  vsched::Result r = vsched::explore(body, opt);
  std::printf("SCENARIO\t%s\t%s\n", argv[6], vsched::result_json(r).c_str());
  return r.failures ? 1 : 0;
}
#endif  // E3

#if defined(C38_TSAN)
int cmd_free(int argc, char** argv) {
  int reps = std::atoi(argv[2]);
  long runs = 0, bad = 0;
  for (int a = 3; a < argc; a++) {
    Scenario sc;
    if (!parse_scenario(argv[a], &sc)) return 2;
    for (int rep = 0; rep < reps; rep++) {
      mjCCache cache(5);
      Ref ref;
      ref.cap = 5;
      for (size_t k = 0; k < sc.prefix.size(); k++) {
        Ret rr = apply_real(cache, sc.prefix[k], (int)k + 1);
        ref.apply(sc.prefix[k], (int)k + 1, rr.ret);
      }
      std::vector<Ret> got[2];
      got[0].resize(sc.t[0].size());
      got[1].resize(sc.t[1].size());
      auto runner = [&](int t) {
        for (size_t i = 0; i < sc.t[t].size(); i++) got[t][i] = apply_real(cache, sc.t[t][i], 100 * (t + 1) + (int)i, false);
      };
      std::thread t1(runner, 0), t2(runner, 1);
      t1.join();
      t2.join();
      Snap fin;
      const char* inv = snap_real(cache, &fin);
      runs++;
      if (inv || !linearizable(ref, sc, got, fin, nullptr)) {
        bad++;
        std::printf("FREEFAIL\t%s\t%s\n", argv[a], inv ? inv : "not linearizable");
      }
    }
  }
  std::printf("FREESTATS %ld %ld\n", runs, bad);
  return 0;
}
#endif  // companion

}  // namespace

int main(int argc, char** argv) {
  if (argc < 2) return 2;
  std::string mode = argv[1];
#if defined(C38_SCHED)
  if (mode == "explore" && argc >= 7) return cmd_explore(argv);
  if (mode == "replaysched" && argc >= 3) {
    if (!parse_scenario(argv[2], &g_sc)) return 2;
    vsched::Options opt;
    bool failed = false;
    std::string failure;
    std::string out = vsched::replay(body, opt, argc > 3 ? argv[3] : "", &failed, &failure);
    std::printf("%s\n%s\n", failure.c_str(), out.c_str());
    return failed ? 1 : 0;
  }
#elif defined(C38_TSAN)
  if (mode == "free" && argc >= 4) return cmd_free(argc, argv);
#else
  if (mode == "bfs" && argc >= 4) return cmd_bfs(std::atoi(argv[2]), std::atoi(argv[3]), argc > 4 ? std::atol(argv[4]) : -1);
  if (mode == "replay" && argc >= 3) return cmd_replay(argv[2]);
  if (mode == "alphabet") { for (auto& o : sequential_alphabet()) std::printf("%s\n", o.str().c_str()); return 0; }
#endif
  std::fprintf(stderr, "bad arguments\n");
  return 2;
}
