// Verification double (C26 / C01 / C04): a well-behaved engine plugin with nstate > 0.
//
// No first-party plugin in the tree declares plugin state (mujoco.pid keeps its state in
// mjData.act), so mjSTATE_PLUGIN / mjData.plugin_state would be empty in every model.  This
// passive-force plugin "verif.state" keeps ALL of its state in mjData.plugin_state (its
// plugin_data only holds constants parsed from the config), so that two mjData with the same
// integration state are, by the plugin contract, indistinguishable for the plugin:
//   config nstate=<n> gain=<g>
//   reset   : state[i] = 0.25*(i+1)
//   compute : qfrc_passive[0] += gain * sum_i state[i]              (mjPLUGIN_PASSIVE)
//   advance : state[i] = 0.5*state[i] + dt*(i+1) + 0.125*qvel[0]
// Built as a separate shared object and loaded (RTLD_GLOBAL not needed) after the tree library;
// registration happens through the public mjp_registerPlugin entry point.
#include <cstdlib>
#include <cstring>

#include <mujoco/mujoco.h>

namespace {

struct Cfg {
  int nstate;
  mjtNum gain;
};

int cfg_nstate(const mjModel* m, int instance) {
  const char* v = mj_getPluginConfig(m, instance, "nstate");
  int n = (v && v[0]) ? atoi(v) : 1;
  return n < 0 ? 0 : n;
}

}  // namespace

extern "C" int c26_register_stateplugin(void) {
  static const char* attributes[] = {"nstate", "gain"};
  mjpPlugin plugin;
  mjp_defaultPlugin(&plugin);
  plugin.name = "verif.state";
  plugin.nattribute = 2;
  plugin.attributes = attributes;
  plugin.capabilityflags |= mjPLUGIN_PASSIVE;
  plugin.nstate = +[](const mjModel* m, int instance) { return cfg_nstate(m, instance); };
  plugin.init = +[](const mjModel* m, mjData* d, int instance) {
    Cfg* c = (Cfg*)malloc(sizeof(Cfg));
    if (!c) return -1;
    c->nstate = cfg_nstate(m, instance);
    const char* g = mj_getPluginConfig(m, instance, "gain");
    c->gain = (g && g[0]) ? strtod(g, nullptr) : 0.5;
    d->plugin_data[instance] = (uintptr_t)c;
    return 0;
  };
  plugin.destroy = +[](mjData* d, int instance) {
    free((void*)d->plugin_data[instance]);
    d->plugin_data[instance] = 0;
  };
  plugin.reset = +[](const mjModel* m, mjtNum* plugin_state, void* plugin_data, int instance) {
    const Cfg* c = (const Cfg*)plugin_data;
    for (int i = 0; i < c->nstate; i++) plugin_state[i] = 0.25 * (i + 1);
  };
  plugin.compute = +[](const mjModel* m, mjData* d, int instance, int capability_bit) {
    const Cfg* c = (const Cfg*)d->plugin_data[instance];
    const mjtNum* s = d->plugin_state + m->plugin_stateadr[instance];
    mjtNum sum = 0;
    for (int i = 0; i < c->nstate; i++) sum += s[i];
    if (m->nv) d->qfrc_passive[0] += c->gain * sum;
  };
  plugin.advance = +[](const mjModel* m, mjData* d, int instance) {
    const Cfg* c = (const Cfg*)d->plugin_data[instance];
    mjtNum* s = d->plugin_state + m->plugin_stateadr[instance];
    mjtNum v = m->nv ? d->qvel[0] : 0;
    for (int i = 0; i < c->nstate; i++) s[i] = 0.5 * s[i] + m->opt.timestep * (i + 1) + 0.125 * v;
  };
  return mjp_registerPlugin(&plugin);
}
