// C20: sweep of the arena size.  usage: c20_arena <model.xml> <lo> <hi> <stride> <batch> [nstep]
//   mode "measure":  c20_arena <model.xml> measure  -> prints "M <maxuse_arena> <ncon> <nefc> <nisland> <sizeof mjContact>"
// For every narena in [lo,hi): m->narena = narena; mj_makeData; nstep x mj_step, each compared with the
// same step on an ample-memory mjData started from the same integration state.
#include <dlfcn.h>
#include <fcntl.h>
#include <setjmp.h>
#include <signal.h>
#include <stdint.h>
#include <string.h>
#include <ucontext.h>

#include <string>
#include <vector>

#include <mujoco/mujoco.h>
#include <mujoco/mjxmacro.h>

#include "c2x_common.h"

#ifdef __has_feature
#if __has_feature(address_sanitizer)
#include <sanitizer/asan_interface.h>
#define C20_ASAN 1
#endif
#endif

struct Scn {
  mjModel* mbig;    // ample memory
  mjModel* msmall;  // narena overwritten for the fresh-mjData cross-check points
  mjData* dref;
  mjData* dwork;    // allocated once with capacity cap; d->narena is shrunk in place per point
  size_t cap;
  int nstep;
  long fresh_every; // every fresh_every-th point (and narena 0) uses a freshly allocated mjData of exactly narena bytes
};

// The arena buffer is [arena, arena+narena): arena allocations grow up from arena+parena, the stack grows down from
// arena+narena (engine_memory.c get_stack_info_from_data).  Nothing else depends on the size of the allocation, so a
// smaller d->narena inside a larger allocation gives the same layout as a fresh mjData with m->narena = narena (both
// bases are 64-byte aligned).  The unused tail is poisoned (asan) / filled with a canary (rel) to play the role of the
// heap red zone.
static const unsigned char kCanary = 0xA5;
static void guard_tail(mjData* d, size_t cap) {
#ifdef C20_ASAN
  ASAN_POISON_MEMORY_REGION((char*)d->arena + d->narena, cap - d->narena);
#else
  memset((char*)d->arena + d->narena, kCanary, cap - d->narena);
#endif
}
static long check_tail(const mjData* d, size_t cap) {
#ifndef C20_ASAN
  const unsigned char* p = (const unsigned char*)d->arena;
  for (size_t i = d->narena; i < cap; i++) if (p[i] != kCanary) return (long)i;
#endif
  return -1;
}
static void unguard(mjData* d, size_t cap) {
#ifdef C20_ASAN
  ASAN_UNPOISON_MEMORY_REGION((char*)d->arena, cap);
#endif
}

static volatile unsigned char g_sink;

// read every byte of [p, p+n): under ASan this reports arrays that were never allocated on the arena
static void touch(const void* p, size_t n) {
  const volatile unsigned char* c = (const volatile unsigned char*)p;
  unsigned char s = 0;
  for (size_t i = 0; i < n; i++) s ^= c[i];
  g_sink ^= s;
}

// structural invariants of the arena after a completed step; returns 0 if fine
static int check_arena(const mjModel* m, const mjData* d, long pt, int step, VgxOut& out) {
  int bad = 0;
  uintptr_t a0 = (uintptr_t)d->arena;
  if (d->pstack != 0 || d->pbase != 0) {
    out.violation(pt, "stack not balanced after mj_step", "narena=%ld step %d: pstack=%zu pbase=%zu", pt, step,
                  (size_t)d->pstack, (size_t)d->pbase);
    bad = 1;
  }
  if (d->parena > d->narena) {
    out.violation(pt, "parena > narena", "narena=%ld step %d: parena=%zu", pt, step, (size_t)d->parena);
    return 1;
  }
  if (d->ncon < 0 || d->nefc < 0 || d->nisland < 0 || d->ne < 0 || d->nf < 0 || d->nl < 0) {
    out.violation(pt, "negative size", "narena=%ld step %d ncon=%d nefc=%d nisland=%d", pt, step, d->ncon, d->nefc,
                  d->nisland);
    return 1;
  }
  if ((size_t)d->ncon * sizeof(mjContact) > d->parena || (d->ncon && (void*)d->contact != d->arena)) {
    out.violation(pt, "contact array not inside the allocated arena", "narena=%ld step %d: ncon=%d parena=%zu", pt,
                  step, d->ncon, (size_t)d->parena);
    return 1;
  }
  if (d->ne + d->nf + d->nl > d->nefc) {
    out.violation(pt, "ne+nf+nl > nefc after truncation",
                  "narena=%ld step %d: ne=%d nf=%d nl=%d but nefc=%d (sizes describe rows that do not exist)", pt, step,
                  d->ne, d->nf, d->nl, d->nefc);
    bad = 1;
  }
  // every arena array: NULL, or inside [arena, arena+parena) with its full extent, and readable
#undef MJ_M
#undef MJ_D
#define MJ_M(n) m->n
#define MJ_D(n) d->n
#define X(type, name, nr, nc)                                                                                   \
  {                                                                                                             \
    size_t bytes = sizeof(type) * (size_t)(nr) * (size_t)(nc);                                                  \
    if (d->name && bytes) {                                                                                     \
      uintptr_t p = (uintptr_t)d->name;                                                                         \
      if (p < a0 || p + bytes > a0 + d->parena) {                                                               \
        out.violation(pt, "arena array outside allocated arena: " #name, "narena=%ld step %d: %s offset %ld bytes %zu parena %zu", \
                      pt, step, #name, (long)(p - a0), bytes, (size_t)d->parena);                               \
        bad = 1;                                                                                                \
      } else {                                                                                                  \
        touch(d->name, bytes);                                                                                  \
      }                                                                                                         \
    }                                                                                                           \
  }
  MJDATA_ARENA_POINTERS
#undef X
  // groups that must exist
  if (d->nefc > 0) {
#define X(type, name, nr, nc)                                                                          \
    if (!d->name && (size_t)(nr) * (size_t)(nc) > 0) { \
      out.violation(pt, "nefc>0 but solver array is NULL: " #name, "narena=%ld step %d nefc=%d", pt, step, d->nefc); \
      bad = 1;                                                                                         \
    }
    MJDATA_ARENA_POINTERS_SOLVER
#undef X
  }
  if (d->nisland > 0) {
#define X(type, name, nr, nc)                                                                          \
    if (!d->name && (size_t)(nr) * (size_t)(nc) > 0) {                                                 \
      out.violation(pt, "nisland>0 but island array is NULL: " #name, "narena=%ld step %d nisland=%d", pt, step, d->nisland); \
      bad = 1;                                                                                         \
    }
    MJDATA_ARENA_POINTERS_ISLAND
#undef X
  }
#undef MJ_M
#undef MJ_D
#define MJ_M(n) n
#define MJ_D(n) n
  if (bad) return bad;
  // contents
  for (int i = 0; i < d->ncon; i++) {
    const mjContact* c = d->contact + i;
    if (c->efc_address < -1 || c->efc_address >= d->nefc) {
      out.violation(pt, "contact.efc_address out of range", "narena=%ld step %d contact %d efc_address=%d nefc=%d", pt,
                    step, i, c->efc_address, d->nefc);
      return 1;
    }
    if (!(c->dim == 1 || c->dim == 3 || c->dim == 4 || c->dim == 6) || c->geom[0] < -1 || c->geom[0] >= m->ngeom ||
        c->geom[1] < -1 || c->geom[1] >= m->ngeom) {
      out.violation(pt, "contact has invalid dim/geom", "narena=%ld step %d contact %d dim=%d geom=%d,%d", pt, step, i,
                    c->dim, c->geom[0], c->geom[1]);
      return 1;
    }
  }
  for (int i = 0; i < d->nefc; i++) {
    int t = d->efc_type[i];
    if (t < 0 || t > mjCNSTR_CONTACT_ELLIPTIC) {
      out.violation(pt, "efc_type invalid", "narena=%ld step %d row %d type %d", pt, step, i, t);
      return 1;
    }
    if (mj_isSparse(m)) {
      int nnz = d->efc_J_rownnz[i], adr = d->efc_J_rowadr[i];
      if (nnz < 0 || adr < 0 || adr + nnz > d->nJ) {
        out.violation(pt, "efc_J row outside nJ", "narena=%ld step %d row %d adr %d nnz %d nJ %d", pt, step, i, adr, nnz,
                      d->nJ);
        return 1;
      }
    }
    if (d->nisland > 0) {
      int is = d->efc_island[i];
      if (is < -1 || is >= d->nisland) {
        out.violation(pt, "efc_island out of range", "narena=%ld step %d row %d island %d nisland %d", pt, step, i, is,
                      d->nisland);
        return 1;
      }
    }
  }
  if (d->nisland > 0) {
    long sumnv = 0, sumnefc = 0;
    for (int i = 0; i < d->nisland; i++) {
      if (d->island_nv[i] <= 0 || d->island_idofadr[i] != sumnv || d->island_iefcadr[i] != sumnefc ||
          d->island_nefc[i] <= 0) {
        out.violation(pt, "island bookkeeping inconsistent", "narena=%ld step %d island %d nv %d idofadr %d nefc %d iefcadr %d",
                      pt, step, i, d->island_nv[i], d->island_idofadr[i], d->island_nefc[i], d->island_iefcadr[i]);
        return 1;
      }
      sumnv += d->island_nv[i];
      sumnefc += d->island_nefc[i];
    }
    if (sumnv != d->nidof || sumnefc != d->nefc) {
      out.violation(pt, "island sizes do not add up", "narena=%ld step %d sum nv %ld nidof %d sum nefc %ld nefc %d", pt,
                    step, sumnv, d->nidof, sumnefc, d->nefc);
      return 1;
    }
  }
  return 0;
}

// ---- reference results (ample memory) cached by pre-step integration state
struct RefEntry {
  std::vector<mjtNum> pre, qpos, qvel;
  int ncon, nefc, nisland;
  std::vector<mjContact> con;
};
static std::vector<RefEntry> g_ref;

static const RefEntry* reference(Scn* s, const mjData* d, long narena, VgxOut& out) {
  const mjModel* m = s->mbig;
  int ns = mj_stateSize(m, mjSTATE_INTEGRATION);
  std::vector<mjtNum> pre(ns);
  mj_getState(m, d, pre.data(), mjSTATE_INTEGRATION);
  for (const RefEntry& e : g_ref) {
    if (!memcmp(e.pre.data(), pre.data(), sizeof(mjtNum) * ns)) return &e;
  }
  mjData* dref = s->dref;
  mj_resetData(m, dref);
  mj_setState(m, dref, pre.data(), mjSTATE_INTEGRATION);
  mj_step(m, dref);
  if (dref->warning[mjWARN_CONTACTFULL].number || dref->warning[mjWARN_CNSTRFULL].number) {
    out.violation(narena, "harness: reference run warned", "reference mjData is not ample");
    return nullptr;
  }
  if (g_ref.size() >= 64) g_ref.erase(g_ref.begin() + 1, g_ref.begin() + 33);
  RefEntry e;
  e.pre = pre;
  e.qpos.assign(dref->qpos, dref->qpos + m->nq);
  e.qvel.assign(dref->qvel, dref->qvel + m->nv);
  e.ncon = dref->ncon; e.nefc = dref->nefc; e.nisland = dref->nisland;
  e.con.assign(dref->contact, dref->contact + dref->ncon);
  g_ref.push_back(e);
  return &g_ref.back();
}

// ---- in-process recovery from SIGSEGV etc. (rel variant only; under ASan the sanitizer owns the signal and the
// runner attributes the crash by process exit)
static sigjmp_buf g_env;
static volatile sig_atomic_t g_armed = 0;
static char g_sigdesc[256];
#ifndef C20_ASAN
static void on_signal(int sig, siginfo_t* si, void* uc_) {
  if (!g_armed) { signal(sig, SIG_DFL); raise(sig); return; }
  ucontext_t* uc = (ucontext_t*)uc_;
  void* pc = (void*)uc->uc_mcontext.gregs[REG_RIP];
  Dl_info info;
  if (dladdr(pc, &info) && info.dli_fbase) {
    const char* base = strrchr(info.dli_fname, '/');
    snprintf(g_sigdesc, sizeof(g_sigdesc), "signal %d addr %p at %s+0x%lx %s", sig, si->si_addr,
             base ? base + 1 : info.dli_fname, (unsigned long)((char*)pc - (char*)info.dli_fbase),
             info.dli_sname ? info.dli_sname : "");
  } else {
    snprintf(g_sigdesc, sizeof(g_sigdesc), "signal %d addr %p at pc %p", sig, si->si_addr, pc);
  }
  g_armed = 0;
  siglongjmp(g_env, 1);
}
#endif
#ifdef C20_ASAN
extern "C" void __sanitizer_set_death_callback(void (*cb)(void));
static mjData* g_dwork = nullptr;
static void on_death() {
  // state of the work data at the time of the report (lets the check tell root causes apart)
  if (g_dwork) {
    char b[200];
    int n = snprintf(b, sizeof(b), "VGXSTATE ne=%d nf=%d nl=%d nefc=%d ncon=%d nisland=%d\n", g_dwork->ne, g_dwork->nf,
                     g_dwork->nl, g_dwork->nefc, g_dwork->ncon, g_dwork->nisland);
    if (write(2, b, n)) {}
  }
}
#endif
static void install_signals() {
#ifdef C20_ASAN
  __sanitizer_set_death_callback(on_death);
#endif
#ifndef C20_ASAN
  static char altstack[1 << 16];
  stack_t ss;
  ss.ss_sp = altstack; ss.ss_size = sizeof(altstack); ss.ss_flags = 0;
  sigaltstack(&ss, nullptr);
  struct sigaction sa;
  memset(&sa, 0, sizeof(sa));
  sa.sa_sigaction = on_signal;
  sa.sa_flags = SA_SIGINFO | SA_ONSTACK | SA_NODEFER;
  sigaction(SIGSEGV, &sa, nullptr);
  sigaction(SIGBUS, &sa, nullptr);
  sigaction(SIGFPE, &sa, nullptr);
  sigaction(SIGILL, &sa, nullptr);
#endif
}

static bool legit_error(const char* msg) {
  return strstr(msg, "mj_stackAlloc: out of memory, stack overflow") || strstr(msg, "could not allocate mjData arena") ||
         strstr(msg, "arena too small to allocate geom pair") || strstr(msg, "arena overflow in implicit effective metric");
}

static std::string run_point(long narena, VgxOut& out, Scn* s, bool fresh, bool report, bool* nontriv_out);

static void point(long narena, VgxOut& out, void* user) {
  Scn* s = (Scn*)user;
  bool nontriv = false;
  std::string cls;
  g_armed = 1;
  if (sigsetjmp(g_env, 1) == 0) {
    cls = run_point(narena, out, s, narena == 0, true, &nontriv);
    g_armed = 0;
  } else {
    // a signal was raised inside the engine: report, re-initialise the work data
    std::string key = std::string("signal inside mj_step: ") + g_sigdesc;
    size_t a = key.find(" addr ");
    size_t b = key.find(" at ");
    std::string k2 = (a != std::string::npos && b != std::string::npos) ? key.substr(0, a) + key.substr(b) : key;
    k2 += (s->dwork->ne + s->dwork->nf + s->dwork->nl > s->dwork->nefc) ? " [ne+nf+nl>nefc]" : "";
    out.violation(narena, k2.c_str(), "narena=%ld: %s; ne=%d nf=%d nl=%d nefc=%d ncon=%d", narena, g_sigdesc, s->dwork->ne,
                  s->dwork->nf, s->dwork->nl, s->dwork->nefc, s->dwork->ncon);
    out.outcome(narena, "SIGNAL " + k2, true);
    unguard(s->dwork, s->cap);
    s->dwork->narena = s->cap;
    s->dwork->pstack = s->dwork->pbase = 0;
    mj_resetData(s->mbig, s->dwork);
    return;
  }
  if (narena != 0 && s->fresh_every > 0 && narena % s->fresh_every == 0) {
    bool nt2 = false;
    std::string cls2 = run_point(narena, out, s, true, false, &nt2);
    if (cls2 != cls) {
      out.violation(narena, "harness: in-place shrink and fresh mjData disagree", "narena=%ld in-place '%s' fresh '%s'",
                    narena, cls.c_str(), cls2.c_str());
    }
    out.outcome(narena, "(fresh-mjData cross-check)", false);
  }
  out.outcome(narena, cls, nontriv);
}

static std::string run_point(long narena, VgxOut& out, Scn* s, bool fresh, bool report, bool* nontriv_out) {
  mjModel* m = s->msmall;
  mjData* d = nullptr;
  if (fresh) {
    m->narena = (mjtSize)narena;
    try {
      d = mj_makeData(m);
    } catch (VgError& e) {
      if (!legit_error(e.msg)) out.violation(narena, (std::string("unexpected error in mj_makeData: ") + vgx_msgclass(e.msg)).c_str(), "%s", e.msg);
      *nontriv_out = true;
      return std::string("makeData error: ") + vgx_msgclass(e.msg);
    }
    if (!d) { *nontriv_out = true; return "makeData NULL"; }
  } else {
    m = s->mbig;
    d = s->dwork;
    unguard(d, s->cap);
    d->narena = (size_t)narena;
    mj_resetData(m, d);
    guard_tail(d, s->cap);
  }
  std::string cls;
  bool nontriv = false;
  for (int step = 0; step < s->nstep; step++) {
    // reference: same integration state, ample memory
    const RefEntry* dref = reference(s, d, narena, out);
    if (!dref) break;
    int w0c = d->warning[mjWARN_CONTACTFULL].number, w0e = d->warning[mjWARN_CNSTRFULL].number;
    bool err = false;
    try {
      mj_step(m, d);
    } catch (VgError& e) {
      err = true;
      std::string mc = vgx_msgclass(e.msg);
      if (!legit_error(e.msg)) {
        out.violation(narena, ("unexpected mju_error under arena exhaustion: " + mc).c_str(), "narena=%ld step %d: %s", narena, step, e.msg);
      }
      cls += "E[" + mc.substr(0, 60) + "]";
      nontriv = true;
    }
    if (err) {
      // a caught error leaves the stack marked; recovery is a reset.  A further step must not crash.
      if (!fresh) guard_tail(d, s->cap);
      try {
        mj_resetData(m, d);
        mj_step(m, d);
        if (check_arena(m, d, narena, 100 + step, out)) {}
      } catch (VgError& e) {
        if (!legit_error(e.msg)) {
          out.violation(narena, ("unexpected mju_error after reset: " + vgx_msgclass(e.msg)).c_str(), "narena=%ld: %s", narena, e.msg);
        }
        try { mj_resetData(m, d); } catch (VgError&) {}
      }
      break;
    }
    int dwc = d->warning[mjWARN_CONTACTFULL].number - w0c, dwe = d->warning[mjWARN_CNSTRFULL].number - w0e;
    if (check_arena(m, d, narena, step, out)) { cls += "X"; break; }
    bool same = d->ncon == dref->ncon && d->nefc == dref->nefc && d->nisland == dref->nisland;
    if (d->ncon < dref->ncon && !dwc) {
      out.violation(narena, "contacts dropped without CONTACTFULL warning",
                    "narena=%ld step %d: ncon %d (ample %d), CONTACTFULL +%d CNSTRFULL +%d", narena, step, d->ncon,
                    dref->ncon, dwc, dwe);
    }
    if (d->ncon == dref->ncon && (d->nefc != dref->nefc || d->nisland != dref->nisland) && !dwe) {
      out.violation(narena, "constraints/islands dropped without CNSTRFULL warning",
                    "narena=%ld step %d: nefc %d (ample %d) nisland %d (ample %d), CONTACTFULL +%d CNSTRFULL +%d", narena,
                    step, d->nefc, dref->nefc, d->nisland, dref->nisland, dwc, dwe);
    }
    if (!same && !dwc && !dwe) {
      out.violation(narena, "constraint set truncated without CONTACTFULL/CNSTRFULL warning",
                    "narena=%ld step %d: ncon %d (ample %d) nefc %d (ample %d) nisland %d (ample %d), no warning", narena,
                    step, d->ncon, dref->ncon, d->nefc, dref->nefc, d->nisland, dref->nisland);
    }
    if (d->ncon > dref->ncon || d->nefc > dref->nefc) {
      out.violation(narena, "more contacts/constraints than with ample memory", "narena=%ld step %d ncon %d/%d nefc %d/%d",
                    narena, step, d->ncon, dref->ncon, d->nefc, dref->nefc);
    }
    // truncated contact list must be a sub-list of the ample one
    {
      int j = 0, okc = 1;
      for (int i = 0; i < d->ncon && okc; i++) {
        const mjContact* c = d->contact + i;
        while (j < dref->ncon && !(dref->con[j].geom[0] == c->geom[0] && dref->con[j].geom[1] == c->geom[1] &&
                                   !memcmp(&dref->con[j].dist, &c->dist, sizeof(mjtNum)) &&
                                   !memcmp(dref->con[j].pos, c->pos, 3 * sizeof(mjtNum)))) j++;
        if (j >= dref->ncon) okc = 0;
        j++;
      }
      if (!okc) {
        out.violation(narena, "truncated contact list is not a sub-list of the full one", "narena=%ld step %d ncon %d/%d",
                      narena, step, d->ncon, dref->ncon);
      }
    }
    if (!dwc && !dwe) {
      // untruncated: result must be bit-identical to the ample run
      if (memcmp(d->qpos, dref->qpos.data(), sizeof(mjtNum) * m->nq) || memcmp(d->qvel, dref->qvel.data(), sizeof(mjtNum) * m->nv)) {
        out.violation(narena, "no warning but state differs from ample-memory run", "narena=%ld step %d", narena, step);
      }
      cls += "ok";
    } else {
      nontriv = true;
      char b[96];
      snprintf(b, sizeof(b), "W[%s%s ncon %s nefc %s]", dwc ? "CONTACTFULL" : "", dwe ? "CNSTRFULL" : "",
               d->ncon == dref->ncon ? "full" : (d->ncon ? "part" : "0"), d->nefc == dref->nefc ? "full" : (d->nefc ? "part" : "0"));
      cls += b;
    }
    cls += step + 1 < s->nstep ? "," : "";
    for (int i = 0; i < m->nq; i++) {
      if (d->qpos[i] != d->qpos[i]) { out.violation(narena, "NaN in qpos after truncated step", "narena=%ld step %d", narena, step); break; }
    }
  }
  // a further step must not crash
  if (cls.find('E') == std::string::npos && cls.find('X') == std::string::npos) {
    try {
      mj_step(m, d);
      check_arena(m, d, narena, 99, out);
    } catch (VgError& e) {
      if (!legit_error(e.msg)) out.violation(narena, ("unexpected mju_error in further step: " + vgx_msgclass(e.msg)).c_str(), "narena=%ld: %s", narena, e.msg);
      try { mj_resetData(m, d); } catch (VgError&) {}
      cls += "+E";
    }
  }
  if (fresh) {
    try { mj_deleteData(d); } catch (VgError& e) {
      out.violation(narena, "mj_deleteData raised", "narena=%ld: %s", narena, e.msg);
    }
  } else {
    long bad = check_tail(d, s->cap);
    if (bad >= 0) out.violation(narena, "write beyond the end of the arena", "narena=%ld: byte at offset %ld modified", narena, bad);
    if (d->pstack || d->pbase) { try { mj_resetData(m, d); } catch (VgError&) {} }
  }
  *nontriv_out = nontriv;
  return cls;
}

int main(int argc, char** argv) {
  if (argc < 3) { fprintf(stderr, "usage\n"); return 2; }
  vg_install_handlers();
  char err[1000] = "";
  mjModel* m = nullptr;
  try {
    m = mj_loadXML(argv[1], nullptr, err, sizeof(err));
  } catch (VgError& e) { fprintf(stderr, "load error %s\n", e.msg); return 2; }
  if (!m) { fprintf(stderr, "load failed: %s\n", err); return 2; }
  int nstep = argc > 6 ? atoi(argv[6]) : 2;
  if (!strcmp(argv[2], "measure")) {
    mjData* d = nullptr;
    size_t mx = 0; int ncon = 0, nefc = 0, nisl = 0;
    for (mjtSize na = 1 << 20; na <= (mjtSize)1 << 28; na *= 4) {
      m->narena = na;
      d = mj_makeData(m);
      ncon = nefc = nisl = 0;
      bool ok = true;
      try {
        for (int i = 0; i < nstep + 1; i++) {
          mj_step(m, d);
          if ((int)d->ncon > ncon) ncon = d->ncon;
          if ((int)d->nefc > nefc) nefc = d->nefc;
          if ((int)d->nisland > nisl) nisl = d->nisland;
        }
      } catch (VgError&) { ok = false; mj_resetData(m, d); }
      if (ok && !d->warning[mjWARN_CONTACTFULL].number && !d->warning[mjWARN_CNSTRFULL].number &&
          4 * d->maxuse_arena < (size_t)na) break;
      mj_deleteData(d);
      d = nullptr;
    }
    if (!d) { fprintf(stderr, "measure failed\n"); return 2; }
    mx = d->maxuse_arena;
    printf("M %zu %d %d %d %zu %lld %d\n", mx, ncon, nefc, nisl, sizeof(mjContact), (long long)m->narena,
           d->warning[mjWARN_CONTACTFULL].number + d->warning[mjWARN_CNSTRFULL].number);
    return 0;
  }
  // explicit range:  <xml> <lo> <hi> <stride> <batch> [nstep fresh_every crash_stride]
  // automatic range: <xml> auto <shard> <nshards> <stride> [nstep fresh_every crash_stride]
  //   measures N = maxuse_arena, grows top = N + pad until the last 64 sizes are fault-free, sweeps shard/nshards of [0, top)
  bool autom = !strcmp(argv[2], "auto");
  long lo = 0, hi = 0, stride = atol(argv[autom ? 5 : 4]), batch = autom ? 1024 : atol(argv[5]);
  size_t N = 0;
  if (autom) {
    mjModel* mm = mj_copyModel(nullptr, m);
    mjData* d = nullptr;
    for (mjtSize na = 1 << 20; na <= (mjtSize)1 << 28; na *= 4) {
      mm->narena = na;
      d = mj_makeData(mm);
      bool ok = true;
      try { for (int i = 0; i < nstep + 1; i++) mj_step(mm, d); } catch (VgError&) { ok = false; mj_resetData(mm, d); }
      if (ok && !d->warning[mjWARN_CONTACTFULL].number && !d->warning[mjWARN_CNSTRFULL].number &&
          4 * d->maxuse_arena < (size_t)na) break;
      mj_deleteData(d);
      d = nullptr;
    }
    if (!d) { fprintf(stderr, "measure failed\n"); return 2; }
    N = d->maxuse_arena;
    mj_deleteData(d);
    mj_deleteModel(mm);
    hi = (long)N + (1 << 16);   // capacity; the real top is found below
  } else {
    lo = atol(argv[2]); hi = atol(argv[3]);
  }
  Scn s;
  m->narena = (mjtSize)(3 * (size_t)hi + (1 << 16));   // ample but modest (a 14 MB arena makes ASan re-poisoning slow)
  s.mbig = m;
  s.msmall = mj_copyModel(nullptr, m);
  s.dref = mj_makeData(m);
  s.cap = (size_t)hi + 4096;
  s.msmall->narena = (mjtSize)s.cap;
  s.dwork = mj_makeData(s.msmall);
#ifdef C20_ASAN
  g_dwork = s.dwork;
#endif
  s.nstep = nstep;
  s.fresh_every = argc > 7 ? atol(argv[7]) : 251;
  vgx_crash_stride = argc > 8 ? atol(argv[8]) : 1;
  install_signals();
  if (autom) {
    long top = (long)N + 256;
    std::string want;
    for (int i = 0; i < nstep; i++) want += i ? ",ok" : "ok";
    long fe = s.fresh_every;
    s.fresh_every = 0;
    bool found = false;
    for (; top <= hi; top += 1024) {
      // in a child: a crash here must not take the driver down
      fflush(stdout);
      pid_t pid = fork();
      if (pid == 0) {
        int fd = open("/dev/null", O_WRONLY);
        dup2(fd, 2);
        VgxOut o;
        o.f = fopen("/dev/null", "w");
        bool allok = true;
        for (long x = top - 64; x < top && allok; x++) {
          point(x, o, &s);
          allok = o.viol.empty() && o.hist.size() == 1 && o.hist.begin()->first == want;
        }
        _exit(allok ? 0 : 1);
      }
      int status = 0;
      while (waitpid(pid, &status, 0) < 0 && errno == EINTR) {}
      if (WIFEXITED(status) && WEXITSTATUS(status) == 0) { found = true; break; }
    }
    if (!found) {
      top = hi;
      printf("V 0 1 0 no fault-free arena size found|no 64 consecutive fault-free sizes up to maxuse_arena + 65536 = %ld\n", hi);
    }
    s.fresh_every = fe;
    g_ref.clear();
    long shard = atol(argv[3]), nshards = atol(argv[4]);
    long npts = (top + stride - 1) / stride;
    long a = npts * shard / nshards, b = npts * (shard + 1) / nshards;
    lo = a * stride; hi = b * stride;
    if (hi > top) hi = top;
    printf("T %zu %ld %ld %ld\n", N, top, lo, hi);
  }
  return vgx_run(lo, hi, stride, batch, point, &s);
}
