// C20: sweep of the arena size.  usage: c20_arena <model.xml> <lo> <hi> <stride> <batch> [nstep]
//   mode "measure":  c20_arena <model.xml> measure  -> prints "M <maxuse_arena> <ncon> <nefc> <nisland> <sizeof mjContact>"
//   modes "auto" / "stages" / "both" / "stagept": see main()
// For every narena in [lo,hi): m->narena = narena; mj_makeData; nstep x mj_step, each compared with the
// same step on an ample-memory mjData started from the same integration state.  Staged fault points (second fault
// dimension, see tick_cb / stage_table): memory is ample up to a stage boundary of the first step and narena after it.
#include <dlfcn.h>
#include <fcntl.h>
#include <setjmp.h>
#include <signal.h>
#include <stdint.h>
#include <string.h>
#include <ucontext.h>

#include <string>
#include <vector>

#include <mujoco/mujoco.h>
#include <mujoco/mjxmacro.h>

#include "c2x_common.h"

#ifdef __has_feature
#if __has_feature(address_sanitizer)
#include <sanitizer/asan_interface.h>
#define C20_ASAN 1
#endif
#endif

struct Scn {
  mjModel* mbig;    // ample memory
  mjModel* msmall;  // narena overwritten for the fresh-mjData cross-check points
  mjData* dref;
  mjData* dwork;    // allocated once with capacity cap; d->narena is shrunk in place per point
  size_t cap;
  int nstep;
  long fresh_every; // every fresh_every-th point (and narena 0) uses a freshly allocated mjData of exactly narena bytes
  // staged sweep (empty = plain sweep: the point is narena)
  struct Stage { long tick, base, n, off; size_t p, q, hidden; };   // point off+i  <->  (tick, narena = base + i*stride)
  std::vector<Stage> stages;
  long stride = 1;
};

// The arena buffer is [arena, arena+narena): arena allocations grow up from arena+parena, the stack grows down from
// arena+narena (engine_memory.c get_stack_info_from_data).  Nothing else depends on the size of the allocation, so a
// smaller d->narena inside a larger allocation gives the same layout as a fresh mjData with m->narena = narena (both
// bases are 64-byte aligned).  The unused tail is poisoned (asan) / filled with a canary (rel) to play the role of the
// heap red zone.
static const unsigned char kCanary = 0xA5;
static void guard_tail(mjData* d, size_t cap) {
#ifdef C20_ASAN
  ASAN_POISON_MEMORY_REGION((char*)d->arena + d->narena, cap - d->narena);
#else
  memset((char*)d->arena + d->narena, kCanary, cap - d->narena);
#endif
}
static long check_tail(const mjData* d, size_t cap) {
#ifndef C20_ASAN
  const unsigned char* p = (const unsigned char*)d->arena;
  for (size_t i = d->narena; i < cap; i++) if (p[i] != kCanary) return (long)i;
#endif
  return -1;
}
static void unguard(mjData* d, size_t cap) {
#ifdef C20_ASAN
  ASAN_UNPOISON_MEMORY_REGION((char*)d->arena, cap);
#endif
}

// ---- second fault dimension: the stage boundary at which the memory runs out.
// A transient stack peak of an early stage (collision scratch, Jacobian scratch of the instantiate functions, ...)
// hides the failure window of every later allocation whose own need is smaller: with one fixed narena that later
// allocation can only fail at sizes at which the step never gets that far.  MuJoCo calls the user timer callback
// mjcb_time at its stage boundaries (TM_START / TM_RESTART / TM_END in mj_step, mj_forward, mj_fwdPosition,
// mj_collision, ...); at those calls that happen with an empty stack (pstack = pbase = 0) the arena is
// [0, parena) = finished arrays, so the end of the arena can be moved to any s >= parena without touching anything
// that is in use.  A staged fault point (k, s) runs mj_step with ample memory up to the k-th timer call of the step and
// with narena = s from there on (and for the following steps).  The state at the boundary is exactly the state of a
// run with narena = s in which the earlier stages fitted; later stages must handle their own failed allocations
// whatever the earlier stages needed.
static const long kStagedBase = 1L << 40;   // point ids of staged fault points start here
struct Tick { int usable; size_t parena, peak; };   // peak = max(stack + parena) between this call and the next one
static mjData* g_tick_d = nullptr;      // data the callback acts on (the callback has no argument)
static int g_tick_mode = 0;             // 0 idle, 1 record, 2 shrink at call number g_tick_target
static long g_tick_count = 0, g_tick_target = -1;
static size_t g_tick_size = 0, g_tick_cap = 0;
static int g_tick_fired = 0;
static std::vector<Tick> g_ticks;
static mjtNum tick_cb(void) {
  mjData* d = g_tick_d;
  if (!d || !g_tick_mode) return 0;
  if (g_tick_mode == 1) {
    if (!g_ticks.empty()) g_ticks.back().peak = d->maxuse_arena;
    g_ticks.push_back(Tick{d->pstack == 0 && d->pbase == 0, d->parena, 0});
    d->maxuse_arena = 0;   // statistics field, written only by the allocators
  } else if (g_tick_mode == 2) {
    if (g_tick_count == g_tick_target) {
      if (d->pstack == 0 && d->pbase == 0 && d->parena <= g_tick_size && g_tick_size <= g_tick_cap) {
        d->narena = g_tick_size;
        guard_tail(d, g_tick_cap);
        g_tick_fired = 1;
      }
      g_tick_mode = 0;
    }
  }
  g_tick_count++;
  return 0;
}

static volatile unsigned char g_sink;

// read every byte of [p, p+n): under ASan this reports arrays that were never allocated on the arena
static void touch(const void* p, size_t n) {
  const volatile unsigned char* c = (const volatile unsigned char*)p;
  unsigned char s = 0;
  for (size_t i = 0; i < n; i++) s ^= c[i];
  g_sink ^= s;
}

// structural invariants of the arena after a completed step; returns 0 if fine
static int check_arena(const mjModel* m, const mjData* d, long pt, int step, VgxOut& out) {
  int bad = 0;
  uintptr_t a0 = (uintptr_t)d->arena;
  if (d->pstack != 0 || d->pbase != 0) {
    out.violation(pt, "stack not balanced after mj_step", "narena=%ld step %d: pstack=%zu pbase=%zu", (long)d->narena, step,
                  (size_t)d->pstack, (size_t)d->pbase);
    bad = 1;
  }
  if (d->parena > d->narena) {
    out.violation(pt, "parena > narena", "narena=%ld step %d: parena=%zu", (long)d->narena, step, (size_t)d->parena);
    return 1;
  }
  if (d->ncon < 0 || d->nefc < 0 || d->nisland < 0 || d->ne < 0 || d->nf < 0 || d->nl < 0) {
    out.violation(pt, "negative size", "narena=%ld step %d ncon=%d nefc=%d nisland=%d", (long)d->narena, step, d->ncon, d->nefc,
                  d->nisland);
    return 1;
  }
  if ((size_t)d->ncon * sizeof(mjContact) > d->parena || (d->ncon && (void*)d->contact != d->arena)) {
    out.violation(pt, "contact array not inside the allocated arena", "narena=%ld step %d: ncon=%d parena=%zu", (long)d->narena,
                  step, d->ncon, (size_t)d->parena);
    return 1;
  }
  if (d->ne + d->nf + d->nl > d->nefc) {
    out.violation(pt, "ne+nf+nl > nefc after truncation",
                  "narena=%ld step %d: ne=%d nf=%d nl=%d but nefc=%d (sizes describe rows that do not exist)", (long)d->narena, step,
                  d->ne, d->nf, d->nl, d->nefc);
    bad = 1;
  }
  // every arena array: NULL, or inside [arena, arena+parena) with its full extent, and readable
#undef MJ_M
#undef MJ_D
#define MJ_M(n) m->n
#define MJ_D(n) d->n
#define X(type, name, nr, nc)                                                                                   \
  {                                                                                                             \
    size_t bytes = sizeof(type) * (size_t)(nr) * (size_t)(nc);                                                  \
    if (d->name && bytes) {                                                                                     \
      uintptr_t p = (uintptr_t)d->name;                                                                         \
      if (p < a0 || p + bytes > a0 + d->parena) {                                                               \
        out.violation(pt, "arena array outside allocated arena: " #name, "narena=%ld step %d: %s offset %ld bytes %zu parena %zu", \
                      (long)d->narena, step, #name, (long)(p - a0), bytes, (size_t)d->parena);                               \
        bad = 1;                                                                                                \
      } else {                                                                                                  \
        touch(d->name, bytes);                                                                                  \
      }                                                                                                         \
    }                                                                                                           \
  }
  MJDATA_ARENA_POINTERS
#undef X
  // groups that must exist
  if (d->nefc > 0) {
#define X(type, name, nr, nc)                                                                          \
    if (!d->name && (size_t)(nr) * (size_t)(nc) > 0) { \
      out.violation(pt, "nefc>0 but solver array is NULL: " #name, "narena=%ld step %d nefc=%d", (long)d->narena, step, d->nefc); \
      bad = 1;                                                                                         \
    }
    MJDATA_ARENA_POINTERS_SOLVER
#undef X
  }
  if (d->nisland > 0) {
#define X(type, name, nr, nc)                                                                          \
    if (!d->name && (size_t)(nr) * (size_t)(nc) > 0) {                                                 \
      out.violation(pt, "nisland>0 but island array is NULL: " #name, "narena=%ld step %d nisland=%d", (long)d->narena, step, d->nisland); \
      bad = 1;                                                                                         \
    }
    MJDATA_ARENA_POINTERS_ISLAND
#undef X
  }
#undef MJ_M
#undef MJ_D
#define MJ_M(n) n
#define MJ_D(n) n
  if (bad) return bad;
  // contents
  for (int i = 0; i < d->ncon; i++) {
    const mjContact* c = d->contact + i;
    if (c->efc_address < -1 || c->efc_address >= d->nefc) {
      out.violation(pt, "contact.efc_address out of range", "narena=%ld step %d contact %d efc_address=%d nefc=%d", (long)d->narena,
                    step, i, c->efc_address, d->nefc);
      return 1;
    }
    if (!(c->dim == 1 || c->dim == 3 || c->dim == 4 || c->dim == 6) || c->geom[0] < -1 || c->geom[0] >= m->ngeom ||
        c->geom[1] < -1 || c->geom[1] >= m->ngeom) {
      out.violation(pt, "contact has invalid dim/geom", "narena=%ld step %d contact %d dim=%d geom=%d,%d", (long)d->narena, step, i,
                    c->dim, c->geom[0], c->geom[1]);
      return 1;
    }
  }
  for (int i = 0; i < d->nefc; i++) {
    int t = d->efc_type[i];
    if (t < 0 || t > mjCNSTR_CONTACT_ELLIPTIC) {
      out.violation(pt, "efc_type invalid", "narena=%ld step %d row %d type %d", (long)d->narena, step, i, t);
      return 1;
    }
    if (mj_isSparse(m)) {
      int nnz = d->efc_J_rownnz[i], adr = d->efc_J_rowadr[i];
      if (nnz < 0 || adr < 0 || adr + nnz > d->nJ) {
        out.violation(pt, "efc_J row outside nJ", "narena=%ld step %d row %d adr %d nnz %d nJ %d", (long)d->narena, step, i, adr, nnz,
                      d->nJ);
        return 1;
      }
    }
    if (d->nisland > 0) {
      int is = d->efc_island[i];
      if (is < -1 || is >= d->nisland) {
        out.violation(pt, "efc_island out of range", "narena=%ld step %d row %d island %d nisland %d", (long)d->narena, step, i, is,
                      d->nisland);
        return 1;
      }
    }
  }
  if (d->nisland > 0) {
    long sumnv = 0, sumnefc = 0;
    for (int i = 0; i < d->nisland; i++) {
      if (d->island_nv[i] <= 0 || d->island_idofadr[i] != sumnv || d->island_iefcadr[i] != sumnefc ||
          d->island_nefc[i] <= 0) {
        out.violation(pt, "island bookkeeping inconsistent", "narena=%ld step %d island %d nv %d idofadr %d nefc %d iefcadr %d",
                      (long)d->narena, step, i, d->island_nv[i], d->island_idofadr[i], d->island_nefc[i], d->island_iefcadr[i]);
        return 1;
      }
      sumnv += d->island_nv[i];
      sumnefc += d->island_nefc[i];
    }
    if (sumnv != d->nidof || sumnefc != d->nefc) {
      out.violation(pt, "island sizes do not add up", "narena=%ld step %d sum nv %ld nidof %d sum nefc %ld nefc %d", (long)d->narena,
                    step, sumnv, d->nidof, sumnefc, d->nefc);
      return 1;
    }
  }
  return 0;
}

// ---- reference results (ample memory) cached by pre-step integration state
struct RefEntry {
  std::vector<mjtNum> pre, qpos, qvel;
  int ncon, nefc, nisland;
  std::vector<mjContact> con;
};
static std::vector<RefEntry> g_ref;

static const RefEntry* reference(Scn* s, const mjData* d, long narena, VgxOut& out) {
  const mjModel* m = s->mbig;
  int ns = mj_stateSize(m, mjSTATE_INTEGRATION);
  std::vector<mjtNum> pre(ns);
  mj_getState(m, d, pre.data(), mjSTATE_INTEGRATION);
  for (const RefEntry& e : g_ref) {
    if (!memcmp(e.pre.data(), pre.data(), sizeof(mjtNum) * ns)) return &e;
  }
  mjData* dref = s->dref;
  mj_resetData(m, dref);
  mj_setState(m, dref, pre.data(), mjSTATE_INTEGRATION);
  mj_step(m, dref);
  if (dref->warning[mjWARN_CONTACTFULL].number || dref->warning[mjWARN_CNSTRFULL].number) {
    out.violation(narena, "harness: reference run warned", "reference mjData is not ample");
    return nullptr;
  }
  if (g_ref.size() >= 64) g_ref.erase(g_ref.begin() + 1, g_ref.begin() + 33);
  RefEntry e;
  e.pre = pre;
  e.qpos.assign(dref->qpos, dref->qpos + m->nq);
  e.qvel.assign(dref->qvel, dref->qvel + m->nv);
  e.ncon = dref->ncon; e.nefc = dref->nefc; e.nisland = dref->nisland;
  e.con.assign(dref->contact, dref->contact + dref->ncon);
  g_ref.push_back(e);
  return &g_ref.back();
}

// ---- in-process recovery from SIGSEGV etc. (rel variant only; under ASan the sanitizer owns the signal and the
// runner attributes the crash by process exit)
static sigjmp_buf g_env;
static volatile sig_atomic_t g_armed = 0;
static char g_sigdesc[256];
#ifndef C20_ASAN
static void on_signal(int sig, siginfo_t* si, void* uc_) {
  if (!g_armed) { signal(sig, SIG_DFL); raise(sig); return; }
  ucontext_t* uc = (ucontext_t*)uc_;
  void* pc = (void*)uc->uc_mcontext.gregs[REG_RIP];
  Dl_info info;
  if (dladdr(pc, &info) && info.dli_fbase) {
    const char* base = strrchr(info.dli_fname, '/');
    snprintf(g_sigdesc, sizeof(g_sigdesc), "signal %d addr %p at %s+0x%lx %s", sig, si->si_addr,
             base ? base + 1 : info.dli_fname, (unsigned long)((char*)pc - (char*)info.dli_fbase),
             info.dli_sname ? info.dli_sname : "");
  } else {
    snprintf(g_sigdesc, sizeof(g_sigdesc), "signal %d addr %p at pc %p", sig, si->si_addr, pc);
  }
  g_armed = 0;
  siglongjmp(g_env, 1);
}
#endif
#ifdef C20_ASAN
extern "C" void __sanitizer_set_death_callback(void (*cb)(void));
static mjData* g_dwork = nullptr;
static void on_death() {
  // state of the work data at the time of the report (lets the check tell root causes apart)
  if (g_dwork) {
    char b[200];
    int n = snprintf(b, sizeof(b), "VGXSTATE ne=%d nf=%d nl=%d nefc=%d ncon=%d nisland=%d\n", g_dwork->ne, g_dwork->nf,
                     g_dwork->nl, g_dwork->nefc, g_dwork->ncon, g_dwork->nisland);
    if (write(2, b, n)) {}
  }
}
#endif
static void install_signals() {
#ifdef C20_ASAN
  __sanitizer_set_death_callback(on_death);
#endif
#ifndef C20_ASAN
  static char altstack[1 << 16];
  stack_t ss;
  ss.ss_sp = altstack; ss.ss_size = sizeof(altstack); ss.ss_flags = 0;
  sigaltstack(&ss, nullptr);
  struct sigaction sa;
  memset(&sa, 0, sizeof(sa));
  sa.sa_sigaction = on_signal;
  sa.sa_flags = SA_SIGINFO | SA_ONSTACK | SA_NODEFER;
  sigaction(SIGSEGV, &sa, nullptr);
  sigaction(SIGBUS, &sa, nullptr);
  sigaction(SIGFPE, &sa, nullptr);
  sigaction(SIGILL, &sa, nullptr);
#endif
}

static bool legit_error(const char* msg) {
  return strstr(msg, "mj_stackAlloc: out of memory, stack overflow") || strstr(msg, "could not allocate mjData arena") ||
         strstr(msg, "arena too small to allocate geom pair") || strstr(msg, "arena overflow in implicit effective metric");
}

static std::string run_point(long pt, long narena, long tick, VgxOut& out, Scn* s, bool fresh, bool report, bool* nontriv_out);

static void point(long pt, VgxOut& out, void* user) {
  Scn* s = (Scn*)user;
  // plain sweep: the point is narena, memory is short from the start.  staged sweep: point -> (timer call, narena)
  long narena = pt, tick = -1;
  if (pt >= kStagedBase) {
    const Scn::Stage* st = nullptr;
    long idx = pt - kStagedBase;
    for (const Scn::Stage& c : s->stages) if (idx >= c.off && idx < c.off + c.n) st = &c;
    if (!st) { out.violation(pt, "harness: staged point outside the table", "point %ld", idx); return; }
    narena = st->base + (idx - st->off) * s->stride;
    tick = st->tick;
  }
  bool nontriv = false;
  std::string cls;
  g_armed = 1;
  if (sigsetjmp(g_env, 1) == 0) {
    cls = run_point(pt, narena, tick, out, s, tick < 0 && narena == 0, true, &nontriv);
    g_armed = 0;
  } else {
    // a signal was raised inside the engine: report, re-initialise the work data
    g_tick_mode = 0;
    std::string key = std::string("signal inside mj_step: ") + g_sigdesc;
    size_t a = key.find(" addr ");
    size_t b = key.find(" at ");
    std::string k2 = (a != std::string::npos && b != std::string::npos) ? key.substr(0, a) + key.substr(b) : key;
    k2 += (s->dwork->ne + s->dwork->nf + s->dwork->nl > s->dwork->nefc) ? " [ne+nf+nl>nefc]" : "";
    out.violation(pt, k2.c_str(), "narena=%ld%s: %s; ne=%d nf=%d nl=%d nefc=%d ncon=%d", narena,
                  tick >= 0 ? (" from timer call " + std::to_string(tick) + " of the first step on").c_str() : "", g_sigdesc,
                  s->dwork->ne, s->dwork->nf, s->dwork->nl, s->dwork->nefc, s->dwork->ncon);
    out.outcome(pt, (tick >= 0 ? "@SIGNAL " : "SIGNAL ") + k2, true);
    unguard(s->dwork, s->cap);
    s->dwork->narena = s->cap;
    s->dwork->pstack = s->dwork->pbase = 0;
    mj_resetData(s->mbig, s->dwork);
    return;
  }
  if (tick < 0 && narena != 0 && s->fresh_every > 0 && narena % s->fresh_every == 0) {
    bool nt2 = false;
    std::string cls2 = run_point(pt, narena, -1, out, s, true, false, &nt2);
    if (cls2 != cls) {
      out.violation(pt, "harness: in-place shrink and fresh mjData disagree", "narena=%ld in-place '%s' fresh '%s'",
                    narena, cls.c_str(), cls2.c_str());
    }
    out.outcome(pt, "(fresh-mjData cross-check)", false);
  }
  out.outcome(pt, tick >= 0 ? "@" + cls : cls, nontriv);
}

static std::string run_point(long pt, long narena, long tick, VgxOut& out, Scn* s, bool fresh, bool report, bool* nontriv_out) {
  mjModel* m = s->msmall;
  mjData* d = nullptr;
  if (fresh) {
    m->narena = (mjtSize)narena;
    try {
      d = mj_makeData(m);
    } catch (VgError& e) {
      if (!legit_error(e.msg)) out.violation(pt, (std::string("unexpected error in mj_makeData: ") + vgx_msgclass(e.msg)).c_str(), "%s", e.msg);
      *nontriv_out = true;
      return std::string("makeData error: ") + vgx_msgclass(e.msg);
    }
    if (!d) { *nontriv_out = true; return "makeData NULL"; }
  } else {
    m = s->mbig;
    d = s->dwork;
    unguard(d, s->cap);
    d->narena = tick >= 0 ? s->cap : (size_t)narena;   // staged: ample until timer call `tick` of the first step
    mj_resetData(m, d);
    guard_tail(d, s->cap);
  }
  std::string cls;
  bool nontriv = false;
  for (int step = 0; step < s->nstep; step++) {
    // reference: same integration state, ample memory
    const RefEntry* dref = reference(s, d, pt, out);
    if (!dref) break;
    int w0c = d->warning[mjWARN_CONTACTFULL].number, w0e = d->warning[mjWARN_CNSTRFULL].number;
    bool err = false;
    if (tick >= 0 && step == 0) {
      g_tick_d = d; g_tick_count = 0; g_tick_target = tick; g_tick_size = (size_t)narena; g_tick_cap = s->cap;
      g_tick_fired = 0; g_tick_mode = 2;
    }
    try {
      mj_step(m, d);
      g_tick_mode = 0;
    } catch (VgError& e) {
      g_tick_mode = 0;
      err = true;
      std::string mc = vgx_msgclass(e.msg);
      if (!legit_error(e.msg)) {
        out.violation(pt, ("unexpected mju_error under arena exhaustion: " + mc).c_str(), "narena=%ld step %d: %s", narena, step, e.msg);
      }
      cls += "E[" + mc.substr(0, 60) + "]";
      nontriv = true;
    }
    if (tick >= 0 && step == 0 && !g_tick_fired) {
      out.violation(pt, "harness: staged fault point did not fire", "timer call %ld narena %ld: parena/stack at the call differ from the recorded run", tick, narena);
      break;
    }
    if (err) {
      // a caught error leaves the stack marked; recovery is a reset.  A further step must not crash.
      if (!fresh) guard_tail(d, s->cap);
      try {
        mj_resetData(m, d);
        mj_step(m, d);
        if (check_arena(m, d, pt, 100 + step, out)) {}
      } catch (VgError& e) {
        if (!legit_error(e.msg)) {
          out.violation(pt, ("unexpected mju_error after reset: " + vgx_msgclass(e.msg)).c_str(), "narena=%ld: %s", narena, e.msg);
        }
        try { mj_resetData(m, d); } catch (VgError&) {}
      }
      break;
    }
    int dwc = d->warning[mjWARN_CONTACTFULL].number - w0c, dwe = d->warning[mjWARN_CNSTRFULL].number - w0e;
    if (check_arena(m, d, pt, step, out)) { cls += "X"; break; }
    bool same = d->ncon == dref->ncon && d->nefc == dref->nefc && d->nisland == dref->nisland;
    if (d->ncon < dref->ncon && !dwc) {
      out.violation(pt, "contacts dropped without CONTACTFULL warning",
                    "narena=%ld step %d: ncon %d (ample %d), CONTACTFULL +%d CNSTRFULL +%d", narena, step, d->ncon,
                    dref->ncon, dwc, dwe);
    }
    if (d->ncon == dref->ncon && (d->nefc != dref->nefc || d->nisland != dref->nisland) && !dwe) {
      out.violation(pt, "constraints/islands dropped without CNSTRFULL warning",
                    "narena=%ld step %d: nefc %d (ample %d) nisland %d (ample %d), CONTACTFULL +%d CNSTRFULL +%d", narena,
                    step, d->nefc, dref->nefc, d->nisland, dref->nisland, dwc, dwe);
    }
    if (!same && !dwc && !dwe) {
      out.violation(pt, "constraint set truncated without CONTACTFULL/CNSTRFULL warning",
                    "narena=%ld step %d: ncon %d (ample %d) nefc %d (ample %d) nisland %d (ample %d), no warning", narena,
                    step, d->ncon, dref->ncon, d->nefc, dref->nefc, d->nisland, dref->nisland);
    }
    if (d->ncon > dref->ncon || d->nefc > dref->nefc) {
      out.violation(pt, "more contacts/constraints than with ample memory", "narena=%ld step %d ncon %d/%d nefc %d/%d",
                    narena, step, d->ncon, dref->ncon, d->nefc, dref->nefc);
    }
    // truncated contact list must be a sub-list of the ample one
    {
      int j = 0, okc = 1;
      for (int i = 0; i < d->ncon && okc; i++) {
        const mjContact* c = d->contact + i;
        while (j < dref->ncon && !(dref->con[j].geom[0] == c->geom[0] && dref->con[j].geom[1] == c->geom[1] &&
                                   !memcmp(&dref->con[j].dist, &c->dist, sizeof(mjtNum)) &&
                                   !memcmp(dref->con[j].pos, c->pos, 3 * sizeof(mjtNum)))) j++;
        if (j >= dref->ncon) okc = 0;
        j++;
      }
      if (!okc) {
        out.violation(pt, "truncated contact list is not a sub-list of the full one", "narena=%ld step %d ncon %d/%d",
                      narena, step, d->ncon, dref->ncon);
      }
    }
    if (!dwc && !dwe) {
      // untruncated: result must be bit-identical to the ample run
      if (memcmp(d->qpos, dref->qpos.data(), sizeof(mjtNum) * m->nq) || memcmp(d->qvel, dref->qvel.data(), sizeof(mjtNum) * m->nv)) {
        out.violation(pt, "no warning but state differs from ample-memory run", "narena=%ld step %d", narena, step);
      }
      cls += "ok";
    } else {
      nontriv = true;
      char b[96];
      snprintf(b, sizeof(b), "W[%s%s ncon %s nefc %s]", dwc ? "CONTACTFULL" : "", dwe ? "CNSTRFULL" : "",
               d->ncon == dref->ncon ? "full" : (d->ncon ? "part" : "0"), d->nefc == dref->nefc ? "full" : (d->nefc ? "part" : "0"));
      cls += b;
    }
    cls += step + 1 < s->nstep ? "," : "";
    for (int i = 0; i < m->nq; i++) {
      if (d->qpos[i] != d->qpos[i]) { out.violation(pt, "NaN in qpos after truncated step", "narena=%ld step %d", narena, step); break; }
    }
  }
  // a further step must not crash
  if (cls.find('E') == std::string::npos && cls.find('X') == std::string::npos) {
    try {
      mj_step(m, d);
      check_arena(m, d, pt, 99, out);
    } catch (VgError& e) {
      if (!legit_error(e.msg)) out.violation(pt, ("unexpected mju_error in further step: " + vgx_msgclass(e.msg)).c_str(), "narena=%ld: %s", narena, e.msg);
      try { mj_resetData(m, d); } catch (VgError&) {}
      cls += "+E";
    }
  }
  if (fresh) {
    try { mj_deleteData(d); } catch (VgError& e) {
      out.violation(pt, "mj_deleteData raised", "narena=%ld: %s", narena, e.msg);
    }
  } else {
    long bad = check_tail(d, s->cap);
    if (bad >= 0) out.violation(pt, "write beyond the end of the arena", "narena=%ld: byte at offset %ld modified", narena, bad);
    if (d->pstack || d->pbase) { try { mj_resetData(m, d); } catch (VgError&) {} }
  }
  *nontriv_out = nontriv;
  return cls;
}

// record the timer calls of the first step (ample memory) and build the staged fault table: one entry per timer call k
// that happens with an empty stack.  q_k = peak of stack + arena from call k up to the next empty-stack call, M_k = peak of
// everything before call k.  For s >= M_k the earlier stages fit, so (k, s) is the plain run with narena = s; the sizes
// that only the staged run reaches are parena_k <= s < M_k (the window hidden behind the earlier transient peak), of
// which those below q_k make the segment fail.  Entry k: s in [parena_k, min(q_k, M_k) + kStagePad); no entry if
// M_k <= parena_k (nothing hidden) or q_k <= parena_k (the segment uses no memory).  The pad covers the dependence of
// stack alignment padding on narena mod 8.
static const long kStagePad = 64;
static std::vector<Scn::Stage> stage_table(const mjModel* m, mjData* d, long stride, long* total, long* ncalls) {
  std::vector<Scn::Stage> tab;
  mjcb_time = tick_cb;
  g_tick_d = d;
  mj_resetData(m, d);
  g_ticks.clear();
  d->maxuse_arena = 0;
  g_tick_mode = 1;
  try { mj_step(m, d); } catch (VgError&) {}
  g_tick_mode = 0;
  if (!g_ticks.empty()) g_ticks.back().peak = d->maxuse_arena;
  long off = 0;
  size_t before = 0;   // M_k
  for (size_t k = 0; k < g_ticks.size(); k++) {
    const Tick& t = g_ticks[k];
    if (t.usable) {
      size_t q = t.peak;
      for (size_t j = k + 1; j < g_ticks.size() && !g_ticks[j].usable; j++) if (g_ticks[j].peak > q) q = g_ticks[j].peak;
      if (q > t.parena && before > t.parena) {
        Scn::Stage st;
        st.tick = (long)k;
        st.p = t.parena; st.q = q; st.hidden = before;
        st.base = ((long)t.parena + stride - 1) / stride * stride;
        long top = (long)(q < before ? q : before) + kStagePad;
        st.n = top > st.base ? (top - st.base + stride - 1) / stride : 0;
        st.off = off;
        off += st.n;
        tab.push_back(st);
      }
    }
    if (t.peak > before) before = t.peak;
  }
  *total = off;
  *ncalls = (long)g_ticks.size();
  mj_resetData(m, d);
  return tab;
}

int main(int argc, char** argv) {
  if (argc < 3) { fprintf(stderr, "usage\n"); return 2; }
  vg_install_handlers();
  char err[1000] = "";
  mjModel* m = nullptr;
  try {
    m = mj_loadXML(argv[1], nullptr, err, sizeof(err));
  } catch (VgError& e) { fprintf(stderr, "load error %s\n", e.msg); return 2; }
  if (!m) { fprintf(stderr, "load failed: %s\n", err); return 2; }
  int nstep = argc > 6 ? atoi(argv[6]) : 2;
  if (!strcmp(argv[2], "measure")) {
    mjData* d = nullptr;
    size_t mx = 0; int ncon = 0, nefc = 0, nisl = 0;
    for (mjtSize na = 1 << 20; na <= (mjtSize)1 << 28; na *= 4) {
      m->narena = na;
      d = mj_makeData(m);
      ncon = nefc = nisl = 0;
      bool ok = true;
      try {
        for (int i = 0; i < nstep + 1; i++) {
          mj_step(m, d);
          if ((int)d->ncon > ncon) ncon = d->ncon;
          if ((int)d->nefc > nefc) nefc = d->nefc;
          if ((int)d->nisland > nisl) nisl = d->nisland;
        }
      } catch (VgError&) { ok = false; mj_resetData(m, d); }
      if (ok && !d->warning[mjWARN_CONTACTFULL].number && !d->warning[mjWARN_CNSTRFULL].number &&
          4 * d->maxuse_arena < (size_t)na) break;
      mj_deleteData(d);
      d = nullptr;
    }
    if (!d) { fprintf(stderr, "measure failed\n"); return 2; }
    mx = d->maxuse_arena;
    int nwarn = d->warning[mjWARN_CONTACTFULL].number + d->warning[mjWARN_CNSTRFULL].number;
    long stotal = 0, ncalls = 0;
    std::vector<Scn::Stage> tab = stage_table(m, d, 1, &stotal, &ncalls);   // staged fault points at stride 1 (bytes)
    printf("M %zu %d %d %d %zu %lld %d %ld %zu %ld\n", mx, ncon, nefc, nisl, sizeof(mjContact), (long long)m->narena, nwarn,
           stotal, tab.size(), ncalls);
    return 0;
  }
  // explicit range:  <xml> <lo> <hi> <stride> <batch> [nstep fresh_every crash_stride]
  // automatic range: <xml> auto <shard> <nshards> <stride> [nstep fresh_every crash_stride]
  //   measures N = maxuse_arena, grows top = N + pad until the last 64 sizes are fault-free, sweeps shard/nshards of [0, top)
  // staged sweep:    <xml> stages <shard> <nshards> <stride> [nstep fresh_every crash_stride]
  //   memory is ample up to a timer call of the first step and narena from there on; the fault points are
  //   (call k, every size parena_k .. min(peak_k, peak of everything before k) + 64) for every call k with an empty stack
  //   (see stage_table; printed as "I G <call> <first point> <first size> <count> <parena> <peak> <peak before>")
  // one staged point:  <xml> stagept <call> <narena> 1 [nstep]
  // both sweeps:     <xml> both <shard> <nshards> <stride> [...]   (automatic range, then the staged points, one process)
  bool staged = !strcmp(argv[2], "stages"), stagept = !strcmp(argv[2], "stagept"), both = !strcmp(argv[2], "both");
  bool autom = !strcmp(argv[2], "auto") || staged || stagept || both;
  long lo = 0, hi = 0, stride = atol(argv[autom ? 5 : 4]), batch = autom ? 1024 : atol(argv[5]);
  if (stride < 1) stride = 1;
  size_t N = 0;
  if (autom) {
    mjModel* mm = mj_copyModel(nullptr, m);
    mjData* d = nullptr;
    for (mjtSize na = 1 << 20; na <= (mjtSize)1 << 28; na *= 4) {
      mm->narena = na;
      d = mj_makeData(mm);
      bool ok = true;
      try { for (int i = 0; i < nstep + 1; i++) mj_step(mm, d); } catch (VgError&) { ok = false; mj_resetData(mm, d); }
      if (ok && !d->warning[mjWARN_CONTACTFULL].number && !d->warning[mjWARN_CNSTRFULL].number &&
          4 * d->maxuse_arena < (size_t)na) break;
      mj_deleteData(d);
      d = nullptr;
    }
    if (!d) { fprintf(stderr, "measure failed\n"); return 2; }
    N = d->maxuse_arena;
    mj_deleteData(d);
    mj_deleteModel(mm);
    hi = (long)N + (1 << 16);   // capacity; the real top is found below
  } else {
    lo = atol(argv[2]); hi = atol(argv[3]);
  }
  Scn s;
  m->narena = (mjtSize)(3 * (size_t)hi + (1 << 16));   // ample but modest (a 14 MB arena makes ASan re-poisoning slow)
  s.mbig = m;
  s.msmall = mj_copyModel(nullptr, m);
  s.dref = mj_makeData(m);
  s.cap = (size_t)hi + 4096;
  s.msmall->narena = (mjtSize)s.cap;
  s.dwork = mj_makeData(s.msmall);
#ifdef C20_ASAN
  g_dwork = s.dwork;
#endif
  s.nstep = nstep;
  s.fresh_every = argc > 7 ? atol(argv[7]) : 251;
  vgx_crash_stride = argc > 8 ? atol(argv[8]) : 1;
  install_signals();
  if (autom && !staged && !stagept) {
    long top = (long)N + 256;
    std::string want;
    for (int i = 0; i < nstep; i++) want += i ? ",ok" : "ok";
    long fe = s.fresh_every;
    s.fresh_every = 0;
    bool found = false;
    for (; top <= hi; top += 1024) {
      // in a child: a crash here must not take the driver down
      fflush(stdout);
      pid_t pid = fork();
      if (pid == 0) {
        int fd = open("/dev/null", O_WRONLY);
        dup2(fd, 2);
        VgxOut o;
        o.f = fopen("/dev/null", "w");
        bool allok = true;
        for (long x = top - 64; x < top && allok; x++) {
          point(x, o, &s);
          allok = o.viol.empty() && o.hist.size() == 1 && o.hist.begin()->first == want;
        }
        _exit(allok ? 0 : 1);
      }
      int status = 0;
      while (waitpid(pid, &status, 0) < 0 && errno == EINTR) {}
      if (WIFEXITED(status) && WEXITSTATUS(status) == 0) { found = true; break; }
    }
    if (!found) {
      top = hi;
      printf("V 0 1 0 no fault-free arena size found|no 64 consecutive fault-free sizes up to maxuse_arena + 65536 = %ld\n", hi);
    }
    s.fresh_every = fe;
    g_ref.clear();
    long shard = atol(argv[3]), nshards = atol(argv[4]);
    long npts = (top + stride - 1) / stride;
    long a = npts * shard / nshards, b = npts * (shard + 1) / nshards;
    lo = a * stride; hi = b * stride;
    if (hi > top) hi = top;
    printf("T %zu %ld %ld %ld\n", N, top, lo, hi);
  }
  int rc = 0;
  if (!staged && !stagept) rc = vgx_run(lo, hi, stride, batch, point, &s);
  if (both || staged || stagept) {
    // staged fault points: same shard number of the staged table; point ids kStagedBase + index, classes prefixed '@'
    long total = 0, ncalls = 0;
    s.stride = stride;
    s.stages = stage_table(s.mbig, s.dwork, stride, &total, &ncalls);
    g_ref.clear();
    if (stagept) {
      Scn::Stage st;
      st.tick = atol(argv[3]); st.base = atol(argv[4]); st.n = 1; st.off = 0; st.p = st.q = st.hidden = 0;
      s.stages.assign(1, st);
      total = 1;
    }
    for (const Scn::Stage& st : s.stages) {
      if (st.n > 0 && (size_t)(st.base + (st.n - 1) * stride) >= s.cap) { fprintf(stderr, "stage table exceeds the capacity\n"); return 2; }
      printf("I G %ld %ld %ld %ld %zu %zu %zu\n", st.tick, st.off, st.base, st.n, st.p, st.q, st.hidden);
    }
    long shard = stagept ? 0 : atol(argv[3]), nshards = stagept ? 1 : atol(argv[4]);
    long lo2 = total * shard / nshards, hi2 = total * (shard + 1) / nshards;
    printf("I S %ld %ld %ld %ld\n", total, lo2, hi2, ncalls);
    if (hi2 > lo2) rc = vgx_run(kStagedBase + lo2, kStagedBase + hi2, 1, batch, point, &s);
  }
  return rc;
}
