// C02 companion (not the deciding step): the same calls free-running on real threads, for the TSan build.
// usage: c02_free <model.xml> <forward|step|inverse|step2> <maxworkers> <repeats>
#include <cstdio>
#include <cstdlib>
#include <fstream>
#include <sstream>
#include <string>

#include <mujoco/mujoco.h>
#include "support.h"

static mjModel* g_m;
static std::string g_call;

static void do_call(mjData* d) {
  if (g_call == "forward") mj_forward(g_m, d);
  else if (g_call == "step") mj_step(g_m, d);
  else if (g_call == "step2") { mj_step(g_m, d); mj_step(g_m, d); }
  else if (g_call == "inverse") mj_inverse(g_m, d);
}

int main(int argc, char** argv) {
  if (argc < 5) return 2;
  std::ifstream f(argv[1]);
  std::stringstream ss; ss << f.rdbuf();
  char err[1000];
  mjSpec* s = mj_parseXMLString(ss.str().c_str(), nullptr, err, sizeof(err));
  if (!s) return 2;
  g_m = mj_compile(s, nullptr);
  if (!g_m) return 2;
  g_call = argv[2];
  int maxw = std::atoi(argv[3]), reps = std::atoi(argv[4]);
  mjData* init = mj_makeData(g_m);
  for (int i = 0; i < g_m->nv; i++) init->qvel[i] = 0.05 * ((i % 3) - 1);
  for (int i = 0; i < g_m->nu; i++) init->ctrl[i] = 0.3 * ((i % 2) ? 1 : -1);
  mj_forward(g_m, init);
  mjData* ref = mj_copyData(nullptr, g_m, init);
  do_call(ref);
  int bad = 0, runs = 0;
  for (int w = 0; w <= maxw; w++) {
    for (int r = 0; r < reps; r++) {
      mjData* d = mj_copyData(nullptr, g_m, init);
      mju_threadpool(d, w);
      do_call(d);
      char name[128] = "";
      runs++;
      if (vg_data_diff(g_m, d, ref, VG_CMP_ALL, name, sizeof(name))) { bad++; std::printf("FREEDIFF workers=%d %s\n", w, name); }
      mj_deleteData(d);
    }
  }
  std::printf("FREESTATS %d %d\n", runs, bad);
  return bad ? 1 : 0;
}
