// C50: sweep of the scene capacity (maxgeom) of mjv_updateScene.
//
//   c50_scene <model.xml> <full|masks> <nstep> list                  -> "O <id> <G1> <G2> <hash> <exact> <name>" per option set
//   c50_scene <model.xml> <full|masks> <nstep> sweep <ids|all> [batch] -> every capacity 0..max(G1,G2)+2 of the option sets
//                                                  ("T <id> <G> <first point> <exact> <name>" maps point numbers back)
//   c50_scene <model.xml> <full|masks> <nstep> point <optset> <maxgeom> -> one point in-process (replay)
//   c50_scene <model.xml> <full|masks> <nstep> dump <optset>          -> the ample scene
// nstep: number of mj_step before the scene is built (0: a fixed non-trivial qpos instead)
//
// A fault point is (option set, maxgeom).  Per point: a fresh mjvScene is made with mjv_defaultScene + mjv_makeScene(m, &scn,
// maxgeom) (scn.geoms has exactly maxgeom elements, allocated with an exact-size allocator so that ASan's red zone starts
// right behind the last element), the geom buffer is filled with a canary, and mjv_updateScene is called twice.  After each
// call:  ngeom <= maxgeom;  ngeom == min(G, maxgeom) and the geoms are field-by-field equal to the first ngeom geoms of the
// ample-capacity scene of the same call number;  scn.status == 1 and exactly one "geom buffer is full" warning  <=>  the
// ample scene of this or the previous call needs more than maxgeom (status is sticky by design: "warning issued");
// no field of a written geom still holds the canary;  mjData's stack pointers are unchanged.
// For option sets flagged "exact" (only geom visualisation) the ample scene is additionally compared with an independent
// model of the documented geom -> mjvGeom mapping (exact_geoms()).
// The ample scene is built twice per child process and must be bit-identical (determinism); its hash is printed so that
// the Python side can compare processes.
#include <math.h>
#include <stdint.h>
#include <stdio.h>
#include <stdlib.h>
#include <string.h>
#include <sys/resource.h>

#include <string>
#include <vector>

#include <mujoco/mujoco.h>

#include "c2x_common.h"

// development aid: an instrumented scratch build of engine_vis_visualize.c (acquireGeom wrapped in a macro that counts
// calls per source line) exports these arrays; "sites" prints them.  Absent (NULL) in the real tree.
extern "C" int c50_site_hits[4000] __attribute__((weak));
extern "C" int c50_site_null[4000] __attribute__((weak));

static const int kAmple = 4096;   // "ample": the largest scene of the stated option sets has < 600 geoms (checked: ngeom < kAmple)
static const unsigned char kCanary = 0xCD;

// ---------------------------------------------------------------------------------------------- allocators
// Set-up allocator (model, data): exact size; returns a valid block for size 0 (mju_malloc(0) would return NULL and
// _resetData then calls memcpy(NULL, ., 0) for stateless plugins, which UBSan's nonnull check reports).
static void* drv_malloc(size_t n) {
  void* p = nullptr;
  if (posix_memalign(&p, 64, n ? n : 1)) return nullptr;
  return p;
}
static void drv_free(void* p) { free(p); }

// Scene allocator (installed after set-up): a bump allocator over one mmap'ed pool with MANUAL AddressSanitizer poisoning.
// Every block is exactly as large as requested and is surrounded by >= 64 poisoned bytes, so one write past
// scn.geoms[maxgeom-1] (or past any other scene buffer) is an ASan report exactly as with the sanitizer's own allocator;
// freed blocks are poisoned (use-after-free).  The pool is rewound when no block is live (between fault points).
// Reason: ASan's own allocator needs milliseconds per 50-kB block here (fresh pages + quarantine), which would dominate
// the sweep; this allocator costs microseconds.  In a build without ASan the poisoning calls are no-ops.
#if defined(__has_feature)
#if __has_feature(address_sanitizer)
#include <sanitizer/asan_interface.h>
#define C50_ASAN 1
#endif
#endif
#ifndef C50_ASAN
#define ASAN_POISON_MEMORY_REGION(a, n) ((void)(a), (void)(n))
#define ASAN_UNPOISON_MEMORY_REGION(a, n) ((void)(a), (void)(n))
#endif
#include <sys/mman.h>
static char* g_pool = nullptr;
static const size_t kPoolSize = (size_t)512 << 20;
static size_t g_pool_off = 0;
static long g_pool_live = 0;
struct PoolBlock { char* p; size_t n; };
static std::vector<PoolBlock> g_pool_blocks;

static void pool_init() {
  g_pool = (char*)mmap(nullptr, kPoolSize, PROT_READ | PROT_WRITE, MAP_PRIVATE | MAP_ANONYMOUS | MAP_NORESERVE, -1, 0);
  if (g_pool == MAP_FAILED) { perror("mmap"); exit(2); }
  g_pool_blocks.reserve(4096);
}
static void* pool_malloc(size_t n) {
  if (!g_pool) return drv_malloc(n);
  if (g_pool_live == 0 && g_pool_off) {      // rewind: everything below g_pool_off is poisoned
    g_pool_off = 0;
    g_pool_blocks.clear();
  }
  size_t body = (n + 63) & ~(size_t)63;
  if (body == 0) body = 64;
  if (g_pool_off + 64 + body + 64 > kPoolSize) return nullptr;
  char* red = g_pool + g_pool_off;
  char* blk = red + 64;
  ASAN_POISON_MEMORY_REGION(red, 64 + body + 64);
  ASAN_UNPOISON_MEMORY_REGION(blk, n);
  g_pool_off += 64 + body;                    // the trailing red zone is the next block's leading one
  g_pool_blocks.push_back(PoolBlock{blk, n});
  g_pool_live++;
  return blk;
}
static void pool_free(void* p) {
  if (!p) return;
  if (!g_pool || (char*)p < g_pool || (char*)p >= g_pool + kPoolSize) { drv_free(p); return; }
  for (size_t i = g_pool_blocks.size(); i-- > 0;) {
    if (g_pool_blocks[i].p == (char*)p) {
      ASAN_POISON_MEMORY_REGION(p, g_pool_blocks[i].n);
      g_pool_blocks[i].p = nullptr;
      g_pool_live--;
      return;
    }
  }
  fprintf(stderr, "c50 pool: free of unknown / already freed block %p\n", p);
  abort();
}

struct OptSet {
  std::string name;
  mjvOption opt;
  mjvPerturb pert;
  int catmask = mjCAT_ALL;
  bool use_pert = true;   // false: pass NULL
  bool exact = false;     // only geoms (+ sites off): compare with exact_geoms()
};

struct Ctx50 {
  mjModel* m;
  mjData* d;
  std::vector<OptSet> sets;
  int selbody = 0;
};

static void groups(mjvOption& o, int val) {
  for (int i = 0; i < mjNGROUP; i++) {
    o.geomgroup[i] = o.sitegroup[i] = o.jointgroup[i] = o.tendongroup[i] = o.actuatorgroup[i] = o.flexgroup[i] =
        o.skingroup[i] = (mjtByte)val;
  }
}

static mjvPerturb make_pert(const Ctx50& c, bool active) {
  mjvPerturb p;
  mjv_defaultPerturb(&p);
  if (c.selbody > 0) {
    p.select = c.selbody;
    p.flexselect = c.m->nflex ? 0 : -1;
    p.skinselect = c.m->nskin ? 0 : -1;
    p.localpos[0] = 0.01; p.localpos[1] = -0.02; p.localpos[2] = 0.03;
    for (int k = 0; k < 3; k++) {
      p.refpos[k] = c.d->xpos[3 * c.selbody + k] + 0.1 * (k + 1);
      p.refselpos[k] = c.d->xpos[3 * c.selbody + k] + 0.05 * (k + 1);
    }
    p.refquat[0] = 0.5; p.refquat[1] = 0.5; p.refquat[2] = -0.5; p.refquat[3] = 0.5;
    if (active) {
      p.active = mjPERT_TRANSLATE | mjPERT_ROTATE;
      p.active2 = mjPERT_TRANSLATE;
    }
  }
  return p;
}

static void build_sets(Ctx50& c, const char* mode) {
  const mjModel* m = c.m;
  mjvOption def;
  mjv_defaultOption(&def);
  mjvPerturb nop;
  mjv_defaultPerturb(&nop);
  char buf[200];
  auto add = [&](const std::string& name, const mjvOption& o, const mjvPerturb& p, int catmask, bool exact, bool use_pert) {
    OptSet s;
    s.name = name; s.opt = o; s.pert = p; s.catmask = catmask; s.exact = exact; s.use_pert = use_pert;
    c.sets.push_back(s);
  };
  // ---- only geom visualisation: every flag off, only the geom groups on
  mjvOption og = def;
  for (int i = 0; i < mjNVISFLAG; i++) og.flags[i] = 0;
  groups(og, 0);
  for (int i = 0; i < mjNGROUP; i++) og.geomgroup[i] = def.geomgroup[i];
  {
    const int extra[][3] = {{-1, -1, -1}, {mjVIS_STATIC, -1, -1}, {mjVIS_STATIC, mjVIS_TEXTURE, -1},
                            {mjVIS_STATIC, mjVIS_TRANSPARENT, -1}, {mjVIS_STATIC, mjVIS_CONVEXHULL, -1},
                            {mjVIS_STATIC, mjVIS_TEXTURE, mjVIS_TRANSPARENT}};
    for (auto& e : extra) {
      mjvOption o = og;
      std::string nm = "geoms-only";
      for (int k = 0; k < 3; k++) if (e[k] >= 0) { o.flags[e[k]] = 1; nm += std::string("+") + mjVISSTRING[e[k]][0]; }
      add(nm, o, nop, mjCAT_ALL, true, false);
    }
    mjvOption o = og;
    o.flags[mjVIS_STATIC] = 1;
    groups(o, 0);
    for (int i = 0; i < mjNGROUP; i++) o.geomgroup[i] = 1;
    add("geoms-only+Static allgroups", o, nop, mjCAT_ALL, true, true);
    add("geoms-only+Static allgroups cat=static", o, nop, mjCAT_STATIC, true, true);
    add("geoms-only+Static allgroups cat=dynamic", o, nop, mjCAT_DYNAMIC, true, true);
    add("geoms-only+Static allgroups selected", o, make_pert(c, false), mjCAT_ALL, true, true);
  }
  if (!strcmp(mode, "masks")) {
    // every geom-group mask
    for (int mask = 0; mask < (1 << mjNGROUP); mask++) {
      mjvOption o = og;
      o.flags[mjVIS_STATIC] = 1;
      o.flags[mjVIS_TEXTURE] = (mask & 1);
      for (int i = 0; i < mjNGROUP; i++) o.geomgroup[i] = (mask >> i) & 1;
      snprintf(buf, sizeof(buf), "geoms-only+Static mask=%02x", mask);
      add(buf, o, nop, mjCAT_ALL, true, true);
    }
    return;
  }
  // ---- each flag alone, and each flag together with Static
  for (int st = 0; st < 2; st++) {
    for (int f = 0; f < mjNVISFLAG; f++) {
      if (st && f == mjVIS_STATIC) continue;
      mjvOption o = def;
      for (int i = 0; i < mjNVISFLAG; i++) o.flags[i] = 0;
      o.flags[f] = 1;
      if (st) o.flags[mjVIS_STATIC] = 1;
      snprintf(buf, sizeof(buf), "flag %s%s", mjVISSTRING[f][0], st ? "+Static" : "");
      add(buf, o, make_pert(c, true), mjCAT_ALL, false, true);
    }
  }
  add("default flags", def, nop, mjCAT_ALL, false, false);
  add("default flags selected", def, make_pert(c, true), mjCAT_ALL, false, true);
  mjvOption all = def;
  for (int i = 0; i < mjNVISFLAG; i++) all.flags[i] = 1;
  add("all flags", all, nop, mjCAT_ALL, false, true);
  add("all flags selected+perturbed", all, make_pert(c, true), mjCAT_ALL, false, true);
  {
    mjvOption o = all; groups(o, 1);
    add("all flags all groups selected", o, make_pert(c, true), mjCAT_ALL, false, true);
    groups(o, 0);
    add("all flags no groups selected", o, make_pert(c, true), mjCAT_ALL, false, true);
    o = all; o.flags[mjVIS_FLEXSKIN] = 0;
    add("all flags but FlexSkin", o, make_pert(c, true), mjCAT_ALL, false, true);
    o = all; o.flags[mjVIS_CONTACTSPLIT] = 0; o.flags[mjVIS_ISLAND] = 0; o.flags[mjVIS_INERTIA] = 0;
    add("all flags but ContactSplit/Island/Inertia", o, make_pert(c, true), mjCAT_ALL, false, true);
  }
  bool thorough = !strcmp(mode, "fullT");
  // frame modes: with the default flags; with all flags (quick: camera / light frames with only that flag + Static)
  for (int fr = 1; fr < mjNFRAME; fr++) {
    mjvOption o = def;
    o.frame = fr;
    snprintf(buf, sizeof(buf), "default flags frame %s", mjFRAMESTRING[fr]);
    add(buf, o, make_pert(c, false), mjCAT_ALL, false, true);
    if (!thorough && (fr == mjFRAME_CAMERA || fr == mjFRAME_LIGHT)) {
      int f = fr == mjFRAME_CAMERA ? mjVIS_CAMERA : mjVIS_LIGHT;
      for (int i = 0; i < mjNVISFLAG; i++) o.flags[i] = (i == f || i == mjVIS_STATIC);
      snprintf(buf, sizeof(buf), "flag %s+Static frame %s", mjVISSTRING[f][0], mjFRAMESTRING[fr]);
    } else {
      o = all;
      o.frame = fr;
      snprintf(buf, sizeof(buf), "all flags frame %s", mjFRAMESTRING[fr]);
    }
    add(buf, o, make_pert(c, true), mjCAT_ALL, false, true);
  }
  // label modes: with the default flags; with the flag that draws the labelled objects; with all flags (quick: only the
  // label modes that add geoms of their own)
  for (int lb = 1; lb < mjNLABEL; lb++) {
    mjvOption o = def;
    o.label = lb;
    snprintf(buf, sizeof(buf), "default flags label %s", mjLABELSTRING[lb]);
    add(buf, o, make_pert(c, true), mjCAT_ALL, false, true);
    if (thorough || lb == mjLABEL_BODY || lb == mjLABEL_SELECTION || lb == mjLABEL_ISLAND) {
      o = all;
      o.label = lb;
      groups(o, 1);
      snprintf(buf, sizeof(buf), "all flags all groups label %s", mjLABELSTRING[lb]);
      add(buf, o, make_pert(c, true), mjCAT_ALL, false, true);
    }
  }
  {
    const int pairs[][2] = {{mjVIS_JOINT, mjLABEL_JOINT}, {mjVIS_CAMERA, mjLABEL_CAMERA}, {mjVIS_LIGHT, mjLABEL_LIGHT},
                            {mjVIS_TENDON, mjLABEL_TENDON}, {mjVIS_ACTUATOR, mjLABEL_ACTUATOR},
                            {mjVIS_CONSTRAINT, mjLABEL_CONSTRAINT}, {mjVIS_FLEXVERT, mjLABEL_FLEX},
                            {mjVIS_SKIN, mjLABEL_SKIN}, {mjVIS_CONTACTPOINT, mjLABEL_CONTACTPOINT},
                            {mjVIS_CONTACTFORCE, mjLABEL_CONTACTFORCE}, {mjVIS_SELECT, mjLABEL_SELPNT},
                            {mjVIS_INERTIA, mjLABEL_BODY}, {mjVIS_INERTIA, mjLABEL_SELECTION}};
    for (auto& pr : pairs) {
      mjvOption o = def;
      for (int i = 0; i < mjNVISFLAG; i++) o.flags[i] = (i == pr[0] || i == mjVIS_STATIC);
      groups(o, 1);
      o.label = pr[1];
      snprintf(buf, sizeof(buf), "flag %s+Static all groups label %s", mjVISSTRING[pr[0]][0], mjLABELSTRING[pr[1]]);
      add(buf, o, make_pert(c, true), mjCAT_ALL, false, true);
    }
  }
  for (int cat = 0; cat < 7; cat++) {
    snprintf(buf, sizeof(buf), "all flags catmask=%d", cat);
    add(buf, all, make_pert(c, true), cat, false, true);
  }
  for (int depth = 0; depth <= 4; depth++) {
    if (depth == 1) continue;
    mjvOption o = all;
    o.bvh_depth = depth;
    o.flex_layer = depth % 2;
    o.flags[mjVIS_FLEXSKIN] = depth >= 3;
    snprintf(buf, sizeof(buf), "all flags bvh_depth=%d flex_layer=%d", depth, o.flex_layer);
    add(buf, o, make_pert(c, false), mjCAT_ALL, false, true);
  }
  (void)m;
}

// ------------------------------------------------------------------------------------------------ state
static void prepare_state(Ctx50& c, int nstep) {
  mjModel* m = c.m;
  mjData* d = c.d;
  if (m->nkey) {
    mju_copy(d->qpos, m->key_qpos, m->nq);
    mju_copy(d->qvel, m->key_qvel, m->nv);
    mju_copy(d->act, m->key_act, m->na);
    mju_copy(d->ctrl, m->key_ctrl, m->nu);
  }
  if (!nstep) {
    // alphabet / group models: a fixed non-trivial configuration
    for (int i = 0; i < m->nq; i++) d->qpos[i] = m->qpos0[i] + 0.37 * ((i % 3) - 1) + 0.11;
    mj_normalizeQuat(m, d->qpos);
  }
  for (int i = 0; i < m->nu; i++) d->ctrl[i] = 0.3 * ((i % 3) - 1) + 0.05;
  for (int i = 0; i < nstep; i++) mj_step(m, d);
  // external force on two bodies
  for (int b = 1; b < m->nbody && b < 4; b += 2) {
    d->xfrc_applied[6 * b + 0] = 1.0 + b;
    d->xfrc_applied[6 * b + 2] = -2.0;
    d->xfrc_applied[6 * b + 4] = 0.5;
  }
  mj_forward(m, d);
  // selected body: the first body that has a dof, a geom and a bounding volume
  c.selbody = 0;
  for (int b = 1; b < m->nbody; b++) {
    if (m->body_dofnum[b] && m->body_geomnum[b]) { c.selbody = b; break; }
  }
}

// ------------------------------------------------------------------------------------------------ comparison
#define GEOM_FIELDS(X)                                                                                                  \
  X(type) X(dataid) X(objtype) X(objid) X(category) X(matid) X(texid) X(texuniform) X(texcoord) X(segid) X(size)        \
  X(pos) X(mat) X(rgba) X(emission) X(specular) X(shininess) X(reflectance) X(texrepeat) X(label) X(camdist)            \
  X(modelrbound) X(transparent)

static const char* first_diff_field(const mjvGeom* a, const mjvGeom* b) {
#define X(f) if (memcmp(&a->f, &b->f, sizeof(a->f))) return #f;
  GEOM_FIELDS(X)
#undef X
  return nullptr;
}

static bool all_canary(const void* p, size_t n) {
  const unsigned char* c = (const unsigned char*)p;
  for (size_t i = 0; i < n; i++) if (c[i] != kCanary) return false;
  return true;
}

// a field of a written geom that still holds the canary was never initialised.  Exempt: label (only the part up to the
// NUL is meaningful) and the renderer-owned fields camdist / transparent ("set internally": mjr_render assigns both before
// reading them; acquireGeom zeroes them, plugin visualisers that fill geoms themselves do not)
static const char* canary_field(const mjvGeom* g) {
#define X(f) if (strcmp(#f, "label") && strcmp(#f, "camdist") && strcmp(#f, "transparent") && all_canary(&g->f, sizeof(g->f))) return #f;
  GEOM_FIELDS(X)
#undef X
  if (g->label[0] == (char)kCanary) return "label";
  return nullptr;
}

static uint64_t fnv(uint64_t h, const void* p, size_t n) {
  const unsigned char* c = (const unsigned char*)p;
  for (size_t i = 0; i < n; i++) { h ^= c[i]; h *= 1099511628211ull; }
  return h;
}

struct Ample {
  std::vector<mjvGeom> g[2];   // geoms after call 1 and call 2
  int status[2];
  long nwarn[2];
  int nlight[2];
  uint64_t hash = 0;
  bool ok = false;
};

static long full_warnings() {
  // number of "geom buffer is full" warnings in the harness log since the last call
  static char log[1 << 16];
  vg_warning_log(log, sizeof(log));
  long n = 0;
  for (const char* p = log; (p = strstr(p, "visual geom buffer is full")); p++) n++;
  return n;
}

static void fresh_scene(const mjModel* m, mjvScene* scn, int maxgeom) {
  mjv_defaultScene(scn);
  mjv_makeScene(m, scn, maxgeom);
  if (scn->geoms && maxgeom > 0) memset(scn->geoms, kCanary, (size_t)maxgeom * sizeof(mjvGeom));
}

static void update(const Ctx50& c, const OptSet& s, mjvCamera* cam, mjvScene* scn) {
  mjv_updateScene(c.m, c.d, &s.opt, s.use_pert ? &s.pert : nullptr, cam, s.catmask, scn);
}

static Ample build_ample(const Ctx50& c, const OptSet& s) {
  Ample a;
  mjvScene scn;
  mjvCamera cam;
  mjv_defaultCamera(&cam);
  fresh_scene(c.m, &scn, kAmple);
  full_warnings();
  uint64_t h = 1469598103934665603ull;
  for (int call = 0; call < 2; call++) {
    update(c, s, &cam, &scn);
    a.g[call].assign(scn.geoms, scn.geoms + scn.ngeom);
    a.status[call] = scn.status;
    a.nwarn[call] = full_warnings();
    a.nlight[call] = scn.nlight;
    h = fnv(h, scn.geoms, (size_t)scn.ngeom * sizeof(mjvGeom));
    h = fnv(h, &scn.ngeom, sizeof(int));
    h = fnv(h, scn.lights, sizeof(mjvLight) * (size_t)scn.nlight);
    h = fnv(h, scn.camera, sizeof(scn.camera));
  }
  a.hash = h;
  a.ok = true;
  mjv_freeScene(&scn);
  return a;
}

// ------------------------------------------------------------------------------------------------ exact geom model
// Independent model of the documented mapping model geom -> mjvGeom (mjvGeom field comments in mjvisualize.h, XML
// reference geom/rgba, geom/material, geom/group, visual/map/alpha; mjvOption.geomgroup; mjtCatBit).
static float f32(mjtNum x) { return (float)x; }

static std::string exact_geoms(const Ctx50& c, const OptSet& s, const std::vector<mjvGeom>& scene, int call) {
  const mjModel* m = c.m;
  const mjData* d = c.d;
  char msg[600];
  int catmask = s.catmask;
  if (!s.opt.flags[mjVIS_STATIC]) catmask &= ~mjCAT_STATIC;
  size_t k = 0;
  int planeid = -1;
  // plugin visualisers (mjpPlugin.visualize) run before the model elements are added and may contribute decor geoms of
  // their own (touch_grid draws its taxels whatever the flags are): a leading run of decor geoms is theirs
  bool has_vis = false;
  for (int i = 0; i < m->nplugin; i++) {
    const mjpPlugin* p = mjp_getPluginAtSlot(m->plugin[i]);
    if (p && p->visualize) has_vis = true;
  }
  if (has_vis) {     // (the hooks are called whatever the category mask is)
    while (k < scene.size() && scene[k].category == mjCAT_DECOR && scene[k].objtype == mjOBJ_UNKNOWN) k++;
  }
  size_t nplug = k;
  for (int i = 0; i < m->ngeom; i++) {
    if (m->geom_type[i] == mjGEOM_PLANE) planeid++;
    int body = m->geom_bodyid[i];
    int category = m->body_weldid[body] == 0 ? mjCAT_STATIC : mjCAT_DYNAMIC;
    if (!(category & catmask)) continue;
    int grp = m->geom_group[i];
    grp = grp < 0 ? 0 : (grp > mjNGROUP - 1 ? mjNGROUP - 1 : grp);
    if (!s.opt.geomgroup[grp]) continue;
    // colour: material colour unless the geom has its own (non-default) rgba
    int matid = m->geom_matid[i];
    const float* grgba = m->geom_rgba + 4 * i;
    bool own = grgba[0] != 0.5f || grgba[1] != 0.5f || grgba[2] != 0.5f || grgba[3] != 1.0f;
    float rgba[4];
    for (int j = 0; j < 4; j++) rgba[j] = (matid >= 0 && !own) ? m->mat_rgba[4 * matid + j] : grgba[j];
    if (s.opt.flags[mjVIS_TRANSPARENT] && category == mjCAT_DYNAMIC) rgba[3] *= m->vis.map.alpha;
    if (rgba[3] == 0) continue;       // invisible geoms are not part of the scene
    if (k >= scene.size()) {
      snprintf(msg, sizeof(msg), "a visible model geom is missing|call %d: model geom %d (%s) is missing from the scene (scene has %zu geoms)", call, i,
               mj_id2name(m, mjOBJ_GEOM, i) ? mj_id2name(m, mjOBJ_GEOM, i) : "?", scene.size());
      return msg;
    }
    const mjvGeom& g = scene[k];
#define EXPECT(cond, what)                                                                                             \
  if (!(cond)) {                                                                                                       \
    snprintf(msg, sizeof(msg), "%s|call %d: scene geom %zu for model geom %d (%s): %s", what, call, k, i,               \
             mj_id2name(m, mjOBJ_GEOM, i) ? mj_id2name(m, mjOBJ_GEOM, i) : "?", what);                                 \
    return msg;                                                                                                        \
  }
    EXPECT(g.objtype == mjOBJ_GEOM && g.objid == i, "objtype/objid");
    EXPECT(g.type == m->geom_type[i], "type");
    EXPECT(g.category == category, "category");
    EXPECT(g.segid == (int)k, "segid");
    const mjtNum* sz = m->geom_size + 3 * i;
    float es[3];
    if (g.type == mjGEOM_SPHERE) { es[0] = es[1] = es[2] = f32(sz[0]); }
    else if (g.type == mjGEOM_CAPSULE || g.type == mjGEOM_CYLINDER) { es[0] = es[1] = f32(sz[0]); es[2] = f32(sz[1]); }
    else { es[0] = f32(sz[0]); es[1] = f32(sz[1]); es[2] = f32(sz[2]); }
    EXPECT(g.size[0] == es[0] && g.size[1] == es[1] && g.size[2] == es[2], "size");
    for (int j = 0; j < 9; j++) EXPECT(g.mat[j] == f32(d->geom_xmat[9 * i + j]), "mat != geom_xmat");
    bool infinite = m->geom_type[i] == mjGEOM_PLANE && (sz[0] <= 0 || sz[1] <= 0);
    if (!infinite) {
      for (int j = 0; j < 3; j++) EXPECT(g.pos[j] == f32(d->geom_xpos[3 * i + j]), "pos != geom_xpos");
    } else {
      // infinite plane: re-centred under the camera, i.e. translated inside the plane along the infinite axes only
      double dp[3], loc[3];
      for (int j = 0; j < 3; j++) dp[j] = (double)g.pos[j] - d->geom_xpos[3 * i + j];
      for (int a = 0; a < 3; a++) {
        loc[a] = 0;
        for (int j = 0; j < 3; j++) loc[a] += d->geom_xmat[9 * i + 3 * j + a] * dp[j];
      }
      double tol = 1e-4 * (1 + fabs(loc[0]) + fabs(loc[1]));
      EXPECT(fabs(loc[2]) <= tol, "infinite plane moved off its plane");
      if (sz[0] > 0) EXPECT(fabs(loc[0]) <= tol, "plane moved along its finite x axis");
      if (sz[1] > 0) EXPECT(fabs(loc[1]) <= tol, "plane moved along its finite y axis");
    }
    for (int j = 0; j < 4; j++) EXPECT(g.rgba[j] == rgba[j], "rgba");
    float emission = matid >= 0 ? m->mat_emission[matid] : 0.0f;
    if (s.use_pert && s.pert.select > 0 && s.pert.select == body) emission += m->vis.global.glow;
    EXPECT(g.emission == emission, "emission");
    EXPECT(g.specular == (matid >= 0 ? m->mat_specular[matid] : 0.5f), "specular");
    EXPECT(g.shininess == (matid >= 0 ? m->mat_shininess[matid] : 0.5f), "shininess");
    EXPECT(g.reflectance == (matid >= 0 ? m->mat_reflectance[matid] : 0.0f), "reflectance");
    bool tex = s.opt.flags[mjVIS_TEXTURE] && matid >= 0;
    EXPECT(g.matid == (tex ? matid : -1), "matid");
    EXPECT(g.texid == (tex ? m->mat_texid[matid * mjNTEXROLE + mjTEXROLE_RGB] : -1), "texid");
    EXPECT(g.texuniform == (tex ? m->mat_texuniform[matid] : 0), "texuniform");
    EXPECT(g.texrepeat[0] == (tex ? m->mat_texrepeat[2 * matid] : 0.0f) &&
           g.texrepeat[1] == (tex ? m->mat_texrepeat[2 * matid + 1] : 0.0f), "texrepeat");
    int dataid = m->geom_dataid[i];
    if (m->geom_type[i] == mjGEOM_MESH || m->geom_type[i] == mjGEOM_SDF) {
      int hull = m->mesh_graphadr[dataid] >= 0 && s.opt.flags[mjVIS_CONVEXHULL] &&
                 (m->geom_contype[i] || m->geom_conaffinity[i]);
      EXPECT(g.dataid == 2 * dataid + hull, "mesh dataid");
      EXPECT(g.texcoord == (m->mesh_texcoordadr[dataid] >= 0 ? 1 : 0), "texcoord");
    } else if (m->geom_type[i] == mjGEOM_PLANE) {
      EXPECT(g.dataid == planeid, "plane dataid");
    } else {
      EXPECT(g.dataid == dataid, "dataid");
    }
    EXPECT(g.modelrbound == f32(m->geom_rbound[i]), "modelrbound");
    EXPECT(g.label[0] == 0, "label");
    k++;
  }
  // sites are off (site groups); slider-crank actuators are always drawn (two connectors each) when dynamic geoms are
  size_t extra = 0;
  if (catmask & mjCAT_DYNAMIC) {
    for (int a = 0; a < m->nactuator; a++) if (m->actuator_trntype[a] == mjTRN_SLIDERCRANK) extra += 2;
  }
  for (size_t j = k; j < scene.size(); j++) {
    if (scene[j].objtype != mjOBJ_ACTUATOR) {
      snprintf(msg, sizeof(msg), "extra geom|call %d: scene geom %zu (objtype %d objid %d type %d) is not a model geom of an "
               "enabled group", call, j, scene[j].objtype, scene[j].objid, scene[j].type);
      return msg;
    }
  }
  if (scene.size() != k + extra) {
    snprintf(msg, sizeof(msg), "geom count|call %d: scene has %zu geoms, expected %zu plugin decor + %zu model geoms + %zu "
             "slider-crank connectors", call, scene.size(), nplug, k - nplug, extra);
    return msg;
  }
  return "";
}

// ------------------------------------------------------------------------------------------------ one fault point
struct Sweep {
  Ctx50* c;
  std::vector<long> base;      // first point id of every swept option set
  std::vector<int> ids;        // swept option sets
  std::vector<uint64_t> hash;  // hash of the ample scene as built by the measuring process (0: unknown)
  // per-child cache
  int cached = -1;
  Ample amp;
};

static void run_point(long point, VgxOut& out, void* user) {
  Sweep* sw = (Sweep*)user;
  Ctx50& c = *sw->c;
  int oi = 0;
  while (oi + 1 < (int)sw->base.size() && sw->base[oi + 1] <= point) oi++;
  int os = sw->ids[oi];
  int maxgeom = (int)(point - sw->base[oi]);
  const OptSet& s = c.sets[os];
  const char* nm = s.name.c_str();
  try {
    if (sw->cached != os) {
      sw->amp = build_ample(c, s);
      Ample b = build_ample(c, s);
      if (sw->amp.hash != b.hash || sw->amp.g[0].size() != b.g[0].size() || sw->amp.g[1].size() != b.g[1].size()) {
        out.violation(point, "two builds of the same scene differ", "[%s] ample scene built twice: %zu/%zu vs %zu/%zu geoms, "
                      "hash %llx vs %llx", nm, sw->amp.g[0].size(), sw->amp.g[1].size(), b.g[0].size(), b.g[1].size(),
                      (unsigned long long)sw->amp.hash, (unsigned long long)b.hash);
      }
      if (sw->hash[oi] && sw->hash[oi] != sw->amp.hash) {
        out.violation(point, "two builds of the same scene differ", "[%s] ample scene built in two processes: hash %llx vs "
                      "%llx", nm, (unsigned long long)sw->hash[oi], (unsigned long long)sw->amp.hash);
      }
      if (sw->amp.status[0] || sw->amp.status[1] || sw->amp.nwarn[0] || sw->amp.nwarn[1]) {
        out.violation(point, "ample scene reports overflow", "[%s] maxgeom=%d status=%d", nm, kAmple, sw->amp.status[1]);
      }
      sw->cached = os;
      if (s.exact) {
        for (int call = 0; call < 2; call++) {
          std::string e = exact_geoms(c, s, sw->amp.g[call], call + 1);
          if (!e.empty()) {
            std::string key = "only-geoms scene differs from the model geoms: " + e.substr(0, e.find('|'));
            out.violation(point, key.c_str(), "[%s] %s", nm, e.substr(e.find('|') + 1).c_str());
          }
        }
      }
    }
    const Ample& A = sw->amp;
    mjvScene scn;
    mjvCamera cam;
    mjv_defaultCamera(&cam);
    fresh_scene(c.m, &scn, maxgeom);
    full_warnings();
    size_t pstack0 = c.d->pstack, pbase0 = c.d->pbase;
    bool over_prev = false;
    bool nontrivial = false;
    std::string cls = "fits";
    for (int call = 0; call < 2; call++) {
      update(c, s, &cam, &scn);
      int G = (int)A.g[call].size();
      bool over = G > maxgeom;
      if (over) { nontrivial = true; cls = "overflow"; }
      long nw = full_warnings();
      if (scn.ngeom < 0 || scn.ngeom > scn.maxgeom || scn.maxgeom != (maxgeom > 0 ? maxgeom : 0)) {
        out.violation(point, "ngeom > maxgeom", "[%s] maxgeom=%d call %d: ngeom=%d scn.maxgeom=%d", nm, maxgeom, call + 1,
                      scn.ngeom, scn.maxgeom);
        break;
      }
      int expect_n = over ? maxgeom : G;
      if (scn.ngeom != expect_n) {
        out.violation(point, "ngeom != min(needed, maxgeom)", "[%s] maxgeom=%d call %d: ngeom=%d, ample scene has %d geoms",
                      nm, maxgeom, call + 1, scn.ngeom, G);
      }
      // status / warning: set <=> this call or an earlier one needed more than maxgeom
      int expect_status = (over || over_prev) ? 1 : 0;
      if (scn.status != expect_status) {
        if (expect_status) {
          out.violation(point, "overflow not reported in scn.status",
                        "[%s] maxgeom=%d call %d: ample scene needs %d geoms but status=%d", nm, maxgeom, call + 1, G,
                        scn.status);
        } else {
          out.violation(point, "spurious overflow: status set although the scene fits",
                        "[%s] maxgeom=%d call %d: the ample scene has exactly %d geoms (all written) but status=%d and "
                        "%ld warning(s) were issued", nm, maxgeom, call + 1, G, scn.status, nw);
        }
      }
      long expect_w = (over && !over_prev) ? 1 : 0;
      if (scn.status == expect_status && nw != expect_w) {
        out.violation(point, "geom-buffer-full warning count", "[%s] maxgeom=%d call %d: %ld warnings, expected %ld", nm,
                      maxgeom, call + 1, nw, expect_w);
      }
      over_prev = over_prev || over;
      // prefix of the ample scene, field by field
      int n = scn.ngeom < G ? scn.ngeom : G;
      for (int i = 0; i < n; i++) {
        const char* f = first_diff_field(scn.geoms + i, &A.g[call][i]);
        if (f) {
          std::string key = std::string("geoms are not a prefix of the ample-capacity scene: field ") + f;
          out.violation(point, key.c_str(), "[%s] maxgeom=%d call %d: geom %d (objtype %d objid %d) differs from the ample "
                        "scene's geom %d (objtype %d objid %d) in field %s", nm, maxgeom, call + 1, i, scn.geoms[i].objtype,
                        scn.geoms[i].objid, i, A.g[call][i].objtype, A.g[call][i].objid, f);
          break;
        }
        const char* cf = canary_field(scn.geoms + i);
        if (cf) {
          std::string key = std::string("written geom has an uninitialised field: ") + cf;
          out.violation(point, key.c_str(), "[%s] maxgeom=%d call %d: geom %d (objtype %d objid %d type %d) field %s still "
                        "holds the canary", nm, maxgeom, call + 1, i, scn.geoms[i].objtype, scn.geoms[i].objid,
                        scn.geoms[i].type, cf);
          break;
        }
      }
      if (scn.nlight != A.nlight[call]) {
        out.violation(point, "lights depend on the geom capacity", "[%s] maxgeom=%d call %d: nlight=%d vs %d", nm, maxgeom,
                      call + 1, scn.nlight, A.nlight[call]);
      }
      if (c.d->pstack != pstack0 || c.d->pbase != pbase0) {
        out.violation(point, "mjv_updateScene leaves mjData's stack unbalanced",
                      "[%s] maxgeom=%d call %d: pstack %zu -> %zu, pbase %zu -> %zu", nm, maxgeom, call + 1, pstack0,
                      (size_t)c.d->pstack, pbase0, (size_t)c.d->pbase);
        c.d->pstack = pstack0;
        c.d->pbase = pbase0;
      }
    }
    mjv_freeScene(&scn);
    out.outcome(point, cls, nontrivial);
  } catch (VgError& e) {
    out.violation(point, "mju_error inside mjv_updateScene", "[%s] maxgeom=%d: %s", nm, maxgeom, e.msg);
    out.outcome(point, "mju_error", true);
  }
}

int main(int argc, char** argv) {
  if (argc < 4) { fprintf(stderr, "usage: c50_scene model.xml mode(full|masks) nstep list|sweep|point ...\n"); return 2; }
  vg_install_handlers();
  mju_user_malloc = drv_malloc;
  mju_user_free = drv_free;
  char err[1000] = "";
  Ctx50 c;
  try {
    // .mjb: compiled by the production-layout build (the XML compiler trips UBSan's nonnull check on
    // memcpy(dst, NULL, 0) for flexes without nodes, user_model.cc CopyObjects; not the code under test here)
    size_t len = strlen(argv[1]);
    if (len > 4 && !strcmp(argv[1] + len - 4, ".mjb")) c.m = mj_loadModel(argv[1], nullptr);
    else c.m = mj_loadXML(argv[1], nullptr, err, sizeof(err));
  } catch (VgError& e) { fprintf(stderr, "load error %s\n", e.msg); return 2; }
  if (!c.m) { fprintf(stderr, "load failed: %s\n", err); return 2; }
  const char* mode = argv[2];
  int nstep = atoi(argv[3]);
  const char* cmd = argc > 4 ? argv[4] : "list";
  try {
    c.d = mj_makeData(c.m);
    prepare_state(c, nstep);
  } catch (VgError& e) { fprintf(stderr, "state error %s\n", e.msg); return 2; }
  build_sets(c, mode);
  pool_init();
  mju_user_malloc = pool_malloc;
  mju_user_free = pool_free;
  if (!strcmp(cmd, "list")) {
    printf("I ncon %d nefc %d nisland %d selbody %d noptset %zu sizeof_mjvGeom %zu\n", (int)c.d->ncon, (int)c.d->nefc,
           (int)c.d->nisland, c.selbody, c.sets.size(), sizeof(mjvGeom));
    for (size_t i = 0; i < c.sets.size(); i++) {
      try {
        Ample a = build_ample(c, c.sets[i]);
        printf("O %zu %zu %zu %llx %d %s\n", i, a.g[0].size(), a.g[1].size(), (unsigned long long)a.hash,
               c.sets[i].exact ? 1 : 0, c.sets[i].name.c_str());
      } catch (VgError& e) {
        printf("E %zu %s | %s\n", i, c.sets[i].name.c_str(), e.msg);
      }
    }
    return 0;
  }
  if (!strcmp(cmd, "sites")) {
    if (!c50_site_hits) { printf("not an instrumented build\n"); return 0; }
    for (size_t i = 0; i < c.sets.size(); i++) {
      Ample a = build_ample(c, c.sets[i]);
      for (int cap = 0; cap <= (int)a.g[0].size(); cap++) {
        mjvScene scn; mjvCamera cam; mjv_defaultCamera(&cam);
        fresh_scene(c.m, &scn, cap);
        update(c, c.sets[i], &cam, &scn);
        mjv_freeScene(&scn);
      }
    }
    for (int l = 0; l < 4000; l++) if (c50_site_hits[l]) printf("SITE %d hits %d null %d\n", l, c50_site_hits[l], c50_site_null[l]);
    return 0;
  }
  if (!strcmp(cmd, "dump") && argc > 5) {
    int os = atoi(argv[5]);
    Ample a = build_ample(c, c.sets[os]);
    for (int call = 0; call < 2; call++) {
      for (size_t i = 0; i < a.g[call].size(); i++) {
        const mjvGeom& g = a.g[call][i];
        printf("D %d %zu type %d objtype %d objid %d cat %d pos %.4f %.4f %.4f size %.4f %.4f %.4f label '%s'\n", call + 1, i,
               g.type, g.objtype, g.objid, g.category, g.pos[0], g.pos[1], g.pos[2], g.size[0], g.size[1], g.size[2], g.label);
      }
    }
    return 0;
  }
  if (!strcmp(cmd, "point") && argc > 6) {
    Sweep sw;
    sw.c = &c;
    sw.ids.push_back(atoi(argv[5]));
    sw.base.push_back(0);
    sw.hash.push_back(0);
    VgxOut out;
    out.f = stdout;
    run_point(atol(argv[6]), out, &sw);
    out.flush();
    return 0;
  }
  if (!strcmp(cmd, "sweep") && argc > 5) {
    // sweep <id,id,...|all> [batch]
    Sweep sw;
    sw.c = &c;
    if (!strcmp(argv[5], "all")) {
      for (size_t i = 0; i < c.sets.size(); i++) sw.ids.push_back((int)i);
    } else {
      for (char* tok = strtok(argv[5], ","); tok; tok = strtok(nullptr, ",")) {
        int id = atoi(tok);
        if (id >= 0 && id < (int)c.sets.size()) sw.ids.push_back(id);
      }
    }
    long batch = argc > 6 ? atol(argv[6]) : 1500;
    // capacities of each option set: measured in ONE child (the parent never runs the code under test after set-up)
    size_t ns = sw.ids.size();
    std::vector<long> meas(2 * ns, -1);
    {
      int pfd[2];
      if (pipe(pfd)) return 2;
      fflush(stdout);
      pid_t pid = fork();
      if (pid == 0) {
        close(pfd[0]);
        for (size_t k = 0; k < ns; k++) {
          long g[2] = {-1, 0};
          try {
            Ample a = build_ample(c, c.sets[sw.ids[k]]);
            g[0] = (long)(a.g[0].size() > a.g[1].size() ? a.g[0].size() : a.g[1].size());
            g[1] = (long)a.hash;
            if (g[0] >= kAmple) g[0] = -3;
          } catch (VgError& e) { g[0] = -2; }
          if (write(pfd[1], g, sizeof(g)) != sizeof(g)) {}
        }
        _exit(0);
      }
      close(pfd[1]);
      size_t got = 0;
      while (got < 2 * ns * sizeof(long)) {
        ssize_t r = read(pfd[0], (char*)meas.data() + got, 2 * ns * sizeof(long) - got);
        if (r <= 0) break;
        got += (size_t)r;
      }
      close(pfd[0]);
      int status = 0;
      waitpid(pid, &status, 0);
    }
    long total = 0;
    for (size_t k = 0; k < ns; k++) {
      int os = sw.ids[k];
      long g = meas[2 * k];
      sw.base.push_back(total);
      if (g < 0) {
        // the ample build itself failed: the sweep of capacities 0..2 below attributes the crash to a point
        printf("I ample-capacity build of option set %d (%s) failed (%ld)\n", os, c.sets[os].name.c_str(), g);
        g = 0;
        meas[2 * k + 1] = 0;
      }
      sw.hash.push_back((uint64_t)meas[2 * k + 1]);
      printf("T %d %ld %ld %d %s\n", os, g, total, c.sets[os].exact ? 1 : 0, c.sets[os].name.c_str());
      total += g + 3;    // capacities 0 .. G+2
    }
    // inside a window of identical crashes (one defect hit at every capacity) probe every 64th capacity only; the
    // skipped points are reported ("S") and the run is then not called exhaustive
    vgx_crash_stride = 64;
    int rc = vgx_run(0, total, 1, batch, run_point, &sw);
    if (getenv("C50_TIMING")) {
      struct rusage a, b;
      getrusage(RUSAGE_SELF, &a);
      getrusage(RUSAGE_CHILDREN, &b);
      fprintf(stderr, "timing: parent user %.2f sys %.2f | children user %.2f sys %.2f | points %ld\n",
              a.ru_utime.tv_sec + 1e-6 * a.ru_utime.tv_usec, a.ru_stime.tv_sec + 1e-6 * a.ru_stime.tv_usec,
              b.ru_utime.tv_sec + 1e-6 * b.ru_utime.tv_usec, b.ru_stime.tv_sec + 1e-6 * b.ru_stime.tv_usec, total);
    }
    return rc;
  }
  fprintf(stderr, "bad command\n");
  return 2;
}
