// C21: every k-th allocation made through mju_malloc fails (single faults and pairs).
//   c21_alloc <scenario 1|2|3> count                      -> "A <number of mju_malloc calls of the fault-free run>"
//   c21_alloc <scenario> single <lo> <hi> <batch>          -> fault points k in [lo,hi)
//   c21_alloc <scenario> pairs <A> <lo> <hi> <batch>       -> pair index p in [lo,hi) enumerates k1<k2<=A (+ the tail k2 in A+1..A+T)
// The allocator installed in mju_user_malloc / mju_user_free numbers the calls, fails the selected ones, keeps a table of
// live blocks with the call stack of their allocation and counts frees of unknown blocks.  A scenario step that fails
// (caught mju_error -> VgError, or NULL / error return) is cleaned up and retried, so the run continues after a fault
// the way a client that catches the error would; at the end everything is deleted and the live table must be empty.
#include <dlfcn.h>
#include <execinfo.h>
#include <string.h>

#include <functional>
#include <map>
#include <mutex>
#include <string>
#include <vector>

#include <mujoco/mujoco.h>

#include "c2x_common.h"

// ------------------------------------------------------------------ allocator
struct Blk { size_t size; long idx; int step; void* bt[16]; int nbt; };
static int g_step = 0;   // index of the scenario step being executed
static std::mutex g_mu;
static std::map<void*, Blk>* g_live;
static long g_count, g_fail[2], g_failed, g_badfree;
static void* g_failbt[2][16];
static int g_nfailbt[2];
static int g_failstep[2];
static void* g_badbt[10];
static int g_nbadbt;
static bool g_track = false;

static void* my_malloc(size_t size) {
  std::lock_guard<std::mutex> lk(g_mu);
  if (!g_track) {
    if (!size) return nullptr;
    size_t sz = (size + 63) & ~(size_t)63;
    return aligned_alloc(64, sz);
  }
  g_count++;
  for (int i = 0; i < 2; i++) {
    if (g_fail[i] == g_count) {
      g_nfailbt[g_failed < 2 ? g_failed : 1] = backtrace(g_failbt[g_failed < 2 ? g_failed : 1], 16);
      g_failstep[g_failed < 2 ? g_failed : 1] = g_step;
      g_failed++;
      return nullptr;
    }
  }
  if (!size) return nullptr;
  size_t sz = (size + 63) & ~(size_t)63;
  void* p = aligned_alloc(64, sz);
  if (p) {
    Blk b;
    b.size = size; b.idx = g_count; b.step = g_step;
    b.nbt = backtrace(b.bt, 16);
    (*g_live)[p] = b;
  }
  return p;
}

static void my_free(void* p) {
  if (!p) return;
  std::lock_guard<std::mutex> lk(g_mu);
  auto it = g_live->find(p);
  if (it == g_live->end()) {
    if (g_track) {
      if (!g_badfree) g_nbadbt = backtrace(g_badbt, 10);
      g_badfree++;
      return;              // do not pass an unknown / already freed block to free()
    }
    free(p);
    return;
  }
  g_live->erase(it);
  free(p);
}

static void alloc_begin(long f1, long f2) {
  std::lock_guard<std::mutex> lk(g_mu);
  if (!g_live) g_live = new std::map<void*, Blk>();
  g_live->clear();
  g_count = 0; g_failed = 0; g_badfree = 0; g_step = 0;
  g_fail[0] = f1; g_fail[1] = f2;
  g_track = true;
}

// "module+0xoff" of the frames of a backtrace that are not in this driver's allocator / libc
static std::string frames(void* const* bt, int n) {
  std::string out;
  int shown = 0;
  for (int i = 0; i < n && shown < 9; i++) {
    Dl_info info;
    if (!dladdr(bt[i], &info) || !info.dli_fname) continue;
    const char* base = strrchr(info.dli_fname, '/');
    base = base ? base + 1 : info.dli_fname;
    if (!strstr(base, "libmujoco")) continue;
    char b[128];
    // return address - 1 lies inside the call instruction
    snprintf(b, sizeof(b), "%s%s+0x%lx", shown ? "<" : "", base, (unsigned long)((char*)bt[i] - (char*)info.dli_fbase - 1));
    out += b;
    shown++;
  }
  return out;
}

// ------------------------------------------------------------------ scenarios
static const char* kXml1 =
    "<mujoco><size memory='100K'/><option timestep='0.002'/><default><geom density='500'/></default>"
    "<worldbody><geom name='floor' type='plane' size='1 1 .1'/><light pos='0 0 2'/><camera name='c' pos='0 -1 1'/>"
    "<body name='a' pos='0 0 .3'><freejoint name='fa'/><geom name='ga' type='box' size='.05 .04 .03'/><site name='sa'/>"
    "<body name='b' pos='.2 0 0'><joint name='jb' type='hinge' axis='0 1 0' limited='true' range='-1 1' damping='.1'/>"
    "<geom name='gb' type='capsule' size='.02' fromto='0 0 0 .2 0 0'/><site name='sb' pos='.2 0 0'/></body></body>"
    "<body name='m' mocap='true' pos='.5 0 .5'><geom type='sphere' size='.02' contype='0' conaffinity='0'/></body></worldbody>"
    "<tendon><spatial name='t'><site site='sa'/><site site='sb'/></spatial></tendon>"
    "<equality><weld body1='a' body2='m' active='false'/></equality>"
    "<actuator><motor name='mb' joint='jb' gear='2'/><position name='pt' tendon='t' kp='3'/><general name='gf' joint='jb' dyntype='filter' dynprm='.1'/></actuator>"
    "<sensor><jointpos joint='jb'/><framepos objtype='site' objname='sb'/><touch site='sa'/></sensor>"
    "<keyframe><key name='k' qpos='0 0 .3 1 0 0 0 .2'/></keyframe>"
    "<custom><numeric name='n' data='1 2 3'/><text name='tx' data='hello'/></custom></mujoco>";

static const char* kXml3 =
    "<mujoco><size memory='100K'/><extension><plugin plugin='verif.stateful'><instance name='pid1'><config key='gain' value='4'/>"
    "</instance></plugin></extension>"
    "<asset><mesh name='tet' vertex='0 0 0  .1 0 0  0 .1 0  0 0 .1  .1 .1 .1' />"
    "<texture name='tx' type='2d' builtin='checker' width='8' height='8' rgb1='1 0 0' rgb2='0 1 0'/>"
    "<material name='mt' texture='tx'/></asset>"
    "<worldbody><geom type='plane' size='1 1 .1' material='mt'/>"
    "<body pos='0 0 .2'><joint name='j' type='slide' axis='0 0 1'/><geom type='mesh' mesh='tet'/></body></worldbody>"
    "<actuator><plugin joint='j' plugin='verif.stateful' instance='pid1'/></actuator></mujoco>";

// A stateful actuator plugin (2 plugin-state numbers, heap data from mju_malloc).  The first-party mujoco.pid plugin has
// nstate = 0, for which mj_resetData executes memcpy(NULL, ..., 0) -- reported by UBSan (nonnull) already in the
// fault-free run, so it cannot be used in the sanitizer build.
static void register_plugin() {
  static const char* attrs[] = {"gain"};
  mjpPlugin p;
  mjp_defaultPlugin(&p);
  p.name = "verif.stateful";
  p.capabilityflags = mjPLUGIN_ACTUATOR;
  p.nattribute = 1;
  p.attributes = attrs;
  p.nstate = +[](const mjModel*, int) { return 2; };
  p.init = +[](const mjModel*, mjData* d, int inst) {
    void* x = mju_malloc(64);
    if (!x) return -1;
    d->plugin_data[inst] = (uintptr_t)x;
    return 0;
  };
  p.destroy = +[](mjData* d, int inst) { mju_free((void*)d->plugin_data[inst]); d->plugin_data[inst] = 0; };
  p.reset = +[](const mjModel*, mjtNum* st, void*, int) { st[0] = st[1] = 0; };
  p.compute = +[](const mjModel* m, mjData* d, int inst, int) {
    for (int i = 0; i < m->nu; i++) {
      if (m->actuator_plugin[i] == inst) d->actuator_force[i] = 4 * d->ctrl[i];
    }
    d->plugin_state[m->plugin_stateadr[inst]] += 1;
  };
  mjp_registerPlugin(&p);
}

struct Objs {
  mjSpec* spec = nullptr; mjSpec* spec2 = nullptr;
  mjModel* m = nullptr; mjModel* m2 = nullptr; mjModel* m3 = nullptr;
  mjData* d = nullptr; mjData* d2 = nullptr;
  void* buf = nullptr; int bufsz = 0;
};

struct Run {
  VgxOut* out; long pt; std::string trace; int nfail = 0; int nerr = 0; int nnull = 0; bool gaveup = false;
  std::vector<int> raised;   // step indices abandoned by mju_malloc's own mju_error (directly or via the compiler's handler)
  std::string lastmsg;
};

// run one scenario step: `fn` returns true on success; on VgError or false the step is cleaned by `undo` and retried
static bool step(Run& r, const char* name, const std::function<bool()>& fn, const std::function<void()>& undo) {
  for (int attempt = 0; attempt < 4; attempt++) {
    long failed0 = g_failed;
    g_step++;
    r.lastmsg.clear();
    bool ok = false, threw = false;
    char msg[300] = "";
    try {
      ok = fn();
    } catch (VgError& e) {
      threw = true;
      snprintf(msg, sizeof(msg), "%s", e.msg);
    }
    if (ok && !threw) {
      if (g_failed > failed0) r.trace += std::string(name) + ":absorbed ";
      return true;
    }
    r.nfail++;
    if (threw) r.nerr++; else r.nnull++;
    if (g_failed > failed0 && (strstr(msg, "Could not allocate memory") || r.lastmsg.find("Could not allocate memory") != std::string::npos)) {
      r.raised.push_back(g_step);
    }
    r.trace += std::string(name) + (threw ? ":error[" + vgx_msgclass(msg).substr(0, 40) + "] " : ":null ");
    if (g_failed == failed0) {
      // a failure that was not caused by an injected fault
      r.out->violation(r.pt, (std::string("step failed without injected fault: ") + name).c_str(), "%s %s", name, msg);
      r.gaveup = true;
      return false;
    }
    try { undo(); } catch (VgError& e) {
      r.out->violation(r.pt, (std::string("cleanup raised: ") + name).c_str(), "%s", e.msg);
    }
  }
  r.gaveup = true;
  return false;
}

static void safe(const std::function<void()>& f) { try { f(); } catch (VgError&) {} }

static void cleanup(Objs& o) {
  safe([&] { if (o.d2) mj_deleteData(o.d2); }); o.d2 = nullptr;
  safe([&] { if (o.d) mj_deleteData(o.d); }); o.d = nullptr;
  safe([&] { if (o.m3) mj_deleteModel(o.m3); }); o.m3 = nullptr;
  safe([&] { if (o.m2) mj_deleteModel(o.m2); }); o.m2 = nullptr;
  safe([&] { if (o.m) mj_deleteModel(o.m); }); o.m = nullptr;
  safe([&] { if (o.spec2) mj_deleteSpec(o.spec2); }); o.spec2 = nullptr;
  safe([&] { if (o.spec) mj_deleteSpec(o.spec); }); o.spec = nullptr;
  if (o.buf) mju_free(o.buf);
  o.buf = nullptr;
}

static bool build_spec(Objs& o) {
  mjSpec* s = mj_makeSpec();
  if (!s) return false;
  o.spec = s;
  s->memory = 100000;
  mjsBody* w = mjs_findBody(s, "world");
  mjsGeom* fl = mjs_addGeom(w, nullptr);
  fl->type = mjGEOM_PLANE; fl->size[0] = fl->size[1] = 1; fl->size[2] = .1;
  mjsBody* a = mjs_addBody(w, nullptr);
  mjs_setName(a->element, "a");
  a->pos[2] = .3;
  mjsJoint* fj = mjs_addFreeJoint(a);
  mjs_setName(fj->element, "fa");
  mjsGeom* ga = mjs_addGeom(a, nullptr);
  ga->type = mjGEOM_BOX; ga->size[0] = .05; ga->size[1] = .04; ga->size[2] = .03;
  mjsSite* sa = mjs_addSite(a, nullptr);
  mjs_setName(sa->element, "sa");
  mjsBody* b = mjs_addBody(a, nullptr);
  mjs_setName(b->element, "b");
  b->pos[0] = .2;
  mjsJoint* jb = mjs_addJoint(b, nullptr);
  mjs_setName(jb->element, "jb");
  jb->type = mjJNT_HINGE; jb->axis[0] = 0; jb->axis[1] = 1; jb->axis[2] = 0;
  mjsGeom* gb = mjs_addGeom(b, nullptr);
  gb->type = mjGEOM_SPHERE; gb->size[0] = .03;
  mjsActuator* act = mjs_addActuator(s, nullptr);
  mjs_setName(act->element, "mb");
  act->trntype = mjTRN_JOINT;
  mjs_setString(act->target, "jb");
  mjs_setToMotor(act);
  mjsSensor* se = mjs_addSensor(s);
  se->type = mjSENS_JOINTPOS; se->objtype = mjOBJ_JOINT;
  mjs_setString(se->objname, "jb");
  mjsNumeric* nu = mjs_addNumeric(s);
  mjs_setName(nu->element, "n");
  nu->size = 2;
  return true;
}

static void scenario(int id, Run& r) {
  Objs o;
  char err[1000];
  bool ok = true;
  // ---- obtain spec + model
  if (id == 1 || id == 3) {
    const char* xml = id == 1 ? kXml1 : kXml3;
    ok = ok && step(r, "parse", [&] { err[0] = 0; o.spec = mj_parseXMLString(xml, nullptr, err, sizeof(err));
                                       if (!o.spec && !err[0]) r.out->violation(r.pt, "mj_parseXMLString NULL without message", "k");
                                       if (!o.spec) { r.lastmsg = err; r.trace += std::string("<") + vgx_msgclass(err).substr(0, 60) + "> "; }
                                       return o.spec != nullptr; },
                    [&] { if (o.spec) { mj_deleteSpec(o.spec); o.spec = nullptr; } });
  } else {
    ok = ok && step(r, "makeSpec", [&] { return build_spec(o); },
                    [&] { if (o.spec) { mj_deleteSpec(o.spec); o.spec = nullptr; } });
  }
  ok = ok && step(r, "compile", [&] { o.m = mj_compile(o.spec, nullptr);
                                       if (!o.m) { const char* e = mjs_getError(o.spec);
                                         if (!e || !e[0]) r.out->violation(r.pt, "mj_compile NULL without message", "k");
                                         else { r.lastmsg = e; r.trace += std::string("<") + vgx_msgclass(e).substr(0, 60) + "> "; } }
                                       return o.m != nullptr; },
                  [&] { if (o.m) { mj_deleteModel(o.m); o.m = nullptr; } });
  if (ok) o.m->narena = 100000;
  ok = ok && step(r, "makeData", [&] { o.d = mj_makeData(o.m); return o.d != nullptr; },
                  [&] { if (o.d) { mj_deleteData(o.d); o.d = nullptr; } });
  ok = ok && step(r, "step", [&] { if (o.m->nu) o.d->ctrl[0] = .3; mj_step(o.m, o.d); mj_step(o.m, o.d); return true; },
                  [&] { mj_resetData(o.m, o.d); });
  if (id == 3) {
    ok = ok && step(r, "resetData", [&] { mj_resetData(o.m, o.d); mj_step(o.m, o.d); return true; }, [&] {});
  }
  if (id == 2) {
    ok = ok && step(r, "copySpec", [&] { o.spec2 = mj_copySpec(o.spec); return o.spec2 != nullptr; },
                    [&] { if (o.spec2) { mj_deleteSpec(o.spec2); o.spec2 = nullptr; } });
    ok = ok && step(r, "edit", [&] { mjsBody* w = mjs_findBody(o.spec, "world"); mjsBody* c = mjs_addBody(w, nullptr);
                                      if (!c) return false;
                                      c->pos[0] = 1; mjsGeom* g = mjs_addGeom(c, nullptr); g->size[0] = .1;
                                      mjsJoint* j = mjs_addJoint(c, nullptr); j->type = mjJNT_SLIDE; return true; }, [&] {});
    ok = ok && step(r, "recompile", [&] {
                      if (!o.m) {   // a failed mj_recompile has deleted model and data: start over like a client would
                        o.m = mj_compile(o.spec, nullptr);
                        if (!o.m) { const char* e = mjs_getError(o.spec); r.lastmsg = e ? e : ""; return false; }
                        o.m->narena = 100000;
                        o.d = mj_makeData(o.m);
                        return o.d != nullptr;
                      }
                      int rc;
                      try {
                        rc = mj_recompile(o.spec, nullptr, o.m, o.d);
                      } catch (VgError&) {
                        // raised by mjCModel::MakeData after a successful in-place compile: the model is valid, the data
                        // has lost its buffers (mj_makeRawData frees them before allocating the new ones).  The only
                        // thing a client can still do with either is to delete it.
                        mjData* dd = o.d; o.d = nullptr;
                        mjModel* mm = o.m; o.m = nullptr;
                        safe([&] { mj_deleteData(dd); });
                        safe([&] { mj_deleteModel(mm); });
                        throw;
                      }
                      if (rc != 0) {
                        const char* e = mjs_getError(o.spec);
                        if (!e || !e[0]) r.out->violation(r.pt, "mj_recompile failed without message", "rc=%d", rc);
                        else r.lastmsg = e;
                        o.m = nullptr;   // mjCModel::Compile deletes the model it was given, mj_recompile deletes the data
                        o.d = nullptr;
                        return false;
                      }
                      return true; },
                    [&] { if (o.m && !o.d) { mj_deleteModel(o.m); o.m = nullptr; } });
    if (ok && !o.d) ok = false;
    ok = ok && step(r, "step2", [&] { mj_step(o.m, o.d); return true; }, [&] { mj_resetData(o.m, o.d); });
    ok = ok && step(r, "compile2", [&] { o.m2 = mj_compile(o.spec2, nullptr);
                                          if (!o.m2) { const char* e = mjs_getError(o.spec2); r.lastmsg = e ? e : ""; }
                                          return o.m2 != nullptr; },
                    [&] { if (o.m2) { mj_deleteModel(o.m2); o.m2 = nullptr; } });
  }
  ok = ok && step(r, "copyData", [&] { o.d2 = mj_copyData(nullptr, o.m, o.d); return o.d2 != nullptr; },
                  [&] { if (o.d2) { mj_deleteData(o.d2); o.d2 = nullptr; } });
  if (id != 2) {
    ok = ok && step(r, "copyModel", [&] { o.m2 = mj_copyModel(nullptr, o.m); return o.m2 != nullptr; },
                    [&] { if (o.m2) { mj_deleteModel(o.m2); o.m2 = nullptr; } });
  }
  ok = ok && step(r, "save", [&] { o.bufsz = (int)mj_sizeModel(o.m); o.buf = mju_malloc(o.bufsz);
                                    if (!o.buf) return false;
                                    mj_saveModel(o.m, nullptr, o.buf, o.bufsz); return true; },
                  [&] { if (o.buf) { mju_free(o.buf); o.buf = nullptr; } });
  ok = ok && step(r, "load", [&] { o.m3 = mj_loadModelBuffer(o.buf, o.bufsz); return o.m3 != nullptr; },
                  [&] { if (o.m3) { mj_deleteModel(o.m3); o.m3 = nullptr; } });
  ok = ok && step(r, "step3", [&] { mj_step(o.m3, o.d2); return true; }, [&] { mj_resetData(o.m, o.d2); });
  cleanup(o);
}

struct Cfg { int scen; bool pairs; long A; long tail; };

static void point(long pt, VgxOut& out, void* user) {
  Cfg* c = (Cfg*)user;
  long k1 = pt, k2 = -1;
  if (c->pairs) {
    // pt enumerates (k1, k2) with 1 <= k1 < k2 <= A + tail, row-major in k1
    long W = c->A + c->tail, p = pt;
    k1 = 1;
    while (p >= W - k1) { p -= W - k1; k1++; }
    k2 = k1 + 1 + p;
  }
  Run r;
  r.out = &out; r.pt = pt;
  alloc_begin(k1, k2);
  scenario(c->scen, r);
  g_track = false;
  char kk[64];
  snprintf(kk, sizeof(kk), c->pairs ? "k=(%ld,%ld)" : "k=%ld", k1, k2);
  std::string fsite = g_failed ? frames(g_failbt[0], g_nfailbt[0]) : "";
  if (g_failed && !r.nfail && r.trace.find("absorbed") == std::string::npos) {
    out.violation(pt, "allocation failure did not surface", "%s scenario %d: %ld allocation(s) failed, no error / NULL observed; site %s",
                  kk, c->scen, g_failed, fsite.c_str());
  }
  if (g_badfree) {
    out.violation(pt, ("free of unknown or already freed block: " + frames(g_badbt, g_nbadbt)).c_str(),
                  "%s scenario %d: %ld bad frees; trace %s", kk, c->scen, g_badfree, r.trace.c_str());
  }
  if (!g_live->empty()) {
    // one violation per (kind, allocation site of the leaked block, site of the failed allocation)
    std::map<std::string, std::pair<int, size_t>> sites;
    for (auto& kv : *g_live) {
      bool raised = false;
      for (int st : r.raised) raised = raised || st == kv.second.step;
      std::string fs = fsite;
      if (g_failed >= 2 && g_failstep[1] == kv.second.step) fs = frames(g_failbt[1], g_nfailbt[1]);
      std::string s = std::string(raised ? "leak(raise)" : "leak(other)") + ": block from [" + frames(kv.second.bt, kv.second.nbt) +
                      "] alive after failure at [" + fs + "]";
      sites[s].first++;
      sites[s].second += kv.second.size;
    }
    for (auto& kv : sites) {
      out.violation(pt, kv.first.c_str(), "%s scenario %d: %d block(s), %zu bytes; trace %s", kk, c->scen, kv.second.first,
                    kv.second.second, r.trace.c_str());
    }
    for (auto& kv : *g_live) free(kv.first);
    g_live->clear();
  }
  if (r.gaveup) out.outcome(pt, "gave up: " + r.trace, true);
  else out.outcome(pt, g_failed ? r.trace : "no fault reached", g_failed > 0);
}

int main(int argc, char** argv) {
  if (argc < 3) { fprintf(stderr, "usage\n"); return 2; }
  vg_install_handlers();
  register_plugin();
  mju_user_malloc = my_malloc;
  mju_user_free = my_free;
  g_live = new std::map<void*, Blk>();
  Cfg c;
  c.scen = atoi(argv[1]);
  c.pairs = false; c.A = 0; c.tail = 8;
  if (!strcmp(argv[2], "count")) {
    VgxOut out;
    out.f = stdout;
    Run r;
    r.out = &out; r.pt = 0;
    alloc_begin(-1, -1);
    scenario(c.scen, r);
    g_track = false;
    printf("A %ld live %zu badfree %ld nfail %d trace '%s'\n", g_count, g_live->size(), g_badfree, r.nfail, r.trace.c_str());
    out.flush();
    return 0;
  }
  if (!strcmp(argv[2], "single")) {
    return vgx_run(atol(argv[3]), atol(argv[4]), 1, atol(argv[5]), point, &c);
  }
  if (!strcmp(argv[2], "pairs")) {
    c.pairs = true;
    c.A = atol(argv[3]);
    return vgx_run(atol(argv[4]), atol(argv[5]), 1, atol(argv[6]), point, &c);
  }
  return 2;
}
