// C40 driver: the UNMODIFIED src/engine/engine_plugin.cc (+ engine_global_table.h) compiled with the
// vsched prelude, statically linked with the rest of the tree.  Concurrent registrations + lookups under
// the controlled scheduler (fresh forked process per execution, so the process-global tables start from
// the same state every time), and sequential registration histories (E2).
//
// usage: c40_registry explore <scenario> <prefill> <max_preemptions> <shard> <nshards> [max_exec]
//        c40_registry replay  <scenario> <prefill> <schedule>
//        c40_registry seq <depth>            (all sequential histories of that depth, one forked child each)
// scenario: two registrar scripts and a reader, e.g. "A,B" ; registrar ops:
//   A = new plugin "pa", B = new plugin "pb", a = identical re-registration of "pa",
//   X = conflicting re-registration of "pa" (same name, different content), U = "PA" (case variant of "pa", same content)
//   R = new resource provider "ra", S = new resource provider "rb", r = identical "ra", T = conflicting "ra"
//   N = provider "ra" registered while the plugin table is held exclusively (library initializer under mj_loadAllPluginLibraries)
// prefill: number of plugins in the table before the concurrent phase (14 => the block boundary 15|16 is crossed)
#include <sys/wait.h>
#include <unistd.h>

#include <cstdio>
#include <cstdlib>
#include <cstring>
#include <string>
#include <vector>

#include <mujoco/mujoco.h>
#include "support.h"
#include "vsched/vsched.h"

// Executions share one process (fork is very expensive in this sandbox), so the process-global tables are
// rolled back to their start-up content before every execution.  This harness TU looks into the private
// members of GlobalTable for that purpose only; the code under test is the unmodified engine_plugin.cc.
#define private public
#include "engine/engine_global_table.h"
#undef private

using mujoco::GlobalTable;
using mujoco::TableBlock;

static int g_base_plugins = -1, g_base_providers = -1;

template <typename T>
static void rollback_table(int base) {
  GlobalTable<T>& t = GlobalTable<T>::GetSingleton();
  int n = t.count_.load();
  TableBlock<T>* block = &t.first_block_;
  int local = 0;
  for (int i = 0; i < n; i++, local++) {
    if (local == TableBlock<T>::kBlockSize) { local = 0; block = block->next; if (!block) break; }
    if (i >= base) std::memset(&block->objects[local], 0, sizeof(T));
  }
  // forget blocks that hold no surviving object (they are leaked: a few hundred bytes per execution)
  block = &t.first_block_;
  for (int i = TableBlock<T>::kBlockSize; i < base; i += TableBlock<T>::kBlockSize) block = block->next;
  if (block) block->next = nullptr;
  t.count_.store(base);
}

static void reset_tables() {
  if (g_base_plugins < 0) { g_base_plugins = mjp_pluginCount(); g_base_providers = mjp_resourceProviderCount(); }
  rollback_table<mjpPlugin>(g_base_plugins);
  rollback_table<mjpResourceProvider>(g_base_providers);
}

static const char* kAttrA[] = {"alpha", "beta"};
static const char* kAttrB[] = {"gamma"};

static int rp_open(mjResource*) { return 0; }
static int rp_read(mjResource*, const void**) { return 0; }
static void rp_close(mjResource*) {}
static int rp_open2(mjResource*) { return 1; }

static mjpPlugin make_plugin(char code) {
  mjpPlugin p;
  mjp_defaultPlugin(&p);
  switch (code) {
    case 'A': case 'a': p.name = "pa"; p.nattribute = 2; p.attributes = kAttrA; p.capabilityflags = mjPLUGIN_ACTUATOR; break;
    case 'X': p.name = "pa"; p.nattribute = 2; p.attributes = kAttrA; p.capabilityflags = mjPLUGIN_SENSOR; break;
    case 'U': p.name = "PA"; p.nattribute = 2; p.attributes = kAttrA; p.capabilityflags = mjPLUGIN_ACTUATOR; break;
    case 'B': p.name = "pb"; p.nattribute = 1; p.attributes = kAttrB; p.capabilityflags = mjPLUGIN_PASSIVE; break;
  }
  return p;
}
static mjpResourceProvider make_provider(char code) {
  mjpResourceProvider p;
  mjp_defaultResourceProvider(&p);
  p.open = rp_open; p.read = rp_read; p.close = rp_close;
  switch (code) {
    case 'R': case 'r': p.prefix = "ra"; break;
    case 'T': p.prefix = "ra"; p.open = rp_open2; break;
    case 'S': p.prefix = "rb"; break;
  }
  return p;
}

static bool plugin_matches(const mjpPlugin* q, const mjpPlugin& src) {
  if (!q || !q->name || std::strcmp(q->name, src.name)) return false;
  if (q->nattribute != src.nattribute || q->capabilityflags != src.capabilityflags) return false;
  if (src.nattribute && !q->attributes) return false;
  for (int i = 0; i < src.nattribute; i++) {
    if (!q->attributes[i] || std::strcmp(q->attributes[i], src.attributes[i])) return false;
  }
  return true;
}

// a registered plugin must be one of the known complete objects
static void check_plugin_complete(const mjpPlugin* q, int slot, int prefill) {
  if (!q) { vsched::fail("published slot (< count) resolves to NULL: count was published before the object was complete"); return; }
  if (!q->name || !q->name[0]) { vsched::fail("published plugin has an empty name"); return; }
  if (slot < prefill) return;   // fillers / first-party plugins
  static const char codes[] = {'A', 'B', 'X', 'U'};
  for (char c : codes) {
    mjpPlugin src = make_plugin(c);
    if (plugin_matches(q, src)) return;
  }
  vsched::fail("published plugin is not a complete copy of any registered object (torn / partially copied)");
}

struct Outcome { int slot = -2; bool error = false; };

static void do_op(char code, Outcome* out) {
  try {
    if (code == 'N') {
      // what a plugin library's initializer does when the library is loaded through mj_loadAllPluginLibraries: that function
      // holds the plugin table exclusively around mj_loadPluginLibrary (dlopen), and the initializer registers a resource
      // provider (or decoder) from inside
      auto lock = GlobalTable<mjpPlugin>::GetSingleton().LockExclusively();
      mjpResourceProvider p = make_provider('R');
      out->slot = mjp_registerResourceProvider(&p);
    } else if (code == 'R' || code == 'r' || code == 'S' || code == 'T') {
      mjpResourceProvider p = make_provider(code);
      out->slot = mjp_registerResourceProvider(&p);
    } else {
      mjpPlugin p = make_plugin(code);
      out->slot = mjp_registerPlugin(&p);
    }
  } catch (const VgError& e) {
    out->error = true;
  }
}

static std::string g_s1, g_s2;
static int g_prefill = 14;

static void reader(int prefill, int passes) {
  for (int pass = 0; pass < passes; pass++) {
    int n = mjp_pluginCount();
    vsched::log_event("count", n, 0);
    if (n < prefill) vsched::fail("plugin count decreased below the prefilled value");
    for (int slot = prefill > 0 ? prefill - 1 : 0; slot < n; slot++) {
      const mjpPlugin* q = mjp_getPluginAtSlot(slot);
      check_plugin_complete(q, slot, prefill);
    }
    int s = -7;
    const mjpPlugin* q = mjp_getPlugin("pa", &s);
    if (q) {
      if (s < 0 || s >= mjp_pluginCount()) vsched::fail("by-name lookup returned a slot outside [0,count)");
      if (mjp_getPluginAtSlot(s) != q) vsched::fail("by-name and by-slot lookups disagree");
      check_plugin_complete(q, s, prefill);
    }
    int np = mjp_resourceProviderCount();
    for (int slot = 1; slot <= np; slot++) {
      const mjpResourceProvider* rp = mjp_getResourceProviderAtSlot(slot);
      if (!rp || !rp->prefix || !rp->open || !rp->read || !rp->close) vsched::fail("published resource provider incomplete");
    }
  }
}

static void body() {
  reset_tables();
  int prefill = g_prefill;
  // sequential prefill (inside the controlled execution, single thread: cheap)
  static char names[64][16];
  int base = mjp_pluginCount();
  for (int i = base; i < prefill; i++) {
    std::snprintf(names[i], sizeof(names[i]), "filler%d", i);
    mjpPlugin p; mjp_defaultPlugin(&p); p.name = names[i];
    mjp_registerPlugin(&p);
  }
  if (mjp_pluginCount() < prefill) vsched::fail("prefill failed");
  prefill = mjp_pluginCount();
  std::vector<Outcome> o1(g_s1.size()), o2(g_s2.size());
  vsched::thread t1([&] { for (size_t i = 0; i < g_s1.size(); i++) do_op(g_s1[i], &o1[i]); });
  vsched::thread t2([&] { for (size_t i = 0; i < g_s2.size(); i++) do_op(g_s2[i], &o2[i]); });
  vsched::thread t3([&] { reader(prefill, 2); });
  t1.join(); t2.join(); t3.join();

  // final, sequentially observable state
  int n = mjp_pluginCount();
  // expected set of case-insensitive keys
  bool has_pa = false, has_pb = false;
  std::string all = g_s1 + g_s2;
  for (char c : all) { if (c == 'A' || c == 'a' || c == 'X' || c == 'U') has_pa = true; if (c == 'B') has_pb = true; }
  int expect = prefill + (has_pa ? 1 : 0) + (has_pb ? 1 : 0);
  if (n != expect) vsched::fail("final plugin count != number of distinct case-insensitive names (slots not dense / duplicate key)");
  int pa_slot = -1, pb_slot = -1;
  const mjpPlugin* pa = mjp_getPlugin("pa", &pa_slot);
  const mjpPlugin* pb = mjp_getPlugin("pb", &pb_slot);
  if (has_pa && (!pa || pa_slot < prefill || pa_slot >= n)) vsched::fail("registered plugin 'pa' not found in a dense slot");
  if (has_pb && (!pb || pb_slot < prefill || pb_slot >= n)) vsched::fail("registered plugin 'pb' not found in a dense slot");
  if (has_pa && has_pb && pa_slot == pb_slot) vsched::fail("two plugins share a slot");
  for (int s = 0; s < n; s++) check_plugin_complete(mjp_getPluginAtSlot(s), s, prefill);
  if (mjp_getPluginAtSlot(n) != nullptr) vsched::fail("slot == count resolves to an object");
  // per-op results: a successful registration returns the object's (stable) slot; identical re-registration the same slot;
  // among conflicting registrations of one key exactly the losers fail and the winner's content is what is stored
  auto check_ops = [&](const std::string& s, std::vector<Outcome>& o) {
    for (size_t i = 0; i < s.size(); i++) {
      char c = s[i];
      if (c == 'A' || c == 'a' || c == 'X' || c == 'U') {
        mjpPlugin src = make_plugin(c);
        bool stored_is_mine = pa && plugin_matches(pa, src);
        if (!o[i].error) {
          if (o[i].slot != pa_slot) vsched::fail("registration returned a slot that is not the slot of its key");
          if (!stored_is_mine) vsched::fail("a registration succeeded although a different object is stored under its key");
        } else if (stored_is_mine) {
          vsched::fail("a registration failed although the stored object is identical to it");
        }
      } else if (c == 'B') {
        if (o[i].error || o[i].slot != pb_slot) vsched::fail("registration of a new unique plugin failed or returned a wrong slot");
      }
      vsched::log_event("op", c, o[i].error ? -1 : o[i].slot - prefill);
    }
  };
  check_ops(g_s1, o1);
  check_ops(g_s2, o2);
  // resource providers: same rules on the second table
  {
    bool has_ra = false, has_rb = false;
    for (char c : all) { if (c == 'R' || c == 'r' || c == 'T' || c == 'N') has_ra = true; if (c == 'S') has_rb = true; }
    int np = mjp_resourceProviderCount();
    if (np != g_base_providers + (has_ra ? 1 : 0) + (has_rb ? 1 : 0)) vsched::fail("final resource provider count != number of distinct prefixes");
    static int base_np = -1;
    (void)base_np;
    const mjpResourceProvider* ra = mjp_getResourceProvider("ra:x");
    const mjpResourceProvider* rb = mjp_getResourceProvider("rb:x");
    if (has_ra != (ra != nullptr) || has_rb != (rb != nullptr)) vsched::fail("resource provider presence != registrations");
    for (int s = 1; s <= np; s++) if (!mjp_getResourceProviderAtSlot(s)) vsched::fail("resource provider slot < count is NULL");
    vsched::log_event("providers", np, 0);
  }
}

// ------------------------------------------------------------------ sequential histories (E2)
static const char kSeqAlphabet[] = {'A', 'a', 'X', 'U', 'B', 'R', 'r', 'T', 'S'};

static int run_seq_history(const std::string& h) {
  // reference model: map from case-insensitive key to (content code, slot)
  int base = mjp_pluginCount();
  int basep = mjp_resourceProviderCount();
  int pa_slot = -1, pb_slot = -1, ra_slot = -1, rb_slot = -1;
  char pa_content = 0, ra_content = 0;
  int nplug = base, nprov = basep;
  for (char c : h) {
    Outcome o;
    do_op(c, &o);
    if (c == 'A' || c == 'a' || c == 'X' || c == 'U') {
      char content = (c == 'a') ? 'A' : c;
      if (pa_slot < 0) {
        if (o.error || o.slot != nplug) return 1;
        pa_slot = nplug++; pa_content = content;
      } else if (content == pa_content) {
        if (o.error || o.slot != pa_slot) return 2;
      } else {
        if (!o.error) return 3;
      }
    } else if (c == 'B') {
      if (pb_slot < 0) { if (o.error || o.slot != nplug) return 4; pb_slot = nplug++; }
      else if (o.error || o.slot != pb_slot) return 5;
    } else if (c == 'R' || c == 'r' || c == 'T') {
      char content = (c == 'r') ? 'R' : c;
      if (ra_slot < 0) { if (o.error || o.slot != nprov + 1) return 6; ra_slot = ++nprov; ra_content = content; }
      else if (content == ra_content) { if (o.error || o.slot != ra_slot) return 7; }
      else if (!o.error) return 8;
    } else if (c == 'S') {
      if (rb_slot < 0) { if (o.error || o.slot != nprov + 1) return 9; rb_slot = ++nprov; }
      else if (o.error || o.slot != rb_slot) return 10;
    }
    // invariants after every operation
    if (mjp_pluginCount() != nplug) return 11;
    if (mjp_resourceProviderCount() != nprov) return 12;
    int s = -5;
    const mjpPlugin* q = mjp_getPlugin("pa", &s);
    if ((pa_slot >= 0) != (q != nullptr) || (q && s != pa_slot)) return 13;
    if (q) { mjpPlugin src = make_plugin(pa_content); if (!plugin_matches(q, src)) return 14; }
    q = mjp_getPlugin("Pa", &s);   // lookups are case-insensitive
    if ((pa_slot >= 0) != (q != nullptr)) return 15;
    q = mjp_getPlugin("pb", &s);
    if ((pb_slot >= 0) != (q != nullptr) || (q && s != pb_slot)) return 16;
    if (mjp_getPlugin("pc", &s) != nullptr || s != -1) return 17;
    if (mjp_getPluginAtSlot(nplug) != nullptr || mjp_getPluginAtSlot(-1) != nullptr) return 18;
    for (int k = 0; k < nplug; k++) if (!mjp_getPluginAtSlot(k)) return 19;
    const mjpResourceProvider* rp = mjp_getResourceProvider("ra:file");
    if ((ra_slot >= 0) != (rp != nullptr)) return 20;
    if (rp && rp != mjp_getResourceProviderAtSlot(ra_slot)) return 21;
    if (mjp_getResourceProviderAtSlot(nprov + 1) != nullptr) return 22;
  }
  return 0;
}

int main(int argc, char** argv) {
  if (argc < 2) return 2;
  vg_install_handlers();
  reset_tables();   // learn the start-up content of the tables outside any controlled execution
  std::string mode = argv[1];
  vsched::Options opt;
  if (mode == "explore" || mode == "replay") {
    std::string sc = argv[2];
    size_t comma = sc.find(',');
    g_s1 = sc.substr(0, comma);
    g_s2 = comma == std::string::npos ? "" : sc.substr(comma + 1);
    g_prefill = std::atoi(argv[3]);
    if (mode == "explore") {
      opt.max_preemptions = std::atoi(argv[4]);
      opt.shard = std::atoi(argv[5]);
      opt.nshards = std::atoi(argv[6]);
      if (argc > 7) opt.max_executions = std::atol(argv[7]);
      vsched::Result r = vsched::explore(body, opt);
      std::printf("%s\n", vsched::result_json(r).c_str());
      return r.failures ? 1 : 0;
    }
    bool failed = false; std::string failure;
    std::string out = vsched::replay(body, opt, argc > 4 ? argv[4] : "", &failed, &failure);
    std::printf("%s\n%s\n", failure.c_str(), out.c_str());
    return failed ? 1 : 0;
  }
  if (mode == "seq") {
    int depth = std::atoi(argv[2]);
    int prefill = argc > 3 ? std::atoi(argv[3]) : 0;
    long total = 1, nfail = 0, nrun = 0;
    const int A = (int)sizeof(kSeqAlphabet);
    for (int i = 0; i < depth; i++) total *= A;
    int shard = argc > 4 ? std::atoi(argv[4]) : 0, nshards = argc > 5 ? std::atoi(argv[5]) : 1;
    for (long code = 0; code < total; code++) {
      if (code % nshards != shard) continue;
      std::string h;
      long c = code;
      for (int i = 0; i < depth; i++) { h += kSeqAlphabet[c % A]; c /= A; }
      // in-process: the tables are rolled back to their start-up content before every history
      reset_tables();
      static char names[64][16];
      for (int i = mjp_pluginCount(); i < prefill; i++) {
        std::snprintf(names[i], sizeof(names[i]), "filler%d", i);
        mjpPlugin p; mjp_defaultPlugin(&p); p.name = names[i];
        mjp_registerPlugin(&p);
      }
      int rc = run_seq_history(h);
      nrun++;
      if (rc != 0) {
        if (nfail++ < 5) std::printf("SEQFAIL %s rule=%d\n", h.c_str(), rc);
      }
    }
    std::printf("SEQSTATS %ld %ld\n", nrun, nfail);
    return nfail ? 1 : 0;
  }
  return 2;
}
