// C51 isolation driver: which elements of mjData does ONE plugin instance write?
//
// usage: c51_iso <model.xml> [<model.xml> ...]     (output per model between 'MODEL <i>' and 'DONE <i>')
//
// The model is loaded, reset to keyframe 0 if there is one, and mj_forward is run so that every position / velocity
// quantity the plugins read is valid.  Then, for every plugin instance k and every callback the plugin defines
// (actuator_act_dot, compute, advance):
//   1. actuator_force, act_dot, qfrc_passive, qfrc_actuator, plugin_state and sensordata are filled with sentinels
//      (kSentinel + index: distinguishable from every value a plugin computes);
//   2. the mjData is deep-copied (mj_copyData);
//   3. the callback of instance k alone is invoked on the original;
//   4. every array of MJDATA_POINTERS and the scalars time/energy are compared element by element with the copy.
// Output, one line per changed element:   CHG <instance> <callback> <field> <flat index>
// plus                                    INST <instance> <plugin name> <capabilityflags> <nstate> <stateadr>
//                                         CALL <instance> <callback>
// The Python side (mc/checks/C51.py) computes the slices the instance is allowed to write from the model and reports
// everything else.  mju_error is turned into an exception by the harness handler: "ERR <message>".
#include <stdio.h>
#include <stdlib.h>
#include <string.h>

#include <mujoco/mujoco.h>
#include <mujoco/mjxmacro.h>

#include "support.h"

static const double kSentinel = 1.0e3;

// mju_malloc(0) returns NULL and _resetData then calls memcpy(NULL, ., 0) for models whose plugins have no state
// (npluginstate == 0): UBSan's nonnull check would stop every scenario before the plugin code runs.  This allocator
// returns a valid 1-byte block for size 0 (sizes are otherwise exact, so ASan red zones start right behind each block).
static void* drv_malloc(size_t n) {
  void* p = nullptr;
  if (posix_memalign(&p, 64, n ? n : 1)) return nullptr;
  return p;
}
static void drv_free(void* p) { free(p); }

static void fill(mjtNum* a, long n, double base) {
  for (long i = 0; i < n; i++) a[i] = base + (double)i * 0.125;
}

static void fill_all(const mjModel* m, mjData* d) {
  fill(d->actuator_force, m->nout, kSentinel);
  fill(d->act_dot, m->na, 2 * kSentinel);
  fill(d->qfrc_passive, m->nv, 3 * kSentinel);
  fill(d->qfrc_actuator, m->nv, 4 * kSentinel);
  fill(d->plugin_state, m->npluginstate, 5 * kSentinel);
  fill(d->sensordata, m->nsensordata, 6 * kSentinel);
}

static long diff(const mjModel* m, const mjData* a, const mjData* b, int inst, const char* cb) {
  long nchg = 0;
#undef MJ_M
#undef MJ_D
#define MJ_M(n) m->n
#define MJ_D(n) a->n
#define X(type, name, nr, nc)                                                        \
  {                                                                                  \
    long n = (long)(m->nr) * (long)(nc);                                             \
    const type* pa = a->name;                                                        \
    const type* pb = b->name;                                                        \
    if (pa && pb) {                                                                  \
      for (long i = 0; i < n; i++) {                                                 \
        if (memcmp(pa + i, pb + i, sizeof(type))) {                                  \
          printf("CHG %d %s %s %ld\n", inst, cb, #name, i);                          \
          nchg++;                                                                    \
        }                                                                            \
      }                                                                              \
    }                                                                                \
  }
  MJDATA_POINTERS
#undef X
#undef MJ_M
#undef MJ_D
  if (a->time != b->time) { printf("CHG %d %s time 0\n", inst, cb); nchg++; }
  if (a->energy[0] != b->energy[0] || a->energy[1] != b->energy[1]) { printf("CHG %d %s energy 0\n", inst, cb); nchg++; }
  if (a->pstack != b->pstack || a->pbase != b->pbase) { printf("CHG %d %s pstack 0\n", inst, cb); nchg++; }
  if (a->parena != b->parena) { printf("CHG %d %s parena 0\n", inst, cb); nchg++; }
  return nchg;
}

static void one_model(const char* path) {
  char err[1000] = "";
  mjModel* m = nullptr;
  try {
    m = mj_loadXML(path, nullptr, err, sizeof(err));
  } catch (VgError& e) { printf("ERR load %s\n", e.msg); return; }
  if (!m) {
    for (char* c = err; *c; c++) if (*c == '\n') *c = ' ';
    printf("ERR load %s\n", err);
    return;
  }
  mjData* d = nullptr;
  try {
    d = mj_makeData(m);
    if (m->nkey) {
      // (not mj_resetDataKeyframe: _resetData calls memcpy(NULL, NULL, 0) when npluginstate == 0, which UBSan reports)
      mju_copy(d->qpos, m->key_qpos, m->nq);
      mju_copy(d->qvel, m->key_qvel, m->nv);
      mju_copy(d->act, m->key_act, m->na);
      mju_copy(d->ctrl, m->key_ctrl, m->nu);
      d->time = m->key_time[0];
    }
    mj_forward(m, d);
  } catch (VgError& e) { printf("ERR forward %s\n", e.msg); return; }
  printf("SIZES nplugin %d nu %d nactuator %d nout %d na %d nv %d npluginstate %d\n", (int)m->nplugin, (int)m->nu,
         (int)m->nactuator, (int)m->nout, (int)m->na, (int)m->nv, (int)m->npluginstate);
  for (int k = 0; k < m->nplugin; k++) {
    const mjpPlugin* p = mjp_getPluginAtSlot(m->plugin[k]);
    if (!p) { printf("ERR noplugin %d\n", k); continue; }
    int nstate = (k + 1 < m->nplugin ? m->plugin_stateadr[k + 1] : m->npluginstate) - m->plugin_stateadr[k];
    printf("INST %d %s %d %d %d\n", k, p->name, p->capabilityflags, nstate, m->plugin_stateadr[k]);
    for (int cb = 0; cb < 3; cb++) {
      const char* name = cb == 0 ? "act_dot" : (cb == 1 ? "compute" : "advance");
      if (cb == 0 && !p->actuator_act_dot) continue;
      if (cb == 1 && !p->compute) continue;
      if (cb == 2 && !p->advance) continue;
      mjData* ref = nullptr;
      try {
        fill_all(m, d);
        ref = mj_copyData(nullptr, m, d);
        printf("CALL %d %s\n", k, name);
        fflush(stdout);
        if (cb == 0) {
          p->actuator_act_dot(m, d, k);
        } else if (cb == 1) {
          for (int bit = 1; bit <= mjPLUGIN_SDF; bit <<= 1) {
            if ((p->capabilityflags & bit) && (bit == mjPLUGIN_ACTUATOR || bit == mjPLUGIN_PASSIVE || bit == mjPLUGIN_SENSOR)) {
              p->compute(m, d, k, bit);
            }
          }
        } else {
          p->advance(m, d, k);
        }
        diff(m, d, ref, k, name);
      } catch (VgError& e) { printf("ERR %s %d %s\n", name, k, e.msg); }
      if (ref) mj_deleteData(ref);
      // restore a valid state for the next callback
      try { mj_forward(m, d); } catch (VgError& e) { printf("ERR forward %s\n", e.msg); }
    }
  }
  mj_deleteData(d);
  mj_deleteModel(m);
}

int main(int argc, char** argv) {
  if (argc < 2) { fprintf(stderr, "usage: c51_iso model.xml [model.xml ...]\n"); return 2; }
  vg_install_handlers();
  mju_user_malloc = drv_malloc;
  mju_user_free = drv_free;
  for (int i = 1; i < argc; i++) {
    printf("MODEL %d\n", i - 1);
    fflush(stdout);
    one_model(argv[i]);
    printf("DONE %d\n", i - 1);
    fflush(stdout);
  }
  return 0;
}
