// C02 driver: mj_forward / mj_step / mj_inverse with an engine thread pool under the controlled scheduler.
// The whole tree is linked statically; engine_thread.cc is compiled with the vsched prelude and
// engine_memory.c with mj_atomic_add_size_t routed to the scheduler, so every task claim, completion
// count, signal flip and concurrent stack reservation is a scheduling point.
//
// usage: c02_mtstep explore <model.xml> <forward|step|inverse|step2> <nworkers> <bound> <shard> <nshards> [max_exec]
//        c02_mtstep replay  <model.xml> <call> <nworkers> <schedule>
#include <cstdio>
#include <cstdlib>
#include <cstring>
#include <fstream>
#include <sstream>
#include <string>

#include <mujoco/mujoco.h>
#include "engine/engine_thread.h"
#include "support.h"
#include "vsched/vsched.h"

static mjModel* g_m = nullptr;
static mjData* g_init = nullptr;   // initial state
static mjData* g_ref = nullptr;    // result of the call without a pool
static std::string g_call;
static int g_workers = 1;

extern "C" size_t vsched_fetch_add_size(size_t* p, size_t v) {
  if (!vsched::active()) return __atomic_fetch_add(p, v, __ATOMIC_RELAXED);
  vsched::point(vsched::OP_RMW, p, (long long)v);
  size_t o = *p; *p += v;
  vsched::note_write(p);
  vsched::after(p, (long long)o);
  return o;
}

static void do_call(mjData* d) {
  if (g_call == "forward") mj_forward(g_m, d);
  else if (g_call == "step") mj_step(g_m, d);
  else if (g_call == "step2") { mj_step(g_m, d); mj_step(g_m, d); }
  else if (g_call == "inverse") { mj_inverse(g_m, d); }
}

static void prepare_state(mjData* d) {
  // deterministic non-trivial state: small velocities, controls
  for (int i = 0; i < g_m->nv; i++) d->qvel[i] = 0.05 * ((i % 3) - 1);
  for (int i = 0; i < g_m->nu; i++) d->ctrl[i] = 0.3 * ((i % 2) ? 1 : -1);
  mj_forward(g_m, d);     // warm-start / qacc for inverse
}

static void body() {
  mjData* d = mj_copyData(nullptr, g_m, g_init);
  size_t p0 = d->pstack, b0 = d->pbase;
  mju_threadpool(d, g_workers);
  try {
    do_call(d);
  } catch (const VgError& e) {
    vsched::fail((std::string("mju_error with a thread pool attached: ") + e.msg).c_str());
  }
  char name[128] = "";
  if (vg_data_diff(g_m, d, g_ref, VG_CMP_ALL, name, sizeof(name))) {
    vsched::log_event("diff", 1, 0);
    vsched::fail((std::string("result differs from the run without a pool in field ") + name).c_str());
  }
  if (d->pstack != p0 || d->pbase != b0) vsched::fail("stack pointer not restored after the call");
  if (d->threadlock) vsched::fail("threadlock left set");
  vsched::log_event("ncon_nefc", d->ncon, d->nefc);
  vsched::log_event("nisland", d->nisland, 0);
  mju_threadpool(d, 0);
  mj_deleteData(d);
}

int main(int argc, char** argv) {
  if (argc < 5) return 2;
  vg_install_handlers();
  std::string mode = argv[1];
  std::ifstream f(argv[2]);
  std::stringstream ss; ss << f.rdbuf();
  char err[1000];
  mjSpec* s = mj_parseXMLString(ss.str().c_str(), nullptr, err, sizeof(err));
  if (!s) { std::fprintf(stderr, "parse: %s\n", err); return 2; }
  g_m = mj_compile(s, nullptr);
  if (!g_m) { std::fprintf(stderr, "compile failed: %s\n", mjs_getError(s)); return 2; }
  g_call = argv[3];
  g_workers = std::atoi(argv[4]);
  g_init = mj_makeData(g_m);
  prepare_state(g_init);
  g_ref = mj_copyData(nullptr, g_m, g_init);
  do_call(g_ref);
  std::fprintf(stderr, "ref: ncon=%d nefc=%d nisland=%d\n", g_ref->ncon, g_ref->nefc, g_ref->nisland);
  vsched::Options opt;
  if (mode == "explore") {
    opt.max_preemptions = std::atoi(argv[5]);
    opt.shard = std::atoi(argv[6]);
    opt.nshards = std::atoi(argv[7]);
    if (argc > 8) opt.max_executions = std::atol(argv[8]);
    vsched::Result r = vsched::explore(body, opt);
    std::printf("%s\n", vsched::result_json(r).c_str());
    return r.failures ? 1 : 0;
  }
  if (mode == "replay") {
    bool failed = false; std::string failure;
    std::string out = vsched::replay(body, opt, argc > 5 ? argv[5] : "", &failed, &failure);
    std::printf("%s\n%s\n", failure.c_str(), out.c_str());
    return failed ? 1 : 0;
  }
  return 2;
}
