// C33 companion (not the deciding step): the asset compiler free-running on real threads, for the TSan build.
// The controlled scheduler only interleaves at synchronisation operations; unsynchronised sharing between asset tasks
// (a hoisted static scratch buffer, a shared random engine) is visible only to a race detector.
// usage: c33_free <threaded.xml> <serial.xml> <repeats>
#include <cstdio>
#include <cstdlib>
#include <fstream>
#include <sstream>
#include <string>

#include <mujoco/mujoco.h>
#include "support.h"

static mjModel* compile_file(const char* path) {
  std::ifstream f(path);
  std::stringstream ss; ss << f.rdbuf();
  char err[1000] = "";
  mjSpec* s = mj_parseXMLString(ss.str().c_str(), nullptr, err, sizeof(err));
  if (!s) { std::fprintf(stderr, "parse: %s\n", err); return nullptr; }
  mjModel* m = mj_compile(s, nullptr);
  if (!m) std::fprintf(stderr, "compile: %s\n", mjs_getError(s));
  mj_deleteSpec(s);
  return m;
}

int main(int argc, char** argv) {
  if (argc < 4) return 2;
  mjModel* ref = compile_file(argv[2]);
  if (!ref) return 2;
  int reps = std::atoi(argv[3]), bad = 0;
  for (int r = 0; r < reps; r++) {
    mjModel* m = compile_file(argv[1]);
    if (!m) return 2;
    char name[128] = "";
    if (vg_model_diff(m, ref, name, sizeof(name))) { bad++; std::printf("FREEDIFF rep=%d %s\n", r, name); }
    mj_deleteModel(m);
  }
  std::printf("FREESTATS %d %d\n", reps, bad);
  mj_deleteModel(ref);
  return bad ? 1 : 0;
}
