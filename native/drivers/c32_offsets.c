// Prints offsetof / sizeof facts (JSON) of the tree's headers that the Python side of C32/C36
// needs and that the reflection tables do not carry: mjModel.vis, and a few mjs* spec fields
// used to edit a spec in place (C36: runtime edit + mj_setConst == recompiling the edited spec).
#include <stddef.h>
#include <stdio.h>

#include <mujoco/mujoco.h>

#define OFF(T, f) printf("\"%s.%s\": %zu,\n", #T, #f, offsetof(T, f))

int main(void) {
  printf("{\n");
  OFF(mjModel, vis);
  OFF(mjModel, opt);
  OFF(mjsBody, pos); OFF(mjsBody, quat); OFF(mjsBody, mass); OFF(mjsBody, ipos); OFF(mjsBody, iquat);
  OFF(mjsBody, inertia); OFF(mjsBody, gravcomp);
  OFF(mjsGeom, pos); OFF(mjsGeom, quat); OFF(mjsGeom, size); OFF(mjsGeom, mass); OFF(mjsGeom, density);
  OFF(mjsGeom, friction); OFF(mjsGeom, margin); OFF(mjsGeom, gap); OFF(mjsGeom, solref); OFF(mjsGeom, solimp);
  OFF(mjsJoint, pos); OFF(mjsJoint, axis); OFF(mjsJoint, ref); OFF(mjsJoint, stiffness); OFF(mjsJoint, springref);
  OFF(mjsJoint, armature); OFF(mjsJoint, damping); OFF(mjsJoint, frictionloss); OFF(mjsJoint, range);
  OFF(mjsJoint, margin);
  OFF(mjsSite, pos); OFF(mjsSite, quat); OFF(mjsSite, size);
  OFF(mjsCamera, pos); OFF(mjsCamera, quat);
  OFF(mjsLight, pos); OFF(mjsLight, dir);
  OFF(mjsTendon, stiffness); OFF(mjsTendon, damping); OFF(mjsTendon, frictionloss); OFF(mjsTendon, armature);
  OFF(mjsTendon, springlength); OFF(mjsTendon, range); OFF(mjsTendon, margin);
  OFF(mjsActuator, gear); OFF(mjsActuator, gainprm); OFF(mjsActuator, biasprm); OFF(mjsActuator, dynprm);
  OFF(mjsActuator, ctrlrange); OFF(mjsActuator, forcerange); OFF(mjsActuator, cranklength);
  OFF(mjsEquality, data); OFF(mjsEquality, solref); OFF(mjsEquality, solimp);
  OFF(mjSpec, option); OFF(mjSpec, compiler);
  OFF(mjsCompiler, fusestatic); OFF(mjsCompiler, discardvisual); OFF(mjsCompiler, degree);
  printf("\"sizeof.mjVisual\": %zu,\n", sizeof(mjVisual));
  printf("\"sizeof.mjOption\": %zu,\n", sizeof(mjOption));
  printf("\"sizeof.mjtNum\": %zu\n", sizeof(mjtNum));
  printf("}\n");
  return 0;
}
