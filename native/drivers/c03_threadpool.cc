// C03 driver: the UNMODIFIED src/engine/engine_thread.cc (compiled with the vsched prelude)
// under the controlled scheduler.  One run explores all schedules (up to a preemption
// bound) of one pool history.
//
// usage: c03_threadpool explore <history> <max_preemptions> <shard> <nshards> [max_exec]
//        c03_threadpool replay  <history> <schedule>
//        c03_threadpool forced  <history> <tid,tid,...>       (conformance replay of a model path)
// history: comma separated ops  cN (mju_threadpool(d,N): create/resize), dT (mju_dispatch with T tasks),
//          x (destroy = mju_threadpool(d,0)).  The harness appends a final destroy.
#include <cstdio>
#include <cstdlib>
#include <cstring>
#include <string>
#include <vector>

#include <mujoco/mujoco.h>
#include "engine/engine_thread.h"
#include "vsched/vsched.h"

static mjModel* g_m = nullptr;
static mjData* g_d = nullptr;
static std::vector<std::string> g_hist;

struct Batch {
  int ntask = 0;
  int nthread = 0;          // workers + main
  int count[8] = {0};       // invocations per task id
  int inflight = 0;
  int busy[16] = {0};       // invocations in flight per thread id (per-thread scratch memory is indexed by it)
  int bad_thread = 0, bad_task = 0;
  int batch_no = 0;
};
static Batch* g_batch = nullptr;
static int g_returned_batches = 0;

static void task(const mjModel* m, mjData* d, void* arg, int thread_id, int task_id) {
  Batch* b = static_cast<Batch*>(arg);
  // a task that runs although its batch has already been reported complete
  if (b != g_batch || b->batch_no < g_returned_batches) vsched::fail("task invoked after its Dispatch returned / from a stale batch");
  b->inflight++;
  if (task_id < 0 || task_id >= b->ntask) b->bad_task++; else b->count[task_id]++;
  if (thread_id < 0 || thread_id >= b->nthread) b->bad_thread++;
  // thread ids address per-thread scratch memory in the engine (EPA buffers, stack shards): two invocations that run at
  // the same time must never see the same id
  bool idok = thread_id >= 0 && thread_id < 16;
  if (idok && b->busy[thread_id]++) vsched::fail("two task invocations in flight at the same time share a thread id");
  vsched::log_event("run", thread_id, task_id);
  vsched::point(vsched::OP_USER, b, task_id);     // the task body is interruptible
  if (idok) b->busy[thread_id]--;
  b->inflight--;
}

static void body() {
  // executions share the process: start from a clean harness state
  g_batch = nullptr;
  g_returned_batches = 0;
  mjData* d = g_d;
  int nworker = 0;
  int batch_no = 0;
  std::vector<Batch*> batches;
  for (const std::string& op : g_hist) {
    if (op[0] == 'c' || op[0] == 'x') {
      int n = op[0] == 'x' ? 0 : std::atoi(op.c_str() + 1);
      mju_threadpool(d, n);
      nworker = n;
      if ((n >= 1) != (d->threadpool != 0)) vsched::fail("threadpool handle inconsistent with requested size");
      if (mju_numThread(d) != n + 1) vsched::fail("mju_numThread != workers + 1");
      vsched::log_event("pool", n, 0);
    } else if (op[0] == 'd') {
      int t = std::atoi(op.c_str() + 1);
      Batch* b = new Batch();
      b->ntask = t; b->nthread = nworker + 1; b->batch_no = batch_no;
      g_batch = b;
      batches.push_back(b);
      size_t pstack0 = d->pstack, pbase0 = d->pbase;
      mju_dispatch(g_m, d, task, b, t);
      g_returned_batches = ++batch_no;
      if (b->inflight != 0) vsched::fail("Dispatch returned while a task invocation was still in flight");
      for (int i = 0; i < t; i++) {
        if (b->count[i] == 0) vsched::fail("a task was never run (lost task)");
        if (b->count[i] > 1) vsched::fail("a task was run more than once");
      }
      if (b->bad_task) vsched::fail("task id outside [0, ntask)");
      if (b->bad_thread) vsched::fail("thread id outside [0, nthread]");
      if (d->pstack != pstack0 || d->pbase != pbase0) vsched::fail("stack not restored after dispatch");
      if (d->threadlock) vsched::fail("threadlock left set after dispatch");
      vsched::log_event("batch", t, 0);
    }
  }
  mju_threadpool(d, 0);    // destructor must join all workers (deadlock otherwise)
  if (d->threadpool) vsched::fail("pool handle not cleared by destroy");
  for (Batch* b : batches) delete b;
  // a late invocation after everything returned would have tripped the stale-batch check
}

int main(int argc, char** argv) {
  if (argc < 3) { std::fprintf(stderr, "usage\n"); return 2; }
  std::string mode = argv[1];
  {
    std::string h = argv[2];
    size_t pos = 0;
    while (pos <= h.size()) {
      size_t c = h.find(',', pos);
      if (c == std::string::npos) c = h.size();
      if (c > pos) g_hist.push_back(h.substr(pos, c - pos));
      pos = c + 1;
    }
  }
  char err[1000];
  static const char xml[] = "<mujoco><worldbody><body><joint type='slide'/><geom size='.1'/></body></worldbody></mujoco>";
  mjSpec* s = mj_parseXMLString(xml, nullptr, err, sizeof(err));
  if (!s) { std::fprintf(stderr, "parse: %s\n", err); return 2; }
  g_m = mj_compile(s, nullptr);
  g_d = mj_makeData(g_m);
  vsched::Options opt;
  if (mode == "explore") {
    opt.max_preemptions = std::atoi(argv[3]);
    opt.shard = std::atoi(argv[4]);
    opt.nshards = std::atoi(argv[5]);
    if (argc > 6) opt.max_executions = std::atol(argv[6]);
    vsched::Result r = vsched::explore(body, opt);
    std::printf("%s\n", vsched::result_json(r).c_str());
    return r.failures ? 1 : 0;
  } else if (mode == "replay") {
    bool failed = false; std::string failure;
    std::string out = vsched::replay(body, opt, argc > 3 ? argv[3] : "", &failed, &failure);
    std::printf("%s\n%s\n", failure.c_str(), out.c_str());
    return failed ? 1 : 0;
  } else if (mode == "forcedbatch") {
    // one model path per stdin line; output: "#STATUS <status>" then the trace, then "#END"
    char line[1 << 16];
    while (std::fgets(line, sizeof(line), stdin)) {
      std::vector<int> tids;
      for (char* tok = std::strtok(line, ",\n"); tok; tok = std::strtok(nullptr, ",\n")) tids.push_back(std::atoi(tok));
      std::string trace, e;
      bool ok = vsched::replay_forced(body, opt, tids, &trace, &e);
      std::printf("#STATUS %s\n%s#END\n", ok ? "OK" : e.c_str(), trace.c_str());
    }
    return 0;
  } else if (mode == "forced") {
    std::vector<int> tids;
    std::string sch = argc > 3 ? argv[3] : "";
    size_t pos = 0;
    while (pos < sch.size()) {
      size_t c = sch.find(',', pos);
      if (c == std::string::npos) c = sch.size();
      tids.push_back(std::atoi(sch.substr(pos, c - pos).c_str()));
      pos = c + 1;
    }
    std::string trace, e;
    bool ok = vsched::replay_forced(body, opt, tids, &trace, &e);
    std::printf("%s\n%s", ok ? "OK" : e.c_str(), trace.c_str());
    return ok ? 0 : 1;
  }
  return 2;
}
