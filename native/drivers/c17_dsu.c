// C17 driver: exhaustive enumeration for the pure core of island discovery (engine_island.h).
// usage:
//   c17_dsu dsu <n> <depth> <shard> <nshards>
//       every sequence of <= depth operations over n trees, operations = mj_dsuMerge(a,b) for every ordered
//       (a,b) in {-1,0..n-1}^2 \ {(-1,-1)} and mj_dsuRoot(t) for every active t; after EVERY prefix the forest is
//       compared with a naive partition (structure walked without mutation), mj_dsuRoot is called on a copy for
//       every active tree, and mj_dsuAssign is run on a copy.  The first operation is sharded.
//   c17_dsu err <n>
//       contract of the (-1,-1) merge: mjERROR, parent untouched (for every reachable depth<=2 state)
//   c17_dsu flood <nmax>
//       mj_floodFill on every symmetric adjacency structure (with and without self loops) with n<=nmax vertices
//       x 4 colind encodings (sorted, reversed, every entry duplicated, rotated+duplicated first)
// output: "FAIL <what> : <case>" lines (first 5), "SAMPLE ..." lines, "STATS evaluations nontrivial failures"
#include <setjmp.h>
#include <stdio.h>
#include <stdlib.h>
#include <string.h>

#include <mujoco/mujoco.h>
#include "engine/engine_island.h"

#define NMAX 6
#define CANARY 0x5a5a5a5a
#define PAD 4

static long evals = 0, nontrivial = 0, failures = 0;
static int nsample = 0;
static jmp_buf jb;
static int in_guard = 0;
static char last_err[512];

static void on_error(const char* msg) {
  snprintf(last_err, sizeof(last_err), "%s", msg);
  if (in_guard) longjmp(jb, 1);
  fprintf(stderr, "unexpected mju_error: %s\n", msg);
  exit(3);
}

// ------------------------------------------------------------------ DSU
typedef struct { int op, a, b; } Op;   // op 0: merge(a,b), 1: root(a)
static Op hist[16];
static int nhist = 0;
static int N;
static const int dofnum[NMAX] = {1, 2, 4, 8, 16, 32};

static void print_hist(const char* tag, const char* what) {
  printf("%s %s : n=%d", tag, what, N);
  for (int i = 0; i < nhist; i++) {
    if (hist[i].op == 0) printf(" M(%d,%d)", hist[i].a, hist[i].b);
    else printf(" R(%d)", hist[i].a);
  }
  printf("\n");
}

static void fail(const char* what) {
  if (failures++ < 5) print_hist("FAIL", what);
}

// reference: comp[i] = class label (min element) or -1 when inactive
typedef struct { int comp[NMAX]; } Ref;
typedef struct { int pad0[PAD]; int parent[NMAX]; int pad1[PAD]; } Dsu;

static void dsu_init(Dsu* s) {
  for (int i = 0; i < PAD; i++) s->pad0[i] = s->pad1[i] = CANARY;
  for (int i = 0; i < NMAX; i++) s->parent[i] = (i < N) ? -1 : CANARY;
}

static int canaries_ok(const Dsu* s) {
  for (int i = 0; i < PAD; i++) if (s->pad0[i] != CANARY || s->pad1[i] != CANARY) return 0;
  for (int i = N; i < NMAX; i++) if (s->parent[i] != CANARY) return 0;
  return 1;
}

// structural comparison without mutation
static int structure_ok(const Dsu* s, const Ref* r) {
  for (int i = 0; i < N; i++) {
    int p = s->parent[i];
    if (p < -1 || p >= N) return 0;
    if ((p == -1) != (r->comp[i] == -1)) return 0;
    if (p == -1) continue;
    int cur = i, steps = 0;
    while (s->parent[cur] != cur) {
      cur = s->parent[cur];
      if (cur < 0 || cur >= N || ++steps > N) return 0;
    }
    if (cur != r->comp[i]) return 0;   // canonical root = minimum tree of the class (header contract)
  }
  return 1;
}

static void check_state(const Dsu* s, const Ref* r) {
  if (!canaries_ok(s)) { fail("write outside parent[0..n)"); return; }
  if (!structure_ok(s, r)) { fail("forest != naive partition (or root is not the minimum tree)"); return; }

  // mj_dsuRoot on every active tree, each on its own copy: value and partition preserved
  for (int t = 0; t < N; t++) {
    if (r->comp[t] < 0) continue;
    Dsu c = *s;
    int root = mj_dsuRoot(c.parent, t);
    if (root != r->comp[t]) { fail("mj_dsuRoot returned a wrong root"); return; }
    if (!canaries_ok(&c) || !structure_ok(&c, r)) { fail("mj_dsuRoot path compression changed the partition"); return; }
    if (c.parent[t] != root) { fail("mj_dsuRoot did not compress the queried tree"); return; }
  }

  // mj_dsuAssign on a copy
  Dsu c = *s;
  struct { int pad0[PAD]; int island[NMAX]; int pad1[PAD]; } out;
  for (int i = 0; i < PAD; i++) out.pad0[i] = out.pad1[i] = CANARY;
  for (int i = 0; i < NMAX; i++) out.island[i] = CANARY;
  int nidof = -12345;
  int nisland = mj_dsuAssign(out.island, c.parent, dofnum, N, &nidof);
  int expect_island[NMAX], next = 0, expect_dof = 0;
  for (int i = 0; i < N; i++) {
    if (r->comp[i] < 0) expect_island[i] = -1;
    else {
      if (r->comp[i] == i) expect_island[i] = next++;       // ascending order of the smallest tree
      else expect_island[i] = expect_island[r->comp[i]];
      expect_dof += dofnum[i];
    }
  }
  int ok = (nisland == next) && (nidof == expect_dof);
  for (int i = 0; i < N && ok; i++) ok = out.island[i] == expect_island[i];
  for (int i = N; i < NMAX && ok; i++) ok = out.island[i] == CANARY;
  for (int i = 0; i < PAD && ok; i++) ok = out.pad0[i] == CANARY && out.pad1[i] == CANARY;
  if (!ok) { fail("mj_dsuAssign: islands/nisland/nidof differ from the naive components in ascending-min order"); return; }
  if (!canaries_ok(&c) || !structure_ok(&c, r)) { fail("mj_dsuAssign corrupted the forest"); return; }
}

static void ref_merge(Ref* r, int a, int b, int* united, int* bigger) {
  *united = 0; *bigger = 0;
  if (a == -1) a = b;
  if (b == -1) b = a;
  if (r->comp[a] < 0) r->comp[a] = a;
  if (r->comp[b] < 0) r->comp[b] = b;
  int ca = r->comp[a], cb = r->comp[b];
  if (ca == cb) return;
  int lo = ca < cb ? ca : cb, hi = ca < cb ? cb : ca;
  int nlo = 0, nhi = 0;
  for (int i = 0; i < N; i++) { if (r->comp[i] == lo) nlo++; if (r->comp[i] == hi) nhi++; }
  for (int i = 0; i < N; i++) if (r->comp[i] == hi) r->comp[i] = lo;
  *united = 1;
  *bigger = (nlo > 1 || nhi > 1);
}

static void apply_and_recurse(Dsu s, Ref r, Op op, int depth);

static void expand(const Dsu* s, const Ref* r, int depth, int shard, int nshards) {
  if (depth == 0) return;
  int idx = 0;
  for (int a = -1; a < N; a++)
    for (int b = -1; b < N; b++) {
      if (a == -1 && b == -1) continue;
      if (nshards > 0 && (idx++ % nshards) != shard) continue;
      Op op = {0, a, b};
      apply_and_recurse(*s, *r, op, depth);
    }
  for (int t = 0; t < N; t++) {
    if (r->comp[t] < 0) continue;   // mj_dsuRoot requires parent[tree] >= 0
    if (nshards > 0 && (idx++ % nshards) != shard) continue;
    Op op = {1, t, 0};
    apply_and_recurse(*s, *r, op, depth);
  }
}

static void apply_and_recurse(Dsu s, Ref r, Op op, int depth) {
  hist[nhist++] = op;
  evals++;
  int united = 0, bigger = 0;
  if (op.op == 0) {
    mj_dsuMerge(s.parent, op.a, op.b);
    ref_merge(&r, op.a, op.b, &united, &bigger);
  } else {
    int root = mj_dsuRoot(s.parent, op.a);
    if (root != r.comp[op.a]) fail("mj_dsuRoot returned a wrong root (in sequence)");
  }
  if (united && bigger) {
    nontrivial++;
    if (nsample < 2 && nhist >= 3) { nsample++; print_hist("SAMPLE", "dsu"); }
  }
  long f0 = failures;
  check_state(&s, &r);
  if (failures == f0) expand(&s, &r, depth - 1, 0, 0);   // stop below a failing prefix (minimal counterexample)
  nhist--;
}

static void run_dsu(int n, int depth, int shard, int nshards) {
  N = n;
  Dsu s; Ref r;
  dsu_init(&s);
  for (int i = 0; i < NMAX; i++) r.comp[i] = -1;
  if (shard == 0) { evals++; check_state(&s, &r); }
  expand(&s, &r, depth, shard, nshards);
}

// (-1,-1) merge: documented SHOULD NOT OCCUR -> mjERROR; the forest must be left untouched
static void run_err(int n) {
  N = n;
  for (int a1 = -1; a1 < N; a1++) for (int b1 = -1; b1 < N; b1++) for (int a2 = -1; a2 < N; a2++) for (int b2 = -1; b2 < N; b2++) {
    Dsu s; dsu_init(&s);
    nhist = 0;
    if (!(a1 == -1 && b1 == -1)) { mj_dsuMerge(s.parent, a1, b1); hist[nhist++] = (Op){0, a1, b1}; }
    if (!(a2 == -1 && b2 == -1)) { mj_dsuMerge(s.parent, a2, b2); hist[nhist++] = (Op){0, a2, b2}; }
    Dsu before = s;
    evals++;
    int raised = 0;
    in_guard = 1;
    if (setjmp(jb) == 0) mj_dsuMerge(s.parent, -1, -1); else raised = 1;
    in_guard = 0;
    hist[nhist++] = (Op){0, -1, -1};
    if (!raised) fail("mj_dsuMerge(-1,-1) did not raise the documented error");
    else nontrivial++;
    if (memcmp(&before, &s, sizeof(s))) fail("mj_dsuMerge(-1,-1) modified the forest");
  }
}

// ------------------------------------------------------------------ flood fill
static void run_flood(int nmax) {
  for (int n = 0; n <= nmax; n++) {
    int npair = n * (n - 1) / 2;
    for (long g = 0; g < (1L << npair); g++) for (int loops = 0; loops < (1 << n); loops++) {
      int adj[NMAX][NMAX] = {{0}};
      int k = 0;
      for (int i = 0; i < n; i++) for (int j = i + 1; j < n; j++, k++) adj[i][j] = adj[j][i] = (g >> k) & 1;
      for (int i = 0; i < n; i++) adj[i][i] = (loops >> i) & 1;
      // reference: vertices without any entry -> -1, components numbered in ascending order of smallest vertex
      int ref[NMAX], nref = 0;
      for (int i = 0; i < n; i++) ref[i] = -1;
      for (int i = 0; i < n; i++) {
        int deg = 0;
        for (int j = 0; j < n; j++) deg += adj[i][j];
        if (!deg || ref[i] != -1) continue;
        ref[i] = nref;
        for (int changed = 1; changed;) {
          changed = 0;
          for (int u = 0; u < n; u++) if (ref[u] == nref) for (int v = 0; v < n; v++)
            if (adj[u][v] && ref[v] == -1) { ref[v] = nref; changed = 1; }
        }
        nref++;
      }
      for (int enc = 0; enc < 4; enc++) {
        int rownnz[NMAX + 1], rowadr[NMAX + 1], colind[4 * NMAX * NMAX + 8], nnz = 0;
        for (int i = 0; i < n; i++) {
          rowadr[i] = nnz;
          int row[NMAX], m = 0;
          for (int j = 0; j < n; j++) if (adj[i][j]) row[m++] = j;
          if (enc == 0) for (int t = 0; t < m; t++) colind[nnz++] = row[t];
          else if (enc == 1) for (int t = m - 1; t >= 0; t--) colind[nnz++] = row[t];
          else if (enc == 2) for (int t = 0; t < m; t++) { colind[nnz++] = row[t]; colind[nnz++] = row[t]; }
          else { for (int t = 0; t < m; t++) colind[nnz++] = row[(t + 1 + i) % m]; if (m) colind[nnz++] = row[0]; }
          rownnz[i] = nnz - rowadr[i];
        }
        struct { int pad0[PAD]; int island[NMAX]; int pad1[PAD]; } out;
        for (int i = 0; i < PAD; i++) out.pad0[i] = out.pad1[i] = CANARY;
        for (int i = 0; i < NMAX; i++) out.island[i] = CANARY;
        int* stack = (int*)malloc(sizeof(int) * (nnz + 2 * PAD));
        for (int i = 0; i < nnz + 2 * PAD; i++) stack[i] = CANARY;
        int nisl = mj_floodFill(out.island, n, rownnz, rowadr, colind, stack + PAD);
        evals++;
        int ok = nisl == nref;
        for (int i = 0; i < n && ok; i++) ok = out.island[i] == ref[i];
        for (int i = n; i < NMAX && ok; i++) ok = out.island[i] == CANARY;
        for (int i = 0; i < PAD && ok; i++)
          ok = out.pad0[i] == CANARY && out.pad1[i] == CANARY && stack[i] == CANARY && stack[PAD + nnz + i] == CANARY;
        free(stack);
        if (nref >= 2 || (nref == 1 && n >= 4)) nontrivial++;
        if (!ok && failures++ < 5) {
          printf("FAIL floodfill : n=%d graph=%ld loops=%d enc=%d\n", n, g, loops, enc);
        }
        if (ok && nsample < 1 && n == 5 && nref == 2 && enc == 3) {
          nsample++;
          printf("SAMPLE floodfill n=%d graph=%ld loops=%d enc=%d nisland=%d\n", n, g, loops, enc, nisl);
        }
      }
    }
  }
}

int main(int argc, char** argv) {
  mju_user_error = on_error;
  if (argc >= 6 && !strcmp(argv[1], "dsu")) run_dsu(atoi(argv[2]), atoi(argv[3]), atoi(argv[4]), atoi(argv[5]));
  else if (argc >= 3 && !strcmp(argv[1], "err")) run_err(atoi(argv[2]));
  else if (argc >= 3 && !strcmp(argv[1], "flood")) run_flood(atoi(argv[2]));
  else { fprintf(stderr, "usage\n"); return 2; }
  printf("STATS %ld %ld %ld\n", evals, nontrivial, failures);
  return 0;
}
