// C19 driver: stack / arena allocator of mjData.
//   seq <depth> <shard> <nshards>   : all well-nested histories of that depth over the op alphabet, shadow interval model
//   conc explore <scenario> <bound> : concurrent reservations under the thread lock (engine_memory.c compiled with the
//                                     scheduler hook for mj_atomic_add_size_t), all interleavings
#include <cstdint>
#include <cstdio>
#include <cstdlib>
#include <cstring>
#include <string>
#include <vector>

#include <mujoco/mujoco.h>
#include "engine/engine_memory.h"
#include "support.h"
#ifdef C19_SCHED
#include "vsched/vsched.h"
#endif

static mjModel* g_m = nullptr;

struct Op { char kind; size_t size; size_t align; };   // kind: 'm' mark, 'f' free, 's' stack alloc, 'a' arena alloc
struct Block { uintptr_t lo, hi; char kind; int frame; };

static std::vector<Op> make_alphabet(size_t cap) {
  std::vector<Op> ops;
  ops.push_back({'m', 0, 0});
  ops.push_back({'f', 0, 0});
  const size_t sizes[] = {0, 1, 8, 9, 64, cap / 2, cap - 8, cap, cap + 1, SIZE_MAX / 2, SIZE_MAX - 63, SIZE_MAX - 7, SIZE_MAX - 3, SIZE_MAX};
  const size_t aligns[] = {1, 8, 64};
  for (size_t s : sizes) for (size_t a : aligns) ops.push_back({'s', s, a});
  for (size_t s : sizes) for (size_t a : aligns) ops.push_back({'a', s, a});
  return ops;
}

static long g_hist = 0, g_nontrivial = 0, g_fail = 0, g_errors = 0, g_nulls = 0;

static void report(const char* what, const std::vector<int>& h, const std::vector<Op>& ops) {
  if (g_fail++ < 2000) {
    std::printf("FAIL %s :", what);
    for (int i : h) std::printf(" %c(%zu,%zu)", ops[i].kind, ops[i].size, ops[i].align);
    std::printf("\n");
  }
}

// replay one history on a pristine mjData; returns false if a violation was reported
static bool run_history(mjData* d, const std::vector<int>& h, const std::vector<Op>& ops) {
  d->pstack = 0; d->pbase = 0; d->parena = 0; d->threadlock = 0;
  const uintptr_t lo = (uintptr_t)d->arena, hi = lo + d->narena;
  std::vector<Block> live;
  struct Frame { size_t pstack, pbase; };
  std::vector<Frame> frames;
  int nlive_stack = 0;
  for (size_t step = 0; step < h.size(); step++) {
    const Op& op = ops[h[step]];
    if (op.kind == 'm') {
      Frame f{d->pstack, d->pbase};
      try { mj_markStack(d); } catch (const VgError&) { g_errors++; return true; }
      frames.push_back(f);
      // the frame record lives in stack memory at d->pbase
      uintptr_t fb = (uintptr_t)d->pbase;
      if (fb < lo + d->parena || fb + 3 * sizeof(size_t) > hi) { report("mark frame outside the stack region", h, ops); return false; }
      for (auto& b : live) if (fb < b.hi && b.lo < fb + 3 * sizeof(size_t)) { report("mark frame overlaps a live block", h, ops); return false; }
      live.push_back({fb, fb + 3 * sizeof(size_t), 'F', (int)frames.size()});
    } else if (op.kind == 'f') {
      if (frames.empty()) continue;   // only well-nested histories: free without mark is skipped
      mj_freeStack(d);
      Frame f = frames.back();
      frames.pop_back();
      if (d->pstack != f.pstack || d->pbase != f.pbase) { report("free did not restore the marked stack pointer", h, ops); return false; }
      int depth = (int)frames.size() + 1;
      for (size_t i = live.size(); i-- > 0;) if (live[i].kind != 'A' && live[i].frame >= depth) live.erase(live.begin() + i);
    } else {
      void* p = nullptr;
      bool err = false;
      size_t parena0 = d->parena, pstack0 = d->pstack;
      try {
        p = op.kind == 's' ? mj_stackAllocByte(d, op.size, op.align) : mj_arenaAllocByte(d, op.size, op.align);
      } catch (const VgError&) { err = true; g_errors++; }
      if (err) {
        if (op.kind == 'a') { report("arena exhaustion raised an error instead of returning NULL", h, ops); return false; }
        // documented: stack exhaustion is an error; mjData is then discarded
        return true;
      }
      if (!p) {
        g_nulls++;
        if (op.kind == 's' && op.size != 0) { report("stack allocation returned NULL without an error", h, ops); return false; }
        if (d->parena != parena0 || d->pstack != pstack0) { report("failed allocation changed the pointers", h, ops); return false; }
        continue;
      }
      uintptr_t a = (uintptr_t)p;
      if (op.size == 0) continue;
      if (a % op.align) { report("returned block is misaligned", h, ops); return false; }
      if (a < lo || a > hi || op.size > hi - a) { report("returned block does not lie inside the arena (wrapped / out of range)", h, ops); return false; }
      uintptr_t b = a + op.size;
      for (auto& blk : live) if (a < blk.hi && blk.lo < b) { report("returned block overlaps a live block", h, ops); return false; }
      // stack blocks must stay above the arena region, arena blocks below the stack region
      if (op.kind == 's' && a < lo + d->parena) { report("stack block overlaps the arena region", h, ops); return false; }
      if (op.kind == 'a' && b > hi - d->pstack) { report("arena block overlaps the stack region", h, ops); return false; }
      live.push_back({a, b, op.kind == 'a' ? 'A' : 'S', (int)frames.size()});
      if (op.kind == 's') nlive_stack++;
    }
  }
  if (live.size() >= 3) g_nontrivial++;
  return true;
}

#ifdef C19_SCHED
// ------------------------------------------------------------------ concurrent reservations under the thread lock
extern "C" size_t vsched_fetch_add_size(size_t* p, size_t v) {
  if (!vsched::active()) { size_t o = *p; *p += v; return o; }
  vsched::point(vsched::OP_RMW, p, (long long)v);
  size_t o = *p; *p += v;
  vsched::note_write(p);
  vsched::after(p, (long long)o);
  return o;
}

static std::vector<std::vector<size_t>> g_scripts;   // per thread: list of sizes
static mjData* g_d = nullptr;
static size_t g_align = 8;

static void conc_body() {
  mjData* d = g_d;
  d->pstack = 0; d->pbase = 0; d->parena = 0;
  mj_markStack(d);
  void* pre = mj_stackAllocByte(d, 40, 8);       // a live block from before the lock
  size_t pstack_locked = 0;
  d->threadlock = 1;
  pstack_locked = d->pstack;
  struct Res { uintptr_t a; size_t size; bool err; };
  std::vector<std::vector<Res>> res(g_scripts.size());
  std::vector<vsched::thread> th;
  const uintptr_t lo = (uintptr_t)d->arena, hi = lo + d->narena;
  for (size_t t = 0; t < g_scripts.size(); t++) {
    th.emplace_back([&, t] {
      for (size_t s : g_scripts[t]) {
        Res r{0, s, false};
        try { r.a = (uintptr_t)mj_stackAllocByte(d, s, g_align); } catch (const VgError&) { r.err = true; }
        res[t].push_back(r);
        if (r.err) break;     // the documented contract: error is fatal for that caller
      }
    });
  }
  for (auto& t : th) t.join();
  d->threadlock = 0;
  std::vector<Block> live;
  live.push_back({(uintptr_t)pre, (uintptr_t)pre + 40, 'S', 0});
  live.push_back({(uintptr_t)d->pbase, (uintptr_t)d->pbase + 3 * sizeof(size_t), 'F', 0});
  size_t cap = d->narena;
  for (size_t t = 0; t < res.size(); t++) for (auto& r : res[t]) {
    vsched::log_event("res", (long long)t, r.err ? -1 : (long long)(hi - r.a));
    if (r.err) {
      // an overflow report is wrong only if ALL requests of the scenario together would have fitted
      size_t demand = pstack_locked;
      bool huge = false;
      for (auto& sc : g_scripts) for (size_t q : sc) { if (q > cap) huge = true; else demand += q + g_align - 1; }
      if (!huge && r.size <= cap && demand <= cap) vsched::fail("a reservation reported stack overflow although all requests together fit");
      continue;
    }
    if (r.size == 0) continue;
    if (!r.a) { vsched::fail("reservation returned NULL without an error"); continue; }
    if (r.a % g_align) vsched::fail("concurrent reservation misaligned");
    if (r.a < lo || r.a > hi || r.size > hi - r.a) vsched::fail("concurrent reservation outside the arena");
    for (auto& b : live) if (r.a < b.hi && b.lo < r.a + r.size) vsched::fail("concurrent reservations overlap (or overlap a block reserved before the lock)");
    live.push_back({r.a, r.a + r.size, 'S', 1});
  }
  (void)pstack_locked;
  mj_freeStack(d);
  if (d->pstack != 0 || d->pbase != 0) vsched::fail("stack pointer not restored after the locked section");
}
#endif

int main(int argc, char** argv) {
  if (argc < 2) return 2;
  vg_install_handlers();
  char err[1000];
  // a tiny model; its arena is shrunk to a 1 KB window so that cap-relative sizes are small
  static const char xml[] = "<mujoco><size memory='4K'/><worldbody><body><joint type='slide'/><geom size='.1'/></body></worldbody></mujoco>";
  mjSpec* s = mj_parseXMLString(xml, nullptr, err, sizeof(err));
  if (!s) { std::fprintf(stderr, "parse: %s\n", err); return 2; }
  g_m = mj_compile(s, nullptr);
  if (!g_m) { std::fprintf(stderr, "compile failed\n"); return 2; }
  mjData* d = mj_makeData(g_m);
  const size_t cap = 1024;
  if ((size_t)d->narena < cap) { std::fprintf(stderr, "arena too small: %zu\n", (size_t)d->narena); return 2; }
  d->narena = cap;    // use only the first 1 KB of the allocated arena
  std::string mode = argv[1];
  if (mode == "seq") {
    int depth = std::atoi(argv[2]);
    long shard = std::atol(argv[3]), nshards = std::atol(argv[4]);
    std::vector<Op> ops = make_alphabet(cap);
    const int A = (int)ops.size();
    std::vector<int> h(depth, 0);
    long total = 1;
    for (int i = 0; i < depth; i++) total *= A;
    for (long code = shard; code < total; code += nshards) {
      long c = code;
      for (int i = 0; i < depth; i++) { h[i] = (int)(c % A); c /= A; }
      g_hist++;
      run_history(d, h, ops);
    }
    std::printf("STATS %ld %ld %ld %ld %ld alphabet=%d\n", g_hist, g_nontrivial, g_fail, g_errors, g_nulls, A);
    return g_fail ? 1 : 0;
  }
#ifdef C19_SCHED
  if (mode == "conc") {
    // scenario: sizes per thread, threads separated by '/', e.g. "16,24/8/2000"
    std::string sc = argv[3];
    size_t pos = 0;
    g_scripts.emplace_back();
    std::string cur;
    for (char ch : sc + "/") {
      if (ch == ',' || ch == '/') {
        if (!cur.empty()) g_scripts.back().push_back((size_t)std::strtoull(cur.c_str(), nullptr, 10));
        cur.clear();
        if (ch == '/') g_scripts.emplace_back();
      } else cur += ch;
    }
    if (g_scripts.back().empty()) g_scripts.pop_back();
    (void)pos;
    g_d = d;
    g_align = (size_t)std::atol(argv[5]);
    vsched::Options opt;
    if (std::string(argv[2]) == "explore") {
      opt.max_preemptions = std::atoi(argv[4]);
      vsched::Result r = vsched::explore(conc_body, opt);
      std::printf("%s\n", vsched::result_json(r).c_str());
      return r.failures ? 1 : 0;
    }
    bool failed = false; std::string failure;
    std::string out = vsched::replay(conc_body, opt, argc > 6 ? argv[6] : "", &failed, &failure);
    std::printf("%s\n%s\n", failure.c_str(), out.c_str());
    return failed ? 1 : 0;
  }
#endif
  return 2;
}
