// C23: exported wrappers around the static-inline sparse helpers of engine_util_sparse.h (and their AVX variants
// from engine_util_sparse_avx.h when mjUSEPLATFORMSIMD is defined), so that Python can drive them through ctypes.
// The function bodies are the tree's: this TU only forwards.
#include <mujoco/mjtype.h>

#include "engine/engine_util_blas.h"
#include "engine/engine_util_sparse.h"

#ifdef __cplusplus
extern "C" {
#endif

#define C23API __attribute__((visibility("default")))

// 1 if the AVX variants are compiled in
C23API int c23_uses_avx(void) {
#ifdef mjUSEAVX
  return 1;
#else
  return 0;
#endif
}

C23API mjtNum c23_dotSparse(const mjtNum* vec1, const mjtNum* vec2, int nnz1, const int* ind1) {
  return mju_dotSparse(vec1, vec2, nnz1, ind1);
}

C23API int c23_compare(const int* vec1, const int* vec2, int n) {
  return mju_compare(vec1, vec2, n);
}

C23API int c23_mergeSorted(int* merge, const int* chain1, int n1, const int* chain2, int n2) {
  return mj_mergeSorted(merge, chain1, n1, chain2, n2);
}

C23API void c23_addToSclScl(mjtNum* res, const mjtNum* vec, mjtNum scl1, mjtNum scl2, int n) {
  mju_addToSclScl(res, vec, scl1, scl2, n);
}

C23API int c23_combineSparse(mjtNum* dst, const mjtNum* src, mjtNum a, mjtNum b,
                             int dst_nnz, int src_nnz, int* dst_ind, const int* src_ind) {
  return mju_combineSparse(dst, src, a, b, dst_nnz, src_nnz, dst_ind, src_ind);
}

#ifdef __cplusplus
}
#endif
