// C33 driver (E3 part): mj_compile with the multithreaded asset compiler under the controlled scheduler.
// user_threadpool.cc, user_model.cc and user_cache.cc are compiled UNMODIFIED with the vsched prelude
// (std::thread / mutex / condition_variable doubles) and linked statically with the rest of the tree.
// Every interleaving (<= bound preemptions) of the compiler pool's mutex / condition-variable / cache-mutex
// operations must produce a model bit-identical to the serial compile, the same warnings, and no deadlock.
//
// usage: c33_compile explore <model.xml> <hw_concurrency> <bound> <shard> <nshards> [max_exec]
//        c33_compile replay  <model.xml> <hw_concurrency> <schedule>
#include <cstdio>
#include <cstdlib>
#include <cstring>
#include <fstream>
#include <sstream>
#include <string>

#include <mujoco/mujoco.h>
#include "support.h"
#include "vsched/vsched.h"

static std::string g_xml;
static mjModel* g_ref = nullptr;
static std::string g_refwarn;

static mjModel* compile_once(std::string* warn, std::string* error) {
  char err[2000] = "";
  mjSpec* s = mj_parseXMLString(g_xml.c_str(), nullptr, err, sizeof(err));
  if (!s) { *error = std::string("parse: ") + err; return nullptr; }
  mjModel* m = mj_compile(s, nullptr);
  if (!m) *error = std::string("compile: ") + mjs_getError(s);
  else if (mjs_isWarning(s)) *warn = mjs_getError(s);
  mj_deleteSpec(s);
  return m;
}

static void body() {
  std::string warn, error;
  mjModel* m = nullptr;
  try {
    m = compile_once(&warn, &error);
  } catch (const VgError& e) {
    vsched::fail((std::string("mju_error during threaded compile: ") + e.msg).c_str());
  }
  if (!m) { vsched::fail(("threaded compile failed: " + error).c_str()); return; }
  char name[128] = "";
  if (vg_model_diff(m, g_ref, name, sizeof(name))) {
    vsched::fail((std::string("threaded compile differs from the serial compile in model field ") + name).c_str());
  }
  if (warn != g_refwarn) vsched::fail("compile warnings differ between the threaded and the serial compile");
  vsched::log_event("nmesh_ntex", m->nmesh, m->ntex);
  mj_deleteModel(m);
}

int main(int argc, char** argv) {
  if (argc < 4) return 2;
  vg_install_handlers();
  std::ifstream f(argv[2]);
  std::stringstream ss; ss << f.rdbuf();
  g_xml = ss.str();
  // reference: serial compile (usethread="false" injected into <compiler>)
  {
    std::string serial = g_xml;
    size_t p = serial.find("<compiler");
    if (p == std::string::npos) { std::fprintf(stderr, "model needs a <compiler> element\n"); return 2; }
    serial.insert(p + 9, " usethread=\"false\"");
    std::string keep = g_xml;
    g_xml = serial;
    std::string error;
    g_ref = compile_once(&g_refwarn, &error);
    g_xml = keep;
    if (!g_ref) { std::fprintf(stderr, "reference compile failed: %s\n", error.c_str()); return 2; }
  }
  mj_setCacheCapacity(mj_getCache(), 0);   // deterministic: no cross-execution asset cache hits
  vsched::Options opt;
  opt.hw_concurrency = std::atoi(argv[3]);
  std::string mode = argv[1];
  if (mode == "explore") {
    opt.max_preemptions = std::atoi(argv[4]);
    opt.shard = std::atoi(argv[5]);
    opt.nshards = std::atoi(argv[6]);
    if (argc > 7) opt.max_executions = std::atol(argv[7]);
    vsched::Result r = vsched::explore(body, opt);
    std::printf("%s\n", vsched::result_json(r).c_str());
    return r.failures ? 1 : 0;
  }
  if (mode == "replay") {
    bool failed = false; std::string failure;
    std::string out = vsched::replay(body, opt, argc > 4 ? argv[4] : "", &failed, &failure);
    std::printf("%s\n%s\n", failure.c_str(), out.c_str());
    return failed ? 1 : 0;
  }
  return 2;
}
