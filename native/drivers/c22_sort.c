// C22 driver: exhaustive enumeration of small arrays for the tree's sorting macros.
// usage: c22_sort <mode> <maxlen> <shard> <nshards>
//   mode 2|3 : mjSORT with the run size re-defined to 2|3, all arrays len<=maxlen over keys {0,1,2}
//   mode 32  : mjSORT with production run size, lengths 0..maxlen over pattern families
//   mode 100 : mjPARTIAL_SORT, all arrays len<=maxlen over {0,1,2}, all k in [0,n+1]
//   mode 200 : mju_insertionSort / mju_insertionSortInt, all arrays len<=maxlen over {0,1,2}
// prints: evaluations nontrivial failures ; on failure one line "FAIL <mode> n k : a0 a1 ..."
#include <stdio.h>
#include <stdlib.h>
#include <string.h>

#include <mujoco/mujoco.h>
#include "engine/engine_sort.h"

typedef struct { int key; int seq; } Elem;
static long ncmp;
static inline int cmp_elem(const Elem* a, const Elem* b, void* ctx) {
  ncmp++;
  return (a->key > b->key) - (a->key < b->key);
}

mjSORT(sort32, Elem, cmp_elem);
#undef _mjRUNSIZE
#define _mjRUNSIZE 2
mjSORT(sort2, Elem, cmp_elem);
#undef _mjRUNSIZE
#define _mjRUNSIZE 3
mjSORT(sort3, Elem, cmp_elem);
#undef _mjRUNSIZE
#define _mjRUNSIZE 32
mjPARTIAL_SORT(psort, Elem, cmp_elem);

static long evals = 0, nontrivial = 0, failures = 0; static int nsample = 0;
#define CANARY 0x5a5a5a5a

static void report(int mode, int n, int k, const int* keys) {
  if (failures++ < 5) {
    printf("FAIL %d %d %d :", mode, n, k);
    for (int i = 0; i < n; i++) printf(" %d", keys[i]);
    printf("\n");
  }
}

// check stable sort of keys[0..n)
static void check_sort(int mode, int n, const int* keys) {
  static Elem arr[4096 + 2], buf[4096 + 2];
  for (int i = 0; i < n; i++) { arr[i + 1].key = keys[i]; arr[i + 1].seq = i; }
  arr[0].key = arr[n + 1].key = CANARY; buf[0].key = buf[n + 1].key = CANARY;
  if (mode == 2) sort2(arr + 1, buf + 1, n, NULL);
  else if (mode == 3) sort3(arr + 1, buf + 1, n, NULL);
  else sort32(arr + 1, buf + 1, n, NULL);
  evals++;
  int ok = arr[0].key == CANARY && arr[n + 1].key == CANARY && buf[0].key == CANARY && buf[n + 1].key == CANARY;
  // reference: counting sort by key keeps input order within a key
  int pos = 1, dup = 0, sorted = 1;
  for (int i = 1; i < n; i++) if (keys[i] < keys[i - 1]) sorted = 0;
  int minkey = 0, maxkey = 0;
  for (int i = 0; i < n; i++) { if (keys[i] < minkey) minkey = keys[i]; if (keys[i] > maxkey) maxkey = keys[i]; }
  for (int key = minkey; key <= maxkey && ok; key++) {
    int cnt = 0;
    for (int i = 0; i < n; i++) if (keys[i] == key) {
      if (arr[pos].key != key || arr[pos].seq != i) { ok = 0; break; }
      pos++; cnt++;
    }
    if (cnt > 1) dup = 1;
  }
  if (ok && pos != n + 1) ok = 0;
  if (dup && !sorted) {
    nontrivial++;
    if (nsample < 2 && n >= 5) { nsample++; printf("SAMPLE sort runsize=%d n=%d keys=", mode, n); for (int i = 0; i < n; i++) printf("%d", keys[i] % 10); printf("\n"); }
  }
  if (!ok) report(mode, n, -1, keys);
}

static void check_partial(int n, int k, const int* keys) {
  static Elem arr[64], buf[64], ref[64];
  for (int i = 0; i < n; i++) { arr[i + 1].key = keys[i]; arr[i + 1].seq = i; ref[i] = arr[i + 1]; }
  arr[0].key = arr[n + 1].key = CANARY;
  int kb = k > 0 ? k : 0;
  buf[0].key = buf[kb + 1].key = CANARY;
  psort(arr + 1, buf + 1, n, k, NULL);
  evals++;
  int ok = arr[0].key == CANARY && arr[n + 1].key == CANARY && buf[0].key == CANARY && buf[kb + 1].key == CANARY;
  if (k <= 0 || n < k) {
    // documented no-op
    for (int i = 0; i < n && ok; i++) if (arr[i + 1].key != ref[i].key || arr[i + 1].seq != ref[i].seq) ok = 0;
  } else {
    // first k are the k smallest keys in ascending order (selection is not required to be stable)
    int sortedkeys[64];
    for (int i = 0; i < n; i++) sortedkeys[i] = keys[i];
    for (int i = 1; i < n; i++) { int x = sortedkeys[i], j = i - 1; while (j >= 0 && sortedkeys[j] > x) { sortedkeys[j + 1] = sortedkeys[j]; j--; } sortedkeys[j + 1] = x; }
    int used[64] = {0};
    for (int i = 0; i < k && ok; i++) {
      if (arr[i + 1].key != sortedkeys[i]) ok = 0;
      int s = arr[i + 1].seq;
      if (s < 0 || s >= n || used[s] || keys[s] != arr[i + 1].key) ok = 0; else used[s] = 1;
    }
    if (k < n && k > 1) nontrivial++;
  }
  if (!ok) report(100, n, k, keys);
}

static void check_insertion(int n, const int* keys) {
  mjtNum a[64]; int b[64];
  for (int i = 0; i < n; i++) { a[i + 1] = keys[i]; b[i + 1] = keys[i]; }
  a[0] = a[n + 1] = -77; b[0] = b[n + 1] = -77;
  mju_insertionSort(a + 1, n); mju_insertionSortInt(b + 1, n);
  evals += 2;
  int cnt[3] = {0, 0, 0}, ok = a[0] == -77 && a[n + 1] == -77 && b[0] == -77 && b[n + 1] == -77;
  for (int i = 0; i < n; i++) cnt[keys[i]]++;
  int pos = 1, sorted = 1;
  for (int i = 1; i < n; i++) if (keys[i] < keys[i - 1]) sorted = 0;
  for (int key = 0; key < 3; key++) for (int c = 0; c < cnt[key]; c++, pos++) if (a[pos] != key || b[pos] != key) ok = 0;
  if (!sorted) nontrivial += 2;
  if (!ok) report(200, n, -1, keys);
}

int main(int argc, char** argv) {
  int mode = atoi(argv[1]), maxlen = atoi(argv[2]), shard = atoi(argv[3]), nshards = atoi(argv[4]);
  int keys[4096];
  if (mode == 2 || mode == 3 || mode == 100 || mode == 200) {
    long idx = 0;
    for (int n = 0; n <= maxlen; n++) {
      long total = 1; for (int i = 0; i < n; i++) total *= 3;
      for (long code = 0; code < total; code++, idx++) {
        if (idx % nshards != shard) continue;
        long c = code;
        for (int i = 0; i < n; i++) { keys[i] = c % 3; c /= 3; }
        if (mode == 100) { for (int k = -1; k <= n + 1; k++) check_partial(n, k, keys); }
        else if (mode == 200) check_insertion(n, keys);
        else check_sort(mode, n, keys);
      }
    }
  } else {
    long idx = 0;
    for (int n = 0; n <= maxlen; n++) {
      if (idx++ % nshards != shard) continue;
      // sorted, reversed, constant
      for (int i = 0; i < n; i++) keys[i] = i / 3; check_sort(32, n, keys);
      for (int i = 0; i < n; i++) keys[i] = (n - i) / 3; check_sort(32, n, keys);
      for (int i = 0; i < n; i++) keys[i] = 1; check_sort(32, n, keys);
      // saw-tooth of every period <= 8, ascending and descending teeth
      for (int p = 1; p <= 8; p++) {
        for (int i = 0; i < n; i++) keys[i] = i % p; check_sort(32, n, keys);
        for (int i = 0; i < n; i++) keys[i] = p - i % p; check_sort(32, n, keys);
      }
      // two sorted runs with every split point (duplicates across the runs)
      for (int s = 0; s <= n; s++) {
        for (int i = 0; i < n; i++) keys[i] = i < s ? i / 2 : (i - s) / 2; check_sort(32, n, keys);
      }
      // every block of 32 reversed internally, blocks descending
      for (int i = 0; i < n; i++) keys[i] = (n / 32 - i / 32) * 4 + (3 - (i % 32) / 8); check_sort(32, n, keys);
    }
  }
  printf("STATS %ld %ld %ld %ld\n", evals, nontrivial, failures, ncmp);
  return 0;
}
