// C01 / C04 / C26 helper (separate shared object): per-field bit-exact comparison of two mjData.
//
// vg_data_diff (support.cc) reports only the first differing field; the differential oracles of
// C01/C04/C26 need the complete set of differing fields (to tell an output that was written from
// a field that the call did not touch).  Field enumeration is support.cc's compiler-generated
// reflection (vg_data_field), so nothing is transcribed here; which fields are ignored is decided
// by the Python side.
#include <cstddef>
#include <cstdint>
#include <cstring>

#include "support.h"

static bool contact_eq(const mjContact* a, const mjContact* b, long long n) {
  for (long long i = 0; i < n; i++) {
    const mjContact& x = a[i];
    const mjContact& y = b[i];
#define C(fld) if (memcmp(&x.fld, &y.fld, sizeof(x.fld))) return false;
    C(dist) C(pos) C(frame) C(includemargin) C(friction) C(solref) C(solreffriction) C(solimp) C(adhesion)
    C(mu) C(H) C(dim) C(geom1) C(geom2) C(geom) C(flex) C(elem) C(vert) C(exclude) C(efc_address)
#undef C
  }
  return true;
}

static bool field_differs(const VgField& fa, const VgField& fb) {
  // arena arrays that are unallocated (NULL) in both objects are equal whatever their nominal size
  // (mj_clearEfc leaves e.g. nidof stale; the scalar itself is compared separately)
  if (fa.kind == 11 && fa.ptr == nullptr && fb.ptr == nullptr) return false;
  if (fa.nrow != fb.nrow || fa.ncol != fb.ncol) return true;
  long long n = fa.nrow * fa.ncol;
  if ((fa.ptr == nullptr) != (fb.ptr == nullptr)) return n != 0;
  if (!fa.ptr || n <= 0) return false;
  if (!strcmp(fa.ctype, "mjContact")) return !contact_eq((const mjContact*)fa.ptr, (const mjContact*)fb.ptr, fa.nrow);
  if (!strcmp(fa.ctype, "mjTimerStat")) {
    const mjTimerStat* x = (const mjTimerStat*)fa.ptr;
    const mjTimerStat* y = (const mjTimerStat*)fb.ptr;
    for (long long k = 0; k < n; k++) {
      if (memcmp(&x[k].duration, &y[k].duration, sizeof(mjtNum)) || x[k].number != y[k].number) return true;
    }
    return false;
  }
  return memcmp(fa.ptr, fb.ptr, (size_t)(n * fa.elsize)) != 0;
}

// out[i] = 1 iff field i (index of vg_data_field) differs between a and b; returns the number of
// differing fields, or -1 if nout is too small.
extern "C" int c01_diff_all(const mjModel* m, const mjData* a, const mjData* b, unsigned char* out, int nout) {
  VgField fa, fb;
  int ndiff = 0;
  for (int i = 0; vg_data_field(m, a, i, &fa); i++) {
    if (i >= nout) return -1;
    vg_data_field(m, b, i, &fb);
    out[i] = field_differs(fa, fb) ? 1 : 0;
    ndiff += out[i];
  }
  return ndiff;
}

// number of bytes of field idx (0 if NULL/empty) and its address
extern "C" long long c01_field_bytes(const mjModel* m, const mjData* d, int idx, void** ptr) {
  VgField f;
  if (!vg_data_field(m, d, idx, &f)) return -1;
  long long n = f.nrow * f.ncol;
  if (!f.ptr || n <= 0) { *ptr = nullptr; return 0; }
  *ptr = f.ptr;
  return n * f.elsize;
}

// word-wise multiplicative hash (FNV-style mixing on 64-bit words; tail bytes one by one)
static inline uint64_t fnv(uint64_t h, const void* p, size_t n) {
  const unsigned char* c = (const unsigned char*)p;
  size_t i = 0;
  for (; i + 8 <= n; i += 8) {
    uint64_t w;
    memcpy(&w, c + i, 8);
    h = (h ^ w) * 0x9E3779B97F4A7C15ULL;
    h ^= h >> 29;
  }
  for (; i < n; i++) { h ^= c[i]; h *= 1099511628211ULL; }
  return h;
}

// FNV-1a hash over every field whose skip[i] == 0 (shape, NULL-ness, content; struct padding excluded)
extern "C" uint64_t c01_hash(const mjModel* m, const mjData* d, const unsigned char* skip, int nskip) {
  uint64_t h = 1469598103934665603ULL;
  VgField f;
  for (int i = 0; vg_data_field(m, d, i, &f); i++) {
    if (i < nskip && skip[i]) continue;
    long long n = f.nrow * f.ncol;
    h = fnv(h, &f.nrow, sizeof(f.nrow));
    unsigned char isnull = (f.ptr == nullptr);
    h = fnv(h, &isnull, 1);
    if (!f.ptr || n <= 0) continue;
    if (!strcmp(f.ctype, "mjContact")) {
      const mjContact* c = (const mjContact*)f.ptr;
      for (long long k = 0; k < f.nrow; k++) {
        h = fnv(h, &c[k].dist, offsetof(mjContact, dim) - offsetof(mjContact, dist));
        h = fnv(h, &c[k].dim, offsetof(mjContact, efc_address) + sizeof(int) - offsetof(mjContact, dim));
      }
    } else if (!strcmp(f.ctype, "mjTimerStat")) {
      const mjTimerStat* t = (const mjTimerStat*)f.ptr;
      for (long long k = 0; k < n; k++) { h = fnv(h, &t[k].duration, 8); h = fnv(h, &t[k].number, 4); }
    } else {
      h = fnv(h, f.ptr, (size_t)(n * f.elsize));
    }
  }
  return h;
}

// Fill the dead part of the arena/stack buffer with a byte pattern: the whole buffer if `full`
// (the next call recomputes the position stage and re-allocates every arena array), otherwise only
// the free region between the arena top and the (empty) stack.  Makes "allocated but never
// written" arena memory recognisable, and makes stale arena contents differ between two mjData.
// Returns the number of bytes filled, or -1 if the stack is in use.
extern "C" long long c01_poison_arena(mjData* d, int full, int byte) {
  if (d->pstack != 0) return -1;
  size_t start = full ? 0 : d->parena;
  if (start > d->narena) return -1;
  memset((char*)d->arena + start, byte, d->narena - start);
  return (long long)(d->narena - start);
}

// ---- whole-object snapshot and after-call classification (C01/C04 differential oracle) ----
// snapshot: bytes of every field, back to back; off[i] = offset in buf (-1: NULL/empty), len[i] = bytes.
// returns bytes used, or -(needed) if cap is too small.
extern "C" long long c01_snapshot(const mjModel* m, const mjData* d, unsigned char* buf, long long cap,
                                  long long* off, long long* len, int nfield) {
  VgField f;
  long long used = 0;
  for (int i = 0; vg_data_field(m, d, i, &f); i++) {
    if (i >= nfield) return -1;
    long long n = f.nrow * f.ncol;
    if (!f.ptr || n <= 0) { off[i] = -1; len[i] = 0; continue; }
    long long nb = n * f.elsize;
    if (used + nb > cap) return -(used + nb);
    memcpy(buf + used, f.ptr, (size_t)nb);
    off[i] = used; len[i] = nb;
    used += nb;
  }
  return used;
}

// After the same call was applied to A (donor) and B (receiver), classify every field:
//   0  bit-identical
//   1  differs, but every differing byte is either untouched by the call in BOTH objects (equal to its snapshot
//      taken before the call, same length) or -- arena arrays only -- still the arena poison of the respective
//      object in BOTH (allocated by the call, never written)
//   2  differs in a byte that the call wrote in at least one object (or in shape / NULL-ness)
// returns the number of fields classified 2.
extern "C" int c01_classify(const mjModel* m, const mjData* A, const mjData* B,
                            const unsigned char* snapA, const long long* offA, const long long* lenA,
                            const unsigned char* snapB, const long long* offB, const long long* lenB,
                            int poisonA, int poisonB, unsigned char* out, int nout) {
  VgField fa, fb;
  int nbad = 0;
  for (int i = 0; vg_data_field(m, A, i, &fa); i++) {
    if (i >= nout) return -1;
    vg_data_field(m, B, i, &fb);
    if (!field_differs(fa, fb)) { out[i] = 0; continue; }
    long long n = fa.nrow * fa.ncol;
    if (fa.nrow != fb.nrow || fa.ncol != fb.ncol || !fa.ptr || !fb.ptr || n <= 0) { out[i] = 2; nbad++; continue; }
    long long nb = n * fa.elsize;
    const unsigned char* a = (const unsigned char*)fa.ptr;
    const unsigned char* b = (const unsigned char*)fb.ptr;
    const unsigned char* sa = (offA[i] >= 0 && lenA[i] == nb) ? snapA + offA[i] : nullptr;
    const unsigned char* sb = (offB[i] >= 0 && lenB[i] == nb) ? snapB + offB[i] : nullptr;
    bool arena = fa.kind == 11;
    bool bad = false;
    for (long long k = 0; k < nb && !bad; k++) {
      if (a[k] == b[k]) continue;
      bool untouched = sa && sb && sa[k] == a[k] && sb[k] == b[k];
      bool poison = arena && a[k] == (unsigned char)poisonA && b[k] == (unsigned char)poisonB;
      if (!untouched && !poison) bad = true;
    }
    out[i] = bad ? 2 : 1;
    nbad += bad;
  }
  return nbad;
}

// overwrite every mjtNum buffer array (MJDATA_POINTERS) whose skip flag is 0 with recognisable finite garbage
extern "C" int c01_garbage(const mjModel* m, mjData* d, const unsigned char* skip, int nskip) {
  VgField f;
  int nf = 0;
  for (int i = 0; vg_data_field(m, d, i, &f); i++) {
    if (f.kind != 10 || strcmp(f.ctype, "mjtNum") || (i < nskip && skip[i])) continue;
    long long n = f.nrow * f.ncol;
    if (!f.ptr || n <= 0) continue;
    mjtNum* p = (mjtNum*)f.ptr;
    for (long long k = 0; k < n; k++) p[k] = -12345.678 + 0.001 * (double)k + (double)i;
    nf++;
  }
  return nf;
}
