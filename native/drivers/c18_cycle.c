// C18 driver: exhaustive enumeration for the pure core of sleeping (engine_sleep.h: mj_sleepCycle, mj_wakeIsland).
// usage: c18_cycle <ntree> <shard> <nshards>
//   every array tree_asleep[0..ntree) over values {-1, -3, -(1+mjMINAWAKE)} U {0..ntree-1}  ((3+n)^n arrays,
//   well-formed and malformed), x every tree index i in [-1, ntree] (two out-of-range values included):
//     mj_sleepCycle(a, n, i)   vs a bounded walk: smallest tree of the cycle through i, or -1
//     mj_wakeIsland(a, n, i, wakeval, NULL, 0) for wakeval in {-(1+mjMINAWAKE), -3, -1}
//        i awake            -> a[i] = min(wakeval, a[i]), nothing else changes, returns 0
//        i on a closed cycle -> exactly that cycle becomes wakeval, nothing else changes, returns the cycle length
//        i asleep but its walk never returns to i (malformed) -> must terminate, raise mju_error (documented
//                             SHOULD NOT OCCUR branch), never write outside the array
//        i out of range      -> mju_error, array untouched
//   An alarm() bounds every run (an endless loop kills the process, reported by the Python side).
// output: FAIL/SAMPLE lines and "STATS evaluations nontrivial failures wellformed malformed"
#include <setjmp.h>
#include <stdio.h>
#include <stdlib.h>
#include <string.h>
#include <unistd.h>

#include <mujoco/mujoco.h>
#include "engine/engine_sleep.h"

#define NMAX 7
#define PAD 8
#define CANARY 0x5a5a5a5a

static long evals = 0, nontrivial = 0, failures = 0, nwell = 0, nmal = 0;
static int nsample = 0;
static jmp_buf jb;
static int in_guard = 0;

static void on_error(const char* msg) {
  if (in_guard) longjmp(jb, 1);
  fprintf(stderr, "unexpected mju_error: %s\n", msg);
  exit(3);
}

static void report(const char* what, int n, const int* a, int i, int wakeval) {
  if (failures++ < 5) {
    printf("FAIL %s : n=%d i=%d wakeval=%d a=", what, n, i, wakeval);
    for (int k = 0; k < n; k++) printf("%d%s", a[k], k == n - 1 ? "" : ",");
    printf("\n");
  }
}

// bounded walk from i: returns cycle length if the walk returns to i through sleeping entries only, else 0
static int walk(const int* a, int n, int i, int* members, int* smallest) {
  if (i < 0 || i >= n || a[i] < 0) return 0;
  int cur = i, len = 0;
  *smallest = i;
  do {
    int next = a[cur];
    if (next < 0 || next >= n) return 0;
    members[len++] = cur;
    if (next < *smallest) *smallest = next;
    cur = next;
    if (len > n) return 0;
  } while (cur != i);
  return len;
}

int main(int argc, char** argv) {
  if (argc < 4) { fprintf(stderr, "usage\n"); return 2; }
  int n = atoi(argv[1]), shard = atoi(argv[2]), nshards = atoi(argv[3]);
  mju_user_error = on_error;
  alarm(120);
  const int kAwake = -(1 + mjMINAWAKE);
  int vals[3 + NMAX];
  vals[0] = -1; vals[1] = -3; vals[2] = kAwake;
  for (int k = 0; k < n; k++) vals[3 + k] = k;
  int nv = 3 + n;
  long total = 1;
  for (int k = 0; k < n; k++) total *= nv;
  const int wakevals[3] = {kAwake, -3, -1};

  for (long code = shard; code < total; code += nshards) {
    int a[NMAX];
    long c = code;
    for (int k = 0; k < n; k++) { a[k] = vals[c % nv]; c /= nv; }

    // well-formed: the sleeping set is mapped onto itself injectively
    int well = 1, indeg[NMAX] = {0}, nasleep = 0, ncyc = 0, maxlen = 0;
    for (int k = 0; k < n; k++) if (a[k] >= 0) { nasleep++; if (a[a[k]] < 0) well = 0; else indeg[a[k]]++; }
    for (int k = 0; k < n && well; k++) if (a[k] >= 0 && indeg[k] != 1) well = 0;
    if (well) nwell++; else nmal++;
    if (well) {
      for (int k = 0; k < n; k++) {
        int mem[NMAX + 1], sm, len = walk(a, n, k, mem, &sm);
        if (len && sm == k) { ncyc++; if (len > maxlen) maxlen = len; }
      }
    }
    int interesting = well && maxlen >= 2 && (ncyc >= 2 || nasleep < n);

    for (int i = -1; i <= n; i++) {
      int mem[NMAX + 1], sm = -1, len = walk(a, n, i, mem, &sm);

      // ---- mj_sleepCycle
      {
        struct { int pad0[PAD]; int a[NMAX]; int pad1[PAD]; } buf;
        for (int k = 0; k < PAD; k++) buf.pad0[k] = buf.pad1[k] = CANARY;
        for (int k = 0; k < NMAX; k++) buf.a[k] = k < n ? a[k] : CANARY;
        int got = -777, raised = 0;
        in_guard = 1;
        if (setjmp(jb) == 0) got = mj_sleepCycle(buf.a, n, i); else raised = 1;
        in_guard = 0;
        evals++;
        int expect = len ? sm : -1;
        if (raised) report("mj_sleepCycle raised an error (contract: return -1)", n, a, i, 0);
        else if (got != expect) report("mj_sleepCycle wrong result", n, a, i, got);
        for (int k = 0; k < n; k++) if (buf.a[k] != a[k]) { report("mj_sleepCycle modified its const input", n, a, i, 0); break; }
        for (int k = 0; k < PAD; k++) if (buf.pad0[k] != CANARY || buf.pad1[k] != CANARY) { report("mj_sleepCycle wrote out of bounds", n, a, i, 0); break; }
      }

      // ---- mj_wakeIsland
      for (int w = 0; w < 3; w++) {
        int wakeval = wakevals[w];
        struct { int pad0[PAD]; int a[NMAX]; int pad1[PAD]; } buf;
        for (int k = 0; k < PAD; k++) buf.pad0[k] = buf.pad1[k] = CANARY;
        for (int k = 0; k < NMAX; k++) buf.a[k] = k < n ? a[k] : CANARY;
        int got = -777, raised = 0;
        in_guard = 1;
        if (setjmp(jb) == 0) got = mj_wakeIsland(buf.a, n, i, wakeval, NULL, 0.0); else raised = 1;
        in_guard = 0;
        evals++;
        int oob = 0;
        for (int k = 0; k < PAD; k++) if (buf.pad0[k] != CANARY || buf.pad1[k] != CANARY) oob = 1;
        for (int k = n; k < NMAX; k++) if (buf.a[k] != CANARY) oob = 1;
        if (oob) { report("mj_wakeIsland wrote outside tree_asleep[0..ntree)", n, a, i, wakeval); continue; }

        if (i < 0 || i >= n) {           // invalid tree: error, untouched
          if (!raised) report("mj_wakeIsland(invalid tree) did not raise an error", n, a, i, wakeval);
          for (int k = 0; k < n; k++) if (buf.a[k] != a[k]) { report("mj_wakeIsland(invalid tree) modified the array", n, a, i, wakeval); break; }
        } else if (a[i] < 0) {           // awake: countdown restarts at min(wakeval, current)
          int expect = wakeval < a[i] ? wakeval : a[i];
          int ok = !raised && got == 0 && buf.a[i] == expect;
          for (int k = 0; k < n; k++) if (k != i && buf.a[k] != a[k]) ok = 0;
          if (!ok) report("mj_wakeIsland on an awake tree: must set min(wakeval,current), change nothing else, return 0", n, a, i, wakeval);
        } else if (len) {                // closed cycle through i: exactly the cycle wakes
          int ok = !raised && got == len;
          int incyc[NMAX] = {0};
          for (int k = 0; k < len; k++) incyc[mem[k]] = 1;
          for (int k = 0; k < n; k++) if (buf.a[k] != (incyc[k] ? wakeval : a[k])) ok = 0;
          if (!ok) report("mj_wakeIsland: exactly the cycle of the tree must become wakeval, everything else unchanged, return cycle length", n, a, i, wakeval);
          if (interesting && w == 0) nontrivial++;
          if (ok && interesting && w == 0 && nsample < 2 && n >= 4 && len >= 2) {
            nsample++;
            printf("SAMPLE wake n=%d i=%d a=", n, i);
            for (int k = 0; k < n; k++) printf("%d%s", a[k], k == n - 1 ? "" : ",");
            printf(" -> woke %d\n", got);
          }
        } else {                         // sleeping but not on a closed cycle: documented error branch
          if (!raised) report("mj_wakeIsland on a non-closed chain did not raise the documented error", n, a, i, wakeval);
        }
      }
    }
  }
  printf("STATS %ld %ld %ld %ld %ld\n", evals, nontrivial, failures, nwell, nmal);
  return 0;
}
