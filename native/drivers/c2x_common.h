// Shared fault-point runner for the C20 / C21 / C31 native drivers.
//
// A driver enumerates an integer range of fault points.  vgx_run() forks one
// child per *batch* of points; the child evaluates the points in-process
// (mju_error is turned into a C++ VgError exception by the installed log
// handler) and streams result lines to the parent.  If a child dies (signal,
// sanitizer exit code) the batch is re-run with per-point flushing so that the
// crash is attributed to exactly one fault point (the run then resumes after
// it); the sanitizer's SUMMARY line of that child is reported as
//     CRASH <point> <status> <summary>
// The parent never executes code under test after set-up, so it survives.
//
// Line protocol produced by the helpers (parsed by mc/checks/_c2x_run.py):
//     H <count> <first_point> <outcome class>      histogram of outcome classes
//     V <first point> <count> <last point> <key>|<what of first>   property violation (aggregated per key per batch)
//     N <count>                                    number of non-trivial points (fault manifested)
//     I <free text>                                information
#ifndef VERIF_C2X_COMMON_H_
#define VERIF_C2X_COMMON_H_

#include <errno.h>
#include <signal.h>
#include <stdarg.h>
#include <stdio.h>
#include <stdlib.h>
#include <string.h>
#include <sys/types.h>
#include <sys/wait.h>
#include <unistd.h>

#include <map>
#include <string>
#include <vector>

#include "support.h"

struct VgxOut {
  std::map<std::string, std::pair<long, long>> hist;  // class -> (count, first point)
  long nontrivial = 0;
  FILE* f = nullptr;
  void outcome(long point, const std::string& cls, bool nontriv) {
    auto it = hist.find(cls);
    if (it == hist.end()) hist[cls] = {1, point};
    else it->second.first++;
    if (nontriv) nontrivial++;
  }
  struct Viol { long first, last, count; std::string what; };
  std::map<std::string, Viol> viol;  // key -> aggregated
  void violation(long point, const char* key, const char* fmt, ...) {
    auto it = viol.find(key);
    if (it != viol.end()) {
      it->second.count++;
      if (point > it->second.last) it->second.last = point;
      return;
    }
    char buf[1500];
    va_list ap;
    va_start(ap, fmt);
    vsnprintf(buf, sizeof(buf), fmt, ap);
    va_end(ap);
    for (char* c = buf; *c; c++) if (*c == '\n' || *c == '\r') *c = ' ';
    viol[key] = Viol{point, point, 1, buf};
  }
  void info(const char* fmt, ...) {
    char buf[1500];
    va_list ap;
    va_start(ap, fmt);
    vsnprintf(buf, sizeof(buf), fmt, ap);
    va_end(ap);
    for (char* c = buf; *c; c++) if (*c == '\n' || *c == '\r') *c = ' ';
    fprintf(f, "I %s\n", buf);
  }
  void flush() {
    for (auto& kv : hist) fprintf(f, "H %ld %ld %s\n", kv.second.first, kv.second.second, kv.first.c_str());
    if (nontrivial) fprintf(f, "N %ld\n", nontrivial);
    for (auto& kv : viol) {
      fprintf(f, "V %ld %ld %ld %s|%s\n", kv.second.first, kv.second.count, kv.second.last, kv.first.c_str(),
              kv.second.what.c_str());
    }
    viol.clear();
    hist.clear();
    nontrivial = 0;
    fflush(f);
  }
};

static inline std::string vgx_readfile(const char* path) {
  std::string s;
  FILE* f = fopen(path, "rb");
  if (!f) return s;
  char tmp[65536];
  size_t r;
  while ((r = fread(tmp, 1, sizeof(tmp), f)) > 0) s.append(tmp, r);
  fclose(f);
  return s;
}

typedef void (*VgxPointFn)(long point, VgxOut& out, void* user);

// first "SUMMARY:" / "runtime error:" / "ERROR: AddressSanitizer" line of a sanitizer report
static inline std::string vgx_summary(const char* path) {
  std::string best;
  FILE* f = fopen(path, "r");
  if (!f) return best;
  char line[2048];
  std::string first_err, summary, rt, frames, state;
  int nframe = 0;
  while (fgets(line, sizeof(line), f)) {
    line[strcspn(line, "\n")] = 0;
    if (summary.empty() && strstr(line, "SUMMARY:")) summary = line;
    if (rt.empty() && strstr(line, "runtime error:")) rt = line;
    if (first_err.empty() && strstr(line, "ERROR: AddressSanitizer")) first_err = line;
    if (strstr(line, "VGXSTATE ")) state = strstr(line, "VGXSTATE ");
    // collect the first frames: "#k 0x... in func file:line" (symbolized) or "#k 0x... (module+0xoff)"
    const char* hash = strstr(line, "    #");
    if (nframe < 4 && hash) {
      const char* in = strstr(hash, " in ");
      std::string fn;
      if (in) {
        fn = in + 4;
        size_t sp = fn.find(' ');
        if (sp != std::string::npos) fn = fn.substr(0, sp);
      } else {
        const char* plus = strstr(hash, "+0x");
        const char* par = plus;
        while (par && par > hash && *par != '(') par--;
        if (par && *par == '(') {
          fn = par + 1;
          size_t cl = fn.find(')');
          if (cl != std::string::npos) fn = fn.substr(0, cl);
          size_t sl = fn.rfind('/');
          if (sl != std::string::npos) fn = fn.substr(sl + 1);
        }
      }
      if (!fn.empty() && fn.find("__asan") == std::string::npos && fn.find("__interceptor") == std::string::npos &&
          fn.find("__sanitizer") == std::string::npos && fn.find("__ubsan") == std::string::npos) {
        frames += (nframe ? "<" : "") + fn;
        nframe++;
      }
    }
  }
  fclose(f);
  best = !summary.empty() ? summary : (!rt.empty() ? rt : first_err);
  if (!rt.empty() && summary.find("runtime error") == std::string::npos && best != rt) best += " | " + rt;
  if (!frames.empty()) best += " | frames: " + frames;
  if (!state.empty()) best += " | " + state;
  return best;
}

// run one child over pts[i, i+n); careful = flush results and a progress marker after every point.
// returns true if the child exited normally; *ndone = number of points whose results were received
// (careful mode) and `buf` holds the received result lines.
static inline bool vgx_child(const std::vector<long>& pts, size_t i, size_t n, bool careful, VgxPointFn fn, void* user,
                             int errfd, std::string& buf, size_t* ndone, int* status_out) {
  int pfd[2];
  if (pipe(pfd)) { perror("pipe"); exit(2); }
  fflush(stdout);
  if (ftruncate(errfd, 0)) {}
  lseek(errfd, 0, SEEK_SET);
  pid_t pid = fork();
  if (pid < 0) { perror("fork"); exit(2); }
  if (pid == 0) {
    close(pfd[0]);
    dup2(errfd, 2);
    VgxOut out;
    out.f = fdopen(pfd[1], "w");
    for (size_t k = i; k < i + n; k++) {
      fn(pts[k], out, user);
      if (careful) { out.flush(); fprintf(out.f, "P\n"); fflush(out.f); }
    }
    out.flush();
    fclose(out.f);
    _exit(0);
  }
  close(pfd[1]);
  buf.clear();
  char tmp[65536];
  ssize_t r;
  while ((r = read(pfd[0], tmp, sizeof(tmp))) > 0 || (r < 0 && errno == EINTR)) {
    if (r > 0) buf.append(tmp, (size_t)r);
  }
  close(pfd[0]);
  int status = 0;
  while (waitpid(pid, &status, 0) < 0 && errno == EINTR) {}
  *status_out = status;
  bool ok = WIFEXITED(status) && WEXITSTATUS(status) == 0;
  if (careful) {
    // keep only complete per-point records (terminated by a "P" line)
    size_t done = 0, pos = 0, keep = 0;
    while (pos < buf.size()) {
      size_t nl = buf.find('\n', pos);
      if (nl == std::string::npos) break;
      if (nl == pos + 1 && buf[pos] == 'P') { done++; keep = nl + 1; }
      pos = nl + 1;
    }
    if (!ok) buf.resize(keep);
    *ndone = done;
  } else {
    *ndone = ok ? n : 0;
  }
  return ok;
}

static inline void vgx_emit(const std::string& buf) {
  // drop progress markers
  size_t pos = 0;
  while (pos < buf.size()) {
    size_t nl = buf.find('\n', pos);
    if (nl == std::string::npos) nl = buf.size();
    if (!(nl == pos + 1 && buf[pos] == 'P')) { fwrite(buf.data() + pos, 1, nl - pos, stdout); fputc('\n', stdout); }
    pos = nl + 1;
  }
}

// Optional (default 1 = exhaustive): inside a run of >= 2 consecutive crashes with an identical summary, probe only
// every vgx_crash_stride-th point while the probes keep crashing identically; the skipped points are reported as
//     S <count> <first> <last> <summary>
// (every crash costs a process; this bounds the cost of a wide crash window caused by one known defect).
static long vgx_crash_stride = 1;

// run points lo, lo+stride, ... < hi in children of `batch` points each.  A batch whose child dies is re-run in
// careful mode (results flushed after every point); every crash is attributed to exactly one point and the run resumes
// with the next point, so the number of extra forks is 1 + number of crashing points.
static inline int vgx_run(long lo, long hi, long stride, long batch, VgxPointFn fn, void* user) {
  if (stride < 1) stride = 1;
  std::vector<long> pts;
  for (long p = lo; p < hi; p += stride) pts.push_back(p);
  char errpath[] = "/tmp/vgx_err_XXXXXX";
  int errfd = mkstemp(errpath);
  std::string buf;
  size_t i = 0;
  while (i < pts.size()) {
    size_t n = (size_t)batch;
    if (i + n > pts.size()) n = pts.size() - i;
    size_t ndone = 0;
    int status = 0;
    if (vgx_child(pts, i, n, false, fn, user, errfd, buf, &ndone, &status)) {
      vgx_emit(buf);
      i += n;
      continue;
    }
    size_t end = i + n;
    std::string last_summary;
    int streak = 0;
    while (i < end) {
      // inside a homogeneous crash window: probe ahead
      if (streak >= 2 && vgx_crash_stride > 1 && i + (size_t)vgx_crash_stride - 1 < end) {
        size_t probe = i + (size_t)vgx_crash_stride - 1;
        bool okp = vgx_child(pts, probe, 1, true, fn, user, errfd, buf, &ndone, &status);
        if (!okp && ndone == 0) {
          char st[64];
          if (WIFSIGNALED(status)) snprintf(st, sizeof(st), "signal%d", WTERMSIG(status));
          else snprintf(st, sizeof(st), "exit%d", WEXITSTATUS(status));
          std::string sm = std::string(st) + " " + vgx_summary(errpath);
          if (sm == last_summary) {
            printf("S %ld %ld %ld %s\n", (long)(probe - i), pts[i], pts[probe - 1], sm.c_str());
            printf("CRASH %ld %s\n", pts[probe], sm.c_str());
            i = probe + 1;
            streak++;
            continue;
          }
        }
        streak = 0;   // probe did not crash identically: fall through and run [i, end) normally
      }
      bool ok = vgx_child(pts, i, end - i, true, fn, user, errfd, buf, &ndone, &status);
      vgx_emit(buf);
      i += ndone;
      if (ndone) streak = 0;
      if (ok) break;
      if (i < end) {
        char st[64];
        if (WIFSIGNALED(status)) snprintf(st, sizeof(st), "signal%d", WTERMSIG(status));
        else snprintf(st, sizeof(st), "exit%d", WEXITSTATUS(status));
        std::string sm = std::string(st) + " " + vgx_summary(errpath);
        printf("CRASH %ld %s\n", pts[i], sm.c_str());
        if (getenv("VGX_VERBOSE")) { std::string full = vgx_readfile(errpath); fwrite(full.data(), 1, full.size(), stderr); }
        streak = (sm == last_summary) ? streak + 1 : 1;
        last_summary = sm;
        i++;
      }
    }
  }
  fflush(stdout);
  close(errfd);
  unlink(errpath);
  return 0;
}

// short, stable class for an error message: text up to the first digit / newline / colon-after-prefix
static inline std::string vgx_msgclass(const char* msg) {
  std::string s(msg);
  size_t nl = s.find('\n');
  if (nl != std::string::npos) s = s.substr(0, nl);
  std::string out;
  for (char c : s) {
    if (c >= '0' && c <= '9') { if (out.empty() || out.back() != '#') out += '#'; }
    else out += c;
  }
  if (out.size() > 90) out.resize(90);
  return out;
}

#endif  // VERIF_C2X_COMMON_H_
