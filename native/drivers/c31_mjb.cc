// C31: binary model (MJB) fault enumeration.
//
//   c31_mjb offsets
//       prints struct offsets / sizes needed by the Python side to derive the file layout.
//   c31_mjb run <model.mjb> <plan> <table> <lo> <hi> <batch> <exercise 0|1>
//       evaluates fault points lo..hi-1 of <plan> against the MJB image.
//
// plan file: one fault point per line
//       <label> I                                   identity (unmodified file)
//       <label> T <len>                             truncated to <len> bytes
//       <label> P <off> <width> <value> [<off> <width> <value> ...]   overwrite little-endian ints (width 1|4|8)
//       <label> X <off> <mask>                      xor one byte
// The image lives in ONE heap block that is reused by all points; a truncated image is copied so that it ENDS at the
// end of an exactly sized block (ASan red zone right behind the last valid byte).
//
// table file: independent bounds relations between mjModel fields (see mc/checks/_c31_bounds.py)
//       ID   <field> <lo> <hi>                      lo <= x < hi            for every element
//       LT   <field> <lo> <strict 0|1>              lo <= x, x < i (strict) or x <= i; element 0 must equal 0 if strict
//       ADR  <field> <lo> <hi> <num> [<mulfield> <add>]   x == -1 (if lo == -1) or 0 <= x, n >= 0, x + n <= hi
//       WHEN <field> <stride> <col> <cond;cond..> <lo> <hi>   element i*stride+col, if all cond "f=v,v" hold for row i
//       OBJ  <idfield> <typefield> <lo>             lo <= id < (number of objects of mjtObj type)
//       SPECIAL <name>                              coded below
// <hi> / <num>: integer literal | model size name | int array name (num only) | max(a,b,..) | k*name
//
// Oracle per point:  result NULL -> a warning must have been issued;  result non-NULL -> the image must not be
// truncated, every table row must hold, and (exercise=1) mj_makeData / mj_forward / mj_step / name lookups must not
// raise a sanitizer report (a caught mju_error is acceptable).
#include <limits.h>
#include <malloc.h>
#include <stdint.h>
#include <string.h>
#include <sys/time.h>
#include <sys/resource.h>

#include <map>
#include <memory>
#include <type_traits>
#include <set>
#include <sstream>
#include <string>
#include <vector>

#include <mujoco/mujoco.h>
#include <mujoco/mjspec.h>
#include <mujoco/mjxmacro.h>

#include "c2x_common.h"

// ------------------------------------------------------------------ plan
struct Patch { long off; int width; long long value; };
struct Pt { std::string label; char kind; long len; std::vector<Patch> patches; };

struct Expr;
struct Row {
  std::string type, field, hi, num, mulfield, typefield, special;
  long long lo = 0;
  int strict = 0, stride = 1, col = 0, add = 0;
  std::vector<std::pair<std::string, std::set<long long>>> cond;
  // resolved at parse time
  int f_field = -1, f_num = -1, f_mul = -1, f_type = -1;
  std::vector<int> f_cond;
  std::shared_ptr<Expr> e_hi, e_num;
};

struct S {
  std::string file;
  std::vector<Pt> plan;
  std::vector<Row> table;
  unsigned char* block = nullptr;   // file.size() bytes
  mjModel* m0 = nullptr;            // the unmodified model (loaded in the parent before forking)
  int exercise = 1;
  int cpu_limit = 3;                // seconds of user CPU per fault point (hang guard)
};

// ------------------------------------------------------------------ enum names usable in the table
static bool enum_value(const std::string& s, long long* v) {
#define E(x) if (s == #x) { *v = x; return true; }
  E(mjGEOM_HFIELD) E(mjGEOM_MESH) E(mjGEOM_SDF)
  E(mjEQ_CONNECT) E(mjEQ_WELD) E(mjEQ_JOINT) E(mjEQ_TENDON) E(mjEQ_FLEX) E(mjEQ_FLEXVERT) E(mjEQ_FLEXSTRAIN)
  E(mjOBJ_BODY) E(mjOBJ_SITE)
  E(mjWRAP_JOINT) E(mjWRAP_SITE) E(mjWRAP_SPHERE) E(mjWRAP_CYLINDER)
  E(mjTRN_JOINT) E(mjTRN_JOINTINPARENT) E(mjTRN_SLIDERCRANK) E(mjTRN_TENDON) E(mjTRN_SITE) E(mjTRN_BODY) E(mjTRN_SO3)
#undef E
  char* end = nullptr;
  long long x = strtoll(s.c_str(), &end, 10);
  if (end && *end == 0 && !s.empty()) { *v = x; return true; }
  return false;
}

// number of objects of an mjtObj type, -1: no bound (written from the mjtObj enum in mjmodel.h)
static long long nobj_of(const mjModel* m, long long t) {
  switch (t) {
    case mjOBJ_BODY: case mjOBJ_XBODY: return m->nbody;
    case mjOBJ_JOINT: return m->njnt;
    case mjOBJ_DOF: return m->nv;
    case mjOBJ_GEOM: return m->ngeom;
    case mjOBJ_SITE: return m->nsite;
    case mjOBJ_CAMERA: return m->ncam;
    case mjOBJ_LIGHT: return m->nlight;
    case mjOBJ_FLEX: return m->nflex;
    case mjOBJ_MESH: return m->nmesh;
    case mjOBJ_SKIN: return m->nskin;
    case mjOBJ_HFIELD: return m->nhfield;
    case mjOBJ_TEXTURE: return m->ntex;
    case mjOBJ_MATERIAL: return m->nmat;
    case mjOBJ_PAIR: return m->npair;
    case mjOBJ_EXCLUDE: return m->nexclude;
    case mjOBJ_EQUALITY: return m->neq;
    case mjOBJ_TENDON: return m->ntendon;
    case mjOBJ_ACTUATOR: return m->nactuator;
    case mjOBJ_SENSOR: return m->nsensor;
    case mjOBJ_NUMERIC: return m->nnumeric;
    case mjOBJ_TEXT: return m->ntext;
    case mjOBJ_TUPLE: return m->ntuple;
    case mjOBJ_KEY: return m->nkey;
    case mjOBJ_PLUGIN: return m->nplugin;
    default: return -1;
  }
}

// ------------------------------------------------------------------ O(1) reflection (compiler generated from mjxmacro.h)
struct FieldDef { const char* name; size_t ptr_off; int elsize; bool is_int; long long (*count)(const mjModel*); };
struct SizeDef { const char* name; size_t off; int width; };

static const FieldDef kFields[] = {
#define X(type, name, nr, nc) {#name, offsetof(mjModel, name), (int)sizeof(type), std::is_same<type, int>::value, \
    [](const mjModel* m) -> long long { MJMODEL_POINTERS_PREAMBLE(m); return (long long)m->nr * (long long)(nc); }},
  MJMODEL_POINTERS
#undef X
};
static const int kNFields = (int)(sizeof(kFields) / sizeof(kFields[0]));
static const SizeDef kSizes[] = {
#define X(name) {#name, offsetof(mjModel, name), (int)sizeof(((mjModel*)0)->name)},
  MJMODEL_SIZES
#undef X
};
static const int kNSizes = (int)(sizeof(kSizes) / sizeof(kSizes[0]));

static int field_index(const std::string& n) {
  for (int i = 0; i < kNFields; i++) if (n == kFields[i].name) return i;
  return -1;
}
static int size_index(const std::string& n) {
  for (int i = 0; i < kNSizes; i++) if (n == kSizes[i].name) return i;
  return -1;
}

struct Arr { const int* p = nullptr; long long n = 0; bool ok = false; };

static Arr int_array(const mjModel* m, int idx) {
  Arr a;
  if (idx < 0 || !kFields[idx].is_int) return a;
  a.p = *(const int* const*)((const char*)m + kFields[idx].ptr_off);
  a.n = kFields[idx].count(m);
  if (a.n < 0) a.n = 0;
  a.ok = true;
  return a;
}
static long long size_value(const mjModel* m, int idx) {
  const char* p = (const char*)m + kSizes[idx].off;
  return kSizes[idx].width == 8 ? *(const long long*)p : *(const int*)p;
}

// scalar expression: literal | size | max(a,b,..) | k*name      value = k * max(terms)
struct Expr {
  long long k = 1;
  bool has_lit = false;
  long long lit = 0;
  std::vector<int> sizes;
  bool ok = false;
  long long eval(const mjModel* m) const {
    long long best = has_lit ? lit : LLONG_MIN;
    for (int i : sizes) { long long v = size_value(m, i); if (v > best) best = v; }
    return k * best;
  }
};

static bool parse_term(const std::string& t, Expr* e) {
  long long v;
  if (enum_value(t, &v)) { if (!e->has_lit || v > e->lit) e->lit = v; e->has_lit = true; return true; }
  int i = size_index(t);
  if (i < 0) return false;
  e->sizes.push_back(i);
  return true;
}

static Expr parse_expr(std::string s) {
  Expr e;
  size_t star = s.find('*');
  if (star != std::string::npos && s.compare(0, 4, "max(")) {
    e.k = atoll(s.substr(0, star).c_str());
    s = s.substr(star + 1);
  }
  if (!s.compare(0, 4, "max(") && s.back() == ')') {
    std::stringstream ss(s.substr(4, s.size() - 5));
    std::string tok;
    while (std::getline(ss, tok, ',')) if (!parse_term(tok, &e)) return e;
  } else if (!parse_term(s, &e)) {
    return e;
  }
  e.ok = true;
  return e;
}

struct Ctx {
  const S* s;
  const mjModel* m;
};

static const int kNPOS[4] = {7, 4, 1, 1};   // free, ball, slide, hinge (mjtJoint order in mjmodel.h)
static const int kNVEL[4] = {6, 3, 1, 1};

// returns "" if the row holds, else a description
static std::string check_row(const Ctx& c, const Row& r) {
  char buf[400];
  const mjModel* m = c.m;
  if (r.type == "ID") {
    Arr a = int_array(m, r.f_field);
    if (!a.ok || !r.e_hi || !r.e_hi->ok) return "TABLE-ERROR " + r.field;
    long long hi = r.e_hi->eval(m);
    for (long long i = 0; i < a.n; i++) {
      if (a.p[i] < r.lo || a.p[i] >= hi) {
        snprintf(buf, sizeof(buf), "%s[%lld]=%d not in [%lld,%s=%lld)", r.field.c_str(), i, a.p[i], r.lo, r.hi.c_str(), hi);
        return buf;
      }
    }
    return "";
  }
  if (r.type == "LT") {
    Arr a = int_array(m, r.f_field);
    if (!a.ok) return "TABLE-ERROR " + r.field;
    for (long long i = 0; i < a.n; i++) {
      long long x = a.p[i];
      bool ok = x >= r.lo && (r.strict ? (x < i || (i == 0 && r.lo == 0 && x == 0)) : x <= i);
      if (!ok) {
        snprintf(buf, sizeof(buf), "%s[%lld]=%lld violates %lld <= x %s index", r.field.c_str(), i, x, r.lo, r.strict ? "<" : "<=");
        return buf;
      }
    }
    return "";
  }
  if (r.type == "ADR") {
    Arr a = int_array(m, r.f_field);
    long long numlit = 0;
    if (!a.ok || !r.e_hi || !r.e_hi->ok) return "TABLE-ERROR " + r.field;
    long long hi = r.e_hi->eval(m);
    Arr num = int_array(m, r.f_num);
    if (!num.ok) { if (!r.e_num || !r.e_num->ok) return "TABLE-ERROR num " + r.field; numlit = r.e_num->eval(m); }
    Arr mul;
    if (!r.mulfield.empty()) { mul = int_array(m, r.f_mul); if (!mul.ok) return "TABLE-ERROR mul " + r.field; }
    for (long long i = 0; i < a.n; i++) {
      long long x = a.p[i];
      if (x == -1 && r.lo == -1) continue;
      long long n = num.ok ? (i < num.n ? num.p[i] : 0) : numlit;
      if (mul.ok) n *= (long long)(i < mul.n ? mul.p[i] : 0) + r.add;
      if (x < 0 || n < 0 || x + n > hi) {
        snprintf(buf, sizeof(buf), "%s[%lld]=%lld with count %lld exceeds [0,%s=%lld]", r.field.c_str(), i, x, n, r.hi.c_str(), hi);
        return buf;
      }
    }
    return "";
  }
  if (r.type == "WHEN") {
    Arr a = int_array(m, r.f_field);
    if (!a.ok || !r.e_hi || !r.e_hi->ok) return "TABLE-ERROR " + r.field;
    long long hi = r.e_hi->eval(m);
    std::vector<Arr> ca;
    for (int fc : r.f_cond) { Arr x = int_array(m, fc); if (!x.ok) return "TABLE-ERROR cond " + r.field; ca.push_back(x); }
    long long rows = a.n / r.stride;
    for (long long i = 0; i < rows; i++) {
      bool apply = true;
      for (size_t k = 0; k < ca.size() && apply; k++) apply = i < ca[k].n && r.cond[k].second.count(ca[k].p[i]) > 0;
      if (!apply) continue;
      long long x = a.p[i * r.stride + r.col];
      if (x < r.lo || x >= hi) {
        snprintf(buf, sizeof(buf), "%s[%lld]=%lld not in [%lld,%s=%lld) (conditional row)", r.field.c_str(),
                 i * r.stride + r.col, x, r.lo, r.hi.c_str(), hi);
        return buf;
      }
    }
    return "";
  }
  if (r.type == "OBJ") {
    Arr a = int_array(m, r.f_field), t = int_array(m, r.f_type);
    if (!a.ok || !t.ok) return "TABLE-ERROR " + r.field;
    for (long long i = 0; i < a.n && i < t.n; i++) {
      long long n = nobj_of(m, t.p[i]);
      if (n < 0) continue;
      if (a.p[i] < r.lo || a.p[i] >= n) {
        snprintf(buf, sizeof(buf), "%s[%lld]=%d not in [%lld,%lld) for object type %d", r.field.c_str(), i, a.p[i], r.lo, n, t.p[i]);
        return buf;
      }
    }
    return "";
  }
  if (r.type == "SPECIAL") {
    if (r.special == "jnt_qposadr" || r.special == "jnt_dofadr") {
      bool q = r.special == "jnt_qposadr";
      for (long long i = 0; i < m->njnt; i++) {
        int t = m->jnt_type[i];
        long long n = (t >= 0 && t < 4) ? (q ? kNPOS[t] : kNVEL[t]) : 1;
        long long x = q ? m->jnt_qposadr[i] : m->jnt_dofadr[i];
        if (x < 0 || x + n > (q ? m->nq : m->nv)) {
          snprintf(buf, sizeof(buf), "%s[%lld]=%lld (+%lld) outside [0,%lld]", r.special.c_str(), i, x, n, (long long)(q ? m->nq : m->nv));
          return buf;
        }
      }
      return "";
    }
    if (r.special == "hfield_adr") {
      for (long long i = 0; i < m->nhfield; i++) {
        long long x = m->hfield_adr[i], nr = m->hfield_nrow[i], nc = m->hfield_ncol[i];
        if (x < 0 || nr < 0 || nc < 0 || x + nr * nc > m->nhfielddata) {
          snprintf(buf, sizeof(buf), "hfield_adr[%lld]=%lld nrow=%lld ncol=%lld exceeds nhfielddata=%lld", i, x, nr, nc, (long long)m->nhfielddata);
          return buf;
        }
      }
      return "";
    }
    if (r.special == "tex_adr") {
      for (long long i = 0; i < m->ntex; i++) {
        long long x = m->tex_adr[i], h = m->tex_height[i], w = m->tex_width[i], ch = m->tex_nchannel[i];
        if (x < 0 || h < 0 || w < 0 || ch < 0 || x + h * w * ch > m->ntexdata) {
          snprintf(buf, sizeof(buf), "tex_adr[%lld]=%lld h=%lld w=%lld nchannel=%lld exceeds ntexdata=%lld", i, x, h, w, ch, (long long)m->ntexdata);
          return buf;
        }
      }
      return "";
    }
    if (r.special == "pair_signature" || r.special == "exclude_signature") {
      bool p = r.special == "pair_signature";
      long long n = p ? m->npair : m->nexclude;
      const int* sig = p ? m->pair_signature : m->exclude_signature;
      for (long long i = 0; i < n; i++) {
        long long b1 = ((unsigned)sig[i]) >> 16, b2 = ((unsigned)sig[i]) & 0xFFFF;
        if (b1 >= m->nbody || b2 >= m->nbody) {
          snprintf(buf, sizeof(buf), "%s[%lld]=%d encodes bodies %lld,%lld, nbody=%lld", r.special.c_str(), i, sig[i], b1, b2, (long long)m->nbody);
          return buf;
        }
      }
      return "";
    }
    if (r.special == "sensor_adr") {
      for (long long i = 0; i < m->nsensor; i++) {
        long long x = m->sensor_adr[i], d = m->sensor_dim[i];
        if (x < 0 || d < 0 || x + d > m->nsensordata) {
          snprintf(buf, sizeof(buf), "sensor_adr[%lld]=%lld dim=%lld exceeds nsensordata=%lld", i, x, d, (long long)m->nsensordata);
          return buf;
        }
      }
      return "";
    }
    if (r.special == "tuple_objid") {
      for (long long i = 0; i < m->ntupledata; i++) {
        long long n = nobj_of(m, m->tuple_objtype[i]);
        if (n >= 0 && (m->tuple_objid[i] < 0 || m->tuple_objid[i] >= n)) {
          snprintf(buf, sizeof(buf), "tuple_objid[%lld]=%d not in [0,%lld) for type %d", i, m->tuple_objid[i], n, m->tuple_objtype[i]);
          return buf;
        }
      }
      return "";
    }
    if (r.special == "arrays_in_buffer") {
      // every MJMODEL_POINTERS array must lie inside [buffer, buffer+nbuffer) and must not overlap its successor
      VgField f;
      const char* lo = (const char*)m->buffer;
      const char* hi = lo + m->nbuffer;
      const char* prev_end = lo;
      for (int i = 0; vg_model_field(m, i, &f); i++) {
        if (f.kind != 1) continue;
        if (f.nrow < 0 || f.ncol < 0) { snprintf(buf, sizeof(buf), "%s has negative shape", f.name); return buf; }
        const char* b = (const char*)f.ptr;
        unsigned long long bytes = (unsigned long long)f.nrow * (unsigned long long)f.ncol * (unsigned long long)f.elsize;
        if (b < prev_end || b > hi || bytes > (unsigned long long)(hi - b)) {
          snprintf(buf, sizeof(buf), "array %s (%lld x %lld x %d bytes) does not fit its slot in the model buffer", f.name,
                   f.nrow, f.ncol, f.elsize);
          return buf;
        }
        prev_end = b + bytes;
      }
      return "";
    }
    if (r.special == "dof_simplenum") {
      for (long long i = 0; i < m->nv; i++) {
        long long x = m->dof_simplenum[i];
        if (x < 0 || i + x > m->nv) {
          snprintf(buf, sizeof(buf), "dof_simplenum[%lld]=%lld runs past nv=%lld", i, x, (long long)m->nv);
          return buf;
        }
      }
      return "";
    }
    return "TABLE-ERROR unknown special " + r.special;
  }
  return "TABLE-ERROR unknown row type " + r.type;
}

// ------------------------------------------------------------------ struct-level comparison
// every scalar of mjModel that precedes the buffer pointer: sizes, flags, opt, vis, stat
static std::string struct_diff(const mjModel* a, const mjModel* b) {
  if (!memcmp(a, b, offsetof(mjModel, buffer))) return "";
#define F(f) if (memcmp(&a->f, &b->f, sizeof(a->f))) return #f;
  F(flg_gravcomp) F(flg_surfacevel) F(flg_adhesion) F(opt) F(vis) F(stat)
#undef F
  return "sizes";
}

// ------------------------------------------------------------------ the fault point
static void on_timer(int) { _exit(97); }

static volatile long long g_sink;

static void exercise(const mjModel* m, std::string* stage) {
  *stage = "makeData";
  mjData* d = mj_makeData(m);
  if (!d) { *stage = "makeData-null"; return; }
  *stage = "forward";
  mj_forward(m, d);
  *stage = "step";
  mj_step(m, d);
  if (m->nkey > 0) {
    *stage = "resetDataKeyframe";
    mj_resetDataKeyframe(m, d, 0);
    *stage = "forward-key";
    mj_forward(m, d);
  }
  *stage = "names";
  long long acc = 0;
  for (int t = 1; t < mjNOBJECT; t++) {
    const char* nm = mj_id2name(m, t, 0);
    if (nm) { acc += (long long)strlen(nm); acc += mj_name2id(m, t, nm); }
  }
  acc += mj_name2id(m, mjOBJ_BODY, "no such name");
  g_sink = acc;
  *stage = "deleteData";
  mj_deleteData(d);
  *stage = "done";
}

// Streaming reporter: the child writes   B <p> / V <p> <key>|<what> / R <p> <changed> <class> / E <p>   per point,
// unbuffered, so that after a crash the parent knows exactly which point was in flight (one fork per crash).
struct Out {
  int fd = 1;
  void raw(const std::string& sline) { size_t o = 0; while (o < sline.size()) { ssize_t w = write(fd, sline.data() + o, sline.size() - o); if (w <= 0) { if (errno == EINTR) continue; _exit(96); } o += (size_t)w; } }
  void violation(long point, const char* key, const char* fmt, ...) {
    char buf[1500];
    va_list ap;
    va_start(ap, fmt);
    vsnprintf(buf, sizeof(buf), fmt, ap);
    va_end(ap);
    for (char* c = buf; *c; c++) if (*c == '\n' || *c == '\r') *c = ' ';
    raw("V " + std::to_string(point) + " " + key + "|" + buf + "\n");
  }
  void outcome(long point, const std::string& cls, bool nontriv) {
    raw("R " + std::to_string(point) + " " + (nontriv ? "1 " : "0 ") + cls + "\n");
  }
};

static void point(long p, Out& out, void* user) {
  S* s = (S*)user;
  const Pt& pt = s->plan[p];
  size_t size = s->file.size();
  struct itimerval tv = {{0, 0}, {s->cpu_limit, 0}};
  setitimer(ITIMER_VIRTUAL, &tv, nullptr);

  // build the image
  unsigned char* buf = s->block;
  size_t len = size;
  std::vector<std::pair<long, unsigned char>> undo;
  bool changed = false;
  if (pt.kind == 'T') {
    len = (size_t)pt.len;
    buf = s->block + (size - len);
    memmove(buf, s->file.data(), len);
    changed = true;
  } else if (pt.kind == 'P') {
    for (const Patch& pa : pt.patches) {
      for (int k = 0; k < pa.width; k++) {
        unsigned char nb = (unsigned char)(((unsigned long long)pa.value >> (8 * k)) & 0xFF);
        if (pa.off + k < 0 || (size_t)(pa.off + k) >= size) continue;
        undo.push_back({pa.off + k, buf[pa.off + k]});
        if (buf[pa.off + k] != nb) changed = true;
        buf[pa.off + k] = nb;
      }
    }
  } else if (pt.kind == 'X') {
    const Patch& pa = pt.patches[0];
    undo.push_back({pa.off, buf[pa.off]});
    buf[pa.off] ^= (unsigned char)pa.value;
    changed = pa.value != 0;
  }

  const char* lab = pt.label.c_str();
  long w0 = vg_warning_count();
  long live0 = vg_alloc_live();
  mjModel* m = nullptr;
  bool threw = false;
  std::string cls;
  try {
    m = mj_loadModelBuffer(buf, (int)len);
  } catch (VgError& e) {
    threw = true;
    cls = "loader-mju_error:" + vgx_msgclass(e.msg);
    out.violation(p, ("loader_mju_error:" + vgx_msgclass(e.msg)).c_str(),
                  "mj_loadModelBuffer raised mju_error (\"%s\") instead of warning + NULL; first at fault %s", e.msg, lab);
  }
  if (!threw) {
    if (!m) {
      long nw = vg_warning_count() - w0;
      cls = "rejected:" + vgx_msgclass(vg_last_warning());
      if (nw < 1) {
        cls = "rejected-silently";
        out.violation(p, "null_without_warning", "mj_loadModelBuffer returned NULL without a warning at fault %s", lab);
      }
      long leaked = vg_alloc_live() - live0;
      if (leaked > 0) cls = "leak " + cls;
    } else {
      std::string sd = struct_diff(m, s->m0);
      const char* name = "";
      bool same = sd.empty();
      for (int fi = 0; fi < kNFields && same; fi++) {   // sizes are equal here (struct prefix is identical)
        const void* pa = *(const void* const*)((const char*)m + kFields[fi].ptr_off);
        const void* pb = *(const void* const*)((const char*)s->m0 + kFields[fi].ptr_off);
        long long cnt = kFields[fi].count(m);
        if (cnt > 0 && memcmp(pa, pb, (size_t)cnt * kFields[fi].elsize)) { same = false; name = kFields[fi].name; }
      }
      if (pt.kind == 'T') {
        out.violation(p, "truncated_accepted", "image truncated to %ld of %zu bytes was accepted", pt.len, size);
      }
      if (pt.kind == 'I' || !changed) {
        if (!same) out.violation(p, "selfcheck:identity", "unmodified image loads to a different model (%s %s)", sd.c_str(), name);
      }
      // bounds table
      Ctx c{s, m};
      std::string firstbad;
      int nbad = 0;
      for (const Row& r : s->table) {
        if (nbad && !firstbad.compare(0, 6, "array ")) break;   // arrays do not fit: nothing else can be read safely
        std::string bad = check_row(c, r);
        if (!bad.empty()) {
          nbad++;
          if (firstbad.empty()) firstbad = bad;
          if (!bad.compare(0, 11, "TABLE-ERROR")) out.violation(p, "selfcheck:table", "%s", bad.c_str());
        }
      }
      if (nbad && (pt.kind == 'I' || same)) {
        out.violation(p, "selfcheck:table_on_valid_model", "bounds table fails on the unmodified model: %s", firstbad.c_str());
      } else if (nbad) {
        out.violation(p, (std::string("unvalidated:") + lab).c_str(),
                      "loader accepted a model with an out-of-bounds cross-reference: %s (%d rows fail)", firstbad.c_str(), nbad);
        cls = "accepted-oob";
      }
      if (!nbad) {
        cls = same ? "accepted:identical" : "accepted:ok";
        if (s->exercise) {
          std::string stage;
          try {
            exercise(m, &stage);
          } catch (VgError& e) {
            cls = "accepted:mju_error@" + stage + ":" + vgx_msgclass(e.msg);
          }
        }
      }
      mj_deleteModel(m);
    }
  }
  out.outcome(p, cls, changed);
  // restore the image
  if (pt.kind == 'T') memcpy(s->block, s->file.data(), size);
  for (size_t k = undo.size(); k-- > 0;) s->block[undo[k].first] = undo[k].second;
}


// run points lo..hi-1; one child handles points until it finishes or dies; a death costs exactly one extra fork
static int run_points(long lo, long hi, long batch, S* s) {
  char errpath[] = "/tmp/c31_err_XXXXXX";
  int errfd = mkstemp(errpath);
  long i = lo;
  while (i < hi) {
    long end = i + batch < hi ? i + batch : hi;
    int pfd[2];
    if (pipe(pfd)) { perror("pipe"); return 2; }
    fflush(stdout);
    if (ftruncate(errfd, 0)) {}
    lseek(errfd, 0, SEEK_SET);
    pid_t pid = fork();
    if (pid < 0) { perror("fork"); return 2; }
    if (pid == 0) {
      close(pfd[0]);
      dup2(errfd, 2);
      Out out;
      out.fd = pfd[1];
      for (long k = i; k < end; k++) {
        out.raw("B " + std::to_string(k) + "\n");
        point(k, out, s);
        out.raw("E " + std::to_string(k) + "\n");
      }
      _exit(0);
    }
    close(pfd[1]);
    std::string buf;
    char tmp[65536];
    ssize_t r;
    while ((r = read(pfd[0], tmp, sizeof(tmp))) > 0 || (r < 0 && errno == EINTR)) {
      if (r > 0) buf.append(tmp, (size_t)r);
    }
    close(pfd[0]);
    int status = 0;
    while (waitpid(pid, &status, 0) < 0 && errno == EINTR) {}
    // pass through the lines of completed points; find the point in flight
    long inflight = -1, done = i;
    size_t pos = 0, keep = 0;
    while (pos < buf.size()) {
      size_t nl = buf.find('\n', pos);
      if (nl == std::string::npos) break;
      if (buf[pos] == 'B') { inflight = atol(buf.c_str() + pos + 2); }
      else if (buf[pos] == 'E') { done = atol(buf.c_str() + pos + 2) + 1; inflight = -1; keep = nl + 1; }
      pos = nl + 1;
    }
    fwrite(buf.data(), 1, keep, stdout);
    bool ok = WIFEXITED(status) && WEXITSTATUS(status) == 0;
    if (ok && done == end) { i = end; continue; }
    char st[64];
    if (WIFSIGNALED(status)) snprintf(st, sizeof(st), "signal%d", WTERMSIG(status));
    else snprintf(st, sizeof(st), "exit%d", WEXITSTATUS(status));
    long cp = inflight >= 0 ? inflight : done;
    // violations already written by the dying point are kept (they precede the crash)
    size_t q = keep;
    while (q < buf.size()) {
      size_t nl = buf.find('\n', q);
      if (nl == std::string::npos) break;
      if (buf[q] == 'V') fwrite(buf.data() + q, 1, nl + 1 - q, stdout);
      q = nl + 1;
    }
    std::string sum = vgx_summary(errpath);
    printf("CRASH %ld %s %s\n", cp, st, sum.c_str());
    if (getenv("VGX_VERBOSE")) { std::string full = vgx_readfile(errpath); fwrite(full.data(), 1, full.size(), stderr); }
    i = cp + 1;
  }
  fflush(stdout);
  close(errfd);
  unlink(errpath);
  return 0;
}

// ------------------------------------------------------------------ parsing
static bool parse_plan(const std::string& text, std::vector<Pt>* plan) {
  std::stringstream ss(text);
  std::string line;
  while (std::getline(ss, line)) {
    if (line.empty()) continue;
    std::stringstream ls(line);
    Pt pt;
    std::string kind;
    ls >> pt.label >> kind;
    pt.kind = kind.empty() ? '?' : kind[0];
    pt.len = 0;
    if (pt.kind == 'T') ls >> pt.len;
    else if (pt.kind == 'P') { Patch pa; while (ls >> pa.off >> pa.width >> pa.value) pt.patches.push_back(pa); }
    else if (pt.kind == 'X') { Patch pa; pa.width = 1; ls >> pa.off >> pa.value; pt.patches.push_back(pa); }
    else if (pt.kind != 'I') return false;
    plan->push_back(pt);
  }
  return true;
}

static bool parse_table(const std::string& text, std::vector<Row>* table) {
  std::stringstream ss(text);
  std::string line;
  while (std::getline(ss, line)) {
    if (line.empty() || line[0] == '#') continue;
    std::stringstream ls(line);
    Row r;
    ls >> r.type;
    if (r.type == "ID") ls >> r.field >> r.lo >> r.hi;
    else if (r.type == "LT") ls >> r.field >> r.lo >> r.strict;
    else if (r.type == "ADR") { ls >> r.field >> r.lo >> r.hi >> r.num; if (ls >> r.mulfield) ls >> r.add; }
    else if (r.type == "WHEN") {
      std::string conds;
      ls >> r.field >> r.stride >> r.col >> conds >> r.lo >> r.hi;
      std::stringstream cs(conds);
      std::string one;
      while (std::getline(cs, one, ';')) {
        size_t eq = one.find('=');
        if (eq == std::string::npos) return false;
        std::set<long long> vals;
        std::stringstream vs(one.substr(eq + 1));
        std::string v;
        while (std::getline(vs, v, ',')) { long long x; if (!enum_value(v, &x)) return false; vals.insert(x); }
        r.cond.push_back({one.substr(0, eq), vals});
      }
    } else if (r.type == "OBJ") ls >> r.field >> r.typefield >> r.lo;
    else if (r.type == "SPECIAL") { ls >> r.special; r.field = r.special; }
    else return false;
    r.f_field = field_index(r.field);
    r.f_num = field_index(r.num);
    r.f_mul = field_index(r.mulfield);
    r.f_type = field_index(r.typefield);
    for (auto& cd : r.cond) r.f_cond.push_back(field_index(cd.first));
    if (!r.hi.empty()) r.e_hi = std::make_shared<Expr>(parse_expr(r.hi));
    if (!r.num.empty() && r.f_num < 0) r.e_num = std::make_shared<Expr>(parse_expr(r.num));
    table->push_back(r);
  }
  return true;
}

int main(int argc, char** argv) {
  if (argc >= 2 && !strcmp(argv[1], "offsets")) {
    printf("sizeof_mjModel %zu\n", sizeof(mjModel));
    printf("offsetof_buffer %zu\n", offsetof(mjModel, buffer));
    printf("offsetof_opt %zu\n", offsetof(mjModel, opt));
    printf("offsetof_vis %zu\n", offsetof(mjModel, vis));
    printf("offsetof_stat %zu\n", offsetof(mjModel, stat));
    printf("offsetof_flg_gravcomp %zu\n", offsetof(mjModel, flg_gravcomp));
    printf("offsetof_flg_surfacevel %zu\n", offsetof(mjModel, flg_surfacevel));
    printf("offsetof_flg_adhesion %zu\n", offsetof(mjModel, flg_adhesion));
    printf("offsetof_signature %zu\n", offsetof(mjModel, signature));
    printf("sizeof_mjOption %zu\n", sizeof(mjOption));
    printf("sizeof_mjVisual %zu\n", sizeof(mjVisual));
    printf("sizeof_mjStatistic %zu\n", sizeof(mjStatistic));
    printf("sizeof_mjtSize %zu\n", sizeof(mjtSize));
    printf("mesh_octree_maxdepth %zu\n", offsetof(mjsMesh, octree_maxdepth));
    return 0;
  }
  if (argc < 9 || strcmp(argv[1], "run")) {
    fprintf(stderr, "usage: c31_mjb offsets | run <mjb> <plan> <table> <lo> <hi> <batch> <exercise>\n");
    return 2;
  }
#if defined(__has_feature)
#if !__has_feature(address_sanitizer)
  { struct rlimit rl = {(rlim_t)3 << 30, (rlim_t)3 << 30}; setrlimit(RLIMIT_AS, &rl); }
#endif
#endif
  // fresh pages are very expensive in this sandbox: keep freed blocks in the heap instead of mmap/munmap per point
  mallopt(M_MMAP_THRESHOLD, 1 << 30);
  mallopt(M_TRIM_THRESHOLD, 1 << 30);
  mallopt(M_TOP_PAD, 16 << 20);
  vg_install_handlers();
  vg_alloc_install(-1, -1);
  S s;
  s.file = vgx_readfile(argv[2]);
  if (s.file.empty()) { fprintf(stderr, "cannot read %s\n", argv[2]); return 2; }
  if (!parse_plan(vgx_readfile(argv[3]), &s.plan)) { fprintf(stderr, "bad plan\n"); return 2; }
  if (!parse_table(vgx_readfile(argv[4]), &s.table)) { fprintf(stderr, "bad table\n"); return 2; }
  long lo = atol(argv[5]), hi = atol(argv[6]), batch = atol(argv[7]);
  s.exercise = atoi(argv[8]);
  if (hi > (long)s.plan.size()) hi = (long)s.plan.size();
  s.block = (unsigned char*)malloc(s.file.size());
  memcpy(s.block, s.file.data(), s.file.size());
  try {
    s.m0 = mj_loadModelBuffer(s.block, (int)s.file.size());
  } catch (VgError& e) { s.m0 = nullptr; }
  if (!s.m0) {
    // the unmodified image must load: report as a violation on every identity point, nothing else can be decided
    printf("V %ld 1 %ld roundtrip:load_failed|unmodified image is rejected: %s\n", lo, lo, vg_last_warning());
    return 0;
  }
  signal(SIGVTALRM, on_timer);
  printf("I npoints %zu size %zu rows %zu\n", s.plan.size(), s.file.size(), s.table.size());
  return run_points(lo, hi, batch, &s);
}
