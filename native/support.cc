// placeholder
extern "C" int vg_support_version(void) { return 1; }
