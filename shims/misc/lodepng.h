// inert verification stub for lodepng (sources absent): every decode fails.
#ifndef VERIF_LODEPNG_H_
#define VERIF_LODEPNG_H_
#include <cstddef>
typedef enum LodePNGColorType { LCT_GREY = 0, LCT_RGB = 2, LCT_PALETTE = 3, LCT_GREY_ALPHA = 4, LCT_RGBA = 6 } LodePNGColorType;
struct LodePNGColorMode { LodePNGColorType colortype; unsigned bitdepth; };
struct LodePNGInfo { unsigned srgb_defined; };
namespace lodepng {
struct State { LodePNGColorMode info_raw{LCT_RGBA, 8}; LodePNGInfo info_png{0}; };
}
static inline unsigned lodepng_decode(unsigned char** out, unsigned* w, unsigned* h, lodepng::State*,
                                      const unsigned char*, size_t) {
  *out = nullptr; *w = 0; *h = 0; return 1;
}
static inline const char* lodepng_error_text(unsigned) { return "PNG decoding unavailable in verification build"; }
static inline size_t lodepng_get_raw_size(unsigned, unsigned, const LodePNGColorMode*) { return 0; }
#endif
