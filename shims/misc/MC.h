// inert verification stub for MarchingCubeCpp (sources absent): empty mesh.
#ifndef VERIF_MC_H_
#define VERIF_MC_H_
#include <vector>
namespace MC {
typedef float MC_FLOAT;
struct mcVec3f { MC_FLOAT x, y, z; };
struct mcMesh { std::vector<mcVec3f> vertices; std::vector<mcVec3f> normals; std::vector<unsigned int> indices; };
static inline void marching_cube(MC_FLOAT*, int, int, int, mcMesh&) {}
}
#endif
