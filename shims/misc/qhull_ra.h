// Verification double for the part of the reentrant qhull API that
// mjCMesh::MakeGraph uses (qhull sources are absent in the sandbox).
// Exact-enough brute-force convex hull for small meshes (n <= VQH_MAXPOINTS):
// every supporting plane through 3 points is found, coplanar points are merged
// into one polygonal facet, the facet polygon is fan-triangulated ("Qt"), and
// triangles are delivered counter-clockwise seen from outside with
// toporient = 0 (what MakeGraph produces from real qhull after its swap).
// The result is self-checked (closed 2-manifold, Euler formula, convexity); a
// failed self-check takes qhull's error exit (longjmp), which MuJoCo reports as
// "qhull error".
#ifndef VERIF_QHULL_RA_SHIM_H_
#define VERIF_QHULL_RA_SHIM_H_

#include <setjmp.h>
#include <stdio.h>
#include <stdlib.h>

#include <algorithm>
#include <array>
#include <cmath>
#include <map>
#include <set>
#include <vector>

#ifndef VQH_MAXPOINTS
#define VQH_MAXPOINTS 220
#endif

typedef unsigned int boolT;
typedef double coordT;
typedef coordT pointT;
#define qh_False 0
#define qh_True 1
#define qh_ALL 1

typedef union setelemT { void* p; int i; } setelemT;
typedef struct setT { int maxsize; setelemT e[1]; } setT;

typedef struct vertexT {
  struct vertexT* next;
  pointT* point;
  setT* neighbors;
} vertexT;

typedef struct facetT {
  struct facetT* next;
  setT* vertices;
  unsigned toporient;
} facetT;

struct vqhImpl {
  const double* points = nullptr;
  int npoints = 0;
  std::vector<vertexT> verts;
  std::vector<facetT> facets;
  std::vector<std::vector<char>> setmem;  // backing store of all setT
  int maxvert = -1;
};

typedef struct qhT {
  jmp_buf errexit;
  boolT NOerrexit;
  int num_vertices;
  int num_facets;
  vertexT* vertex_list;
  facetT* facet_list;
  vqhImpl* impl;
} qhT;

#define FORALLvertices for (vertex = qh->vertex_list; vertex; vertex = vertex->next)
#define FORALLfacets for (facet = qh->facet_list; facet; facet = facet->next)
#define FOREACHsetelement_(type, set, variable) \
  if (((variable = NULL), set)) \
    for (variable##p = (type**)&((set)->e[0].p); (variable = *variable##p++);)

static inline void qh_zero(qhT* qh, FILE*) {
  qh->NOerrexit = 1; qh->num_vertices = 0; qh->num_facets = 0;
  qh->vertex_list = nullptr; qh->facet_list = nullptr; qh->impl = nullptr;
}
static inline void qh_init_A(qhT* qh, FILE*, FILE*, FILE*, int, char**) {
  qh->impl = new vqhImpl();
}
static inline void qh_initflags(qhT* qh, char* command) {
  // "qhull Qt [Q9 TA<n>]": TA<n> = stop after n added vertices (=> n+4 hull vertices)
  for (char* p = command; p && *p; p++) {
    if (p[0] == 'T' && p[1] == 'A') qh->impl->maxvert = atoi(p + 2) + 4;
  }
}
static inline void qh_init_B(qhT* qh, coordT* points, int numpoints, int dim, boolT) {
  qh->impl->points = points; qh->impl->npoints = numpoints;
  if (dim != 3) longjmp(qh->errexit, 1);
}

static inline setT* vqh_makeset(vqhImpl* im, const std::vector<void*>& elems) {
  im->setmem.emplace_back(sizeof(setT) + sizeof(setelemT) * (elems.size() + 1));
  setT* s = reinterpret_cast<setT*>(im->setmem.back().data());
  s->maxsize = static_cast<int>(elems.size());
  for (size_t i = 0; i < elems.size(); i++) s->e[i].p = elems[i];
  s->e[elems.size()].p = nullptr;
  return s;
}

static inline bool vqh_compute(qhT* qh) {
  vqhImpl* im = qh->impl;
  const int n = im->npoints;
  const double* P = im->points;
  if (n < 4 || n > VQH_MAXPOINTS) return false;
  if (im->maxvert > -1 && im->maxvert < n) {
    // vertex-limited hulls (maxhullvert) are not modelled by the shim
    return false;
  }
  // scale for tolerances
  double lo[3] = {P[0], P[1], P[2]}, hi[3] = {P[0], P[1], P[2]};
  for (int i = 0; i < n; i++) for (int k = 0; k < 3; k++) {
    lo[k] = std::min(lo[k], P[3*i+k]); hi[k] = std::max(hi[k], P[3*i+k]);
  }
  double scale = std::max({hi[0]-lo[0], hi[1]-lo[1], hi[2]-lo[2]});
  if (!(scale > 0)) return false;
  const double eps = 1e-9 * scale;

  // representative of coincident points
  std::vector<int> rep(n);
  for (int i = 0; i < n; i++) {
    rep[i] = i;
    for (int j = 0; j < i; j++) {
      double d = std::fabs(P[3*i]-P[3*j]) + std::fabs(P[3*i+1]-P[3*j+1]) + std::fabs(P[3*i+2]-P[3*j+2]);
      if (d <= eps) { rep[i] = rep[j]; break; }
    }
  }
  std::vector<int> uniq;
  for (int i = 0; i < n; i++) if (rep[i] == i) uniq.push_back(i);
  const int m = static_cast<int>(uniq.size());

  std::set<std::vector<int>> seenfaces;             // sorted polygon vertex sets
  std::vector<std::array<int, 3>> tris;             // CCW from outside
  for (int a = 0; a < m; a++) for (int b = a + 1; b < m; b++) for (int c = b + 1; c < m; c++) {
    const double* A = P + 3*uniq[a]; const double* B = P + 3*uniq[b]; const double* C = P + 3*uniq[c];
    double u[3] = {B[0]-A[0], B[1]-A[1], B[2]-A[2]}, v[3] = {C[0]-A[0], C[1]-A[1], C[2]-A[2]};
    double nrm[3] = {u[1]*v[2]-u[2]*v[1], u[2]*v[0]-u[0]*v[2], u[0]*v[1]-u[1]*v[0]};
    double len = std::sqrt(nrm[0]*nrm[0]+nrm[1]*nrm[1]+nrm[2]*nrm[2]);
    if (len <= eps * scale) continue;  // collinear
    nrm[0] /= len; nrm[1] /= len; nrm[2] /= len;
    int npos = 0, nneg = 0;
    std::vector<int> onplane;
    for (int q = 0; q < m && !(npos && nneg); q++) {
      const double* Q = P + 3*uniq[q];
      double d = nrm[0]*(Q[0]-A[0]) + nrm[1]*(Q[1]-A[1]) + nrm[2]*(Q[2]-A[2]);
      if (d > eps) npos++; else if (d < -eps) nneg++; else onplane.push_back(q);
    }
    if (npos && nneg) continue;
    if (!npos && !nneg) return false;  // all coplanar
    if (npos) { nrm[0] = -nrm[0]; nrm[1] = -nrm[1]; nrm[2] = -nrm[2]; }  // outward
    // 2D convex polygon of the on-plane points, CCW about the outward normal
    double e1[3] = {u[0], u[1], u[2]};
    double l1 = std::sqrt(e1[0]*e1[0]+e1[1]*e1[1]+e1[2]*e1[2]);
    e1[0] /= l1; e1[1] /= l1; e1[2] /= l1;
    double e2[3] = {nrm[1]*e1[2]-nrm[2]*e1[1], nrm[2]*e1[0]-nrm[0]*e1[2], nrm[0]*e1[1]-nrm[1]*e1[0]};
    std::vector<std::array<double, 2>> xy(onplane.size());
    for (size_t k = 0; k < onplane.size(); k++) {
      const double* Q = P + 3*uniq[onplane[k]];
      double w[3] = {Q[0]-A[0], Q[1]-A[1], Q[2]-A[2]};
      xy[k] = {w[0]*e1[0]+w[1]*e1[1]+w[2]*e1[2], w[0]*e2[0]+w[1]*e2[1]+w[2]*e2[2]};
    }
    // Andrew monotone chain, strict (drops collinear boundary points)
    std::vector<int> idx(onplane.size());
    for (size_t k = 0; k < idx.size(); k++) idx[k] = static_cast<int>(k);
    std::sort(idx.begin(), idx.end(), [&](int i, int j) {
      return xy[i][0] < xy[j][0] || (xy[i][0] == xy[j][0] && xy[i][1] < xy[j][1]); });
    auto cross = [&](int o, int p, int q) {
      return (xy[p][0]-xy[o][0])*(xy[q][1]-xy[o][1]) - (xy[p][1]-xy[o][1])*(xy[q][0]-xy[o][0]); };
    std::vector<int> hull;
    const double eps2 = eps * scale;
    for (int pass = 0; pass < 2; pass++) {
      size_t start = hull.size();
      for (size_t t = 0; t < idx.size(); t++) {
        int k = pass ? idx[idx.size()-1-t] : idx[t];
        while (hull.size() >= start + 2 && cross(hull[hull.size()-2], hull.back(), k) <= eps2) hull.pop_back();
        hull.push_back(k);
      }
      hull.pop_back();
    }
    if (hull.size() < 3) continue;
    std::vector<int> key;
    for (int h : hull) key.push_back(onplane[h]);
    std::vector<int> sorted = key;
    std::sort(sorted.begin(), sorted.end());
    if (!seenfaces.insert(sorted).second) continue;
    // rotate so the smallest index is first, then fan-triangulate
    size_t minpos = std::min_element(key.begin(), key.end()) - key.begin();
    std::rotate(key.begin(), key.begin() + minpos, key.end());
    for (size_t t = 1; t + 1 < key.size(); t++) tris.push_back({uniq[key[0]], uniq[key[t]], uniq[key[t+1]]});
  }

  // self-check: closed oriented 2-manifold, Euler, convexity
  std::map<std::pair<int,int>, int> edges;
  std::set<int> vs;
  for (auto& t : tris) for (int k = 0; k < 3; k++) {
    edges[{t[k], t[(k+1)%3]}]++; vs.insert(t[k]);
  }
  bool okm = !tris.empty();
  for (auto& e : edges) {
    if (e.second != 1) okm = false;
    auto r = edges.find({e.first.second, e.first.first});
    if (r == edges.end() || r->second != 1) okm = false;
  }
  if (okm && static_cast<int>(vs.size()) - static_cast<int>(edges.size())/2 + static_cast<int>(tris.size()) != 2) okm = false;
  if (!okm) return false;

  // build qhull-like structures
  std::vector<int> vid(vs.begin(), vs.end());
  std::map<int, int> vindex;
  im->verts.resize(vid.size());
  im->facets.resize(tris.size());
  for (size_t i = 0; i < vid.size(); i++) {
    vindex[vid[i]] = static_cast<int>(i);
    im->verts[i].point = const_cast<double*>(P) + 3*vid[i];
    im->verts[i].next = i + 1 < vid.size() ? &im->verts[i+1] : nullptr;
    im->verts[i].neighbors = nullptr;
  }
  for (size_t f = 0; f < tris.size(); f++) {
    std::vector<void*> el = {&im->verts[vindex[tris[f][0]]], &im->verts[vindex[tris[f][1]]],
                             &im->verts[vindex[tris[f][2]]]};
    im->facets[f].vertices = vqh_makeset(im, el);
    im->facets[f].toporient = 0;
    im->facets[f].next = f + 1 < tris.size() ? &im->facets[f+1] : nullptr;
  }
  qh->num_vertices = static_cast<int>(vid.size());
  qh->num_facets = static_cast<int>(tris.size());
  qh->vertex_list = im->verts.data();
  qh->facet_list = im->facets.data();
  return true;
}

// no non-trivial locals here: the error exit is a longjmp
static inline void qh_qhull(qhT* qh) {
  if (!vqh_compute(qh)) longjmp(qh->errexit, 1);
}

static inline void qh_triangulate(qhT*) {}

static inline void qh_vertexneighbors(qhT* qh) {
  vqhImpl* im = qh->impl;
  std::vector<std::vector<void*>> nb(im->verts.size());
  for (auto& f : im->facets) {
    for (int k = 0; k < 3; k++) {
      vertexT* v = static_cast<vertexT*>(f.vertices->e[k].p);
      nb[v - im->verts.data()].push_back(&f);
    }
  }
  for (size_t i = 0; i < im->verts.size(); i++) im->verts[i].neighbors = vqh_makeset(im, nb[i]);
}

static inline int qh_pointid(qhT* qh, pointT* point) {
  if (!point) return -3;
  long off = point - qh->impl->points;
  if (off < 0 || off >= 3L * qh->impl->npoints) return -1;
  return static_cast<int>(off / 3);
}

static inline void qh_freeqhull(qhT* qh, boolT) {
  delete qh->impl; qh->impl = nullptr;
  qh->vertex_list = nullptr; qh->facet_list = nullptr;
}
static inline void qh_memfreeshort(qhT*, int* curlong, int* totlong) { *curlong = 0; *totlong = 0; }

#endif  // VERIF_QHULL_RA_SHIM_H_
