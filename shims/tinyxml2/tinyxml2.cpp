// expat-backed implementation of the tinyxml2 API subset (verification double).
#include "tinyxml2.h"

#include <expat.h>

#include <cstdio>
#include <cstring>
#include <string>

namespace tinyxml2 {

// ---------------------------------------------------------------- XMLNode
XMLElement* XMLNode::FirstChildElement(const char* name) {
  for (XMLNode* n = first_; n; n = n->next_) {
    XMLElement* e = n->ToElement();
    if (e && (!name || !std::strcmp(e->Value(), name))) return e;
  }
  return nullptr;
}

XMLElement* XMLNode::NextSiblingElement(const char* name) {
  for (XMLNode* n = next_; n; n = n->next_) {
    XMLElement* e = n->ToElement();
    if (e && (!name || !std::strcmp(e->Value(), name))) return e;
  }
  return nullptr;
}

void XMLNode::Unlink(XMLNode* c) {
  if (c->prev_) c->prev_->next_ = c->next_; else first_ = c->next_;
  if (c->next_) c->next_->prev_ = c->prev_; else last_ = c->prev_;
  c->prev_ = c->next_ = nullptr;
  c->parent_ = nullptr;
}

XMLNode* XMLNode::InsertEndChild(XMLNode* add) {
  if (!add || add->doc_ != doc_) return nullptr;
  if (add->parent_) add->parent_->Unlink(add);
  add->prev_ = last_;
  add->next_ = nullptr;
  if (last_) last_->next_ = add; else first_ = add;
  last_ = add;
  add->parent_ = this;
  return add;
}

XMLNode* XMLNode::InsertFirstChild(XMLNode* add) {
  if (!add || add->doc_ != doc_) return nullptr;
  if (add->parent_) add->parent_->Unlink(add);
  add->next_ = first_;
  add->prev_ = nullptr;
  if (first_) first_->prev_ = add; else last_ = add;
  first_ = add;
  add->parent_ = this;
  return add;
}

XMLNode* XMLNode::InsertAfterChild(XMLNode* after, XMLNode* add) {
  if (!add || add->doc_ != doc_) return nullptr;
  if (!after || after->parent_ != this) return nullptr;
  if (after == add) return add;
  if (after == last_) return InsertEndChild(add);
  if (add->parent_) add->parent_->Unlink(add);
  add->prev_ = after;
  add->next_ = after->next_;
  after->next_->prev_ = add;
  after->next_ = add;
  add->parent_ = this;
  return add;
}

void XMLNode::DeleteChild(XMLNode* node) {
  if (!node || node->parent_ != this) return;
  Unlink(node);  // storage is reclaimed with the document
}

void XMLNode::DeleteChildren() {
  while (first_) Unlink(first_);
}

XMLNode* XMLNode::DeepClone(XMLDocument* target) const {
  XMLNode* clone = ShallowClone(target);
  if (!clone) return nullptr;
  for (const XMLNode* c = first_; c; c = c->next_) {
    XMLNode* cc = c->DeepClone(target);
    if (cc) clone->InsertEndChild(cc);
  }
  return clone;
}

// ---------------------------------------------------------------- XMLComment
XMLNode* XMLComment::ShallowClone(XMLDocument* target) const {
  XMLDocument* d = target ? target : doc_;
  XMLComment* c = d->NewComment(Value());
  c->line_ = line_;
  return c;
}

// ---------------------------------------------------------------- XMLElement
const XMLAttribute* XMLElement::FindAttribute(const char* name) const {
  for (const XMLAttribute* a = attrs_; a; a = a->next_) {
    if (!std::strcmp(a->Name(), name)) return a;
  }
  return nullptr;
}

const char* XMLElement::Attribute(const char* name, const char* value) const {
  const XMLAttribute* a = FindAttribute(name);
  if (!a) return nullptr;
  if (!value || !std::strcmp(a->Value(), value)) return a->Value();
  return nullptr;
}

void XMLElement::SetAttribute(const char* name, const char* value) {
  XMLAttribute* lastattr = nullptr;
  for (XMLAttribute* a = attrs_; a; a = a->next_) {
    if (a->name_ == name) { a->value_ = value ? value : ""; return; }
    lastattr = a;
  }
  XMLAttribute* a = doc_->NewAttribute_();
  a->name_ = name;
  a->value_ = value ? value : "";
  if (lastattr) lastattr->next_ = a; else attrs_ = a;
}

void XMLElement::SetAttribute(const char* name, int value) {
  char buf[64]; std::snprintf(buf, sizeof(buf), "%d", value);
  SetAttribute(name, buf);
}
void XMLElement::SetAttribute(const char* name, unsigned value) {
  char buf[64]; std::snprintf(buf, sizeof(buf), "%u", value);
  SetAttribute(name, buf);
}
void XMLElement::SetAttribute(const char* name, double value) {
  char buf[64]; std::snprintf(buf, sizeof(buf), "%.17g", value);
  SetAttribute(name, buf);
}
void XMLElement::SetAttribute(const char* name, bool value) {
  SetAttribute(name, value ? "true" : "false");
}

void XMLElement::DeleteAttribute(const char* name) {
  XMLAttribute* prev = nullptr;
  for (XMLAttribute* a = attrs_; a; prev = a, a = a->next_) {
    if (a->name_ == name) {
      if (prev) prev->next_ = a->next_; else attrs_ = a->next_;
      return;
    }
  }
}

XMLNode* XMLElement::ShallowClone(XMLDocument* target) const {
  XMLDocument* d = target ? target : doc_;
  XMLElement* e = d->NewElement(Value());
  e->line_ = line_;
  for (const XMLAttribute* a = attrs_; a; a = a->next_) {
    e->SetAttribute(a->Name(), a->Value());
  }
  return e;
}

// ---------------------------------------------------------------- XMLDocument
XMLDocument::XMLDocument() : XMLNode(nullptr) { doc_ = this; }
XMLDocument::~XMLDocument() {}

void XMLDocument::Clear() {
  first_ = last_ = nullptr;
  pool_.clear();
  apool_.clear();
  ClearError();
}

XMLElement* XMLDocument::NewElement(const char* name) {
  XMLElement* e = new XMLElement(this);
  e->SetValue(name);
  pool_.emplace_back(e);
  return e;
}

XMLComment* XMLDocument::NewComment(const char* text) {
  XMLComment* c = new XMLComment(this);
  c->SetValue(text);
  pool_.emplace_back(c);
  return c;
}

XMLAttribute* XMLDocument::NewAttribute_() {
  XMLAttribute* a = new XMLAttribute();
  apool_.emplace_back(a);
  return a;
}

namespace {
struct ParseCtx {
  XMLDocument* doc;
  XMLNode* cur;
  XML_Parser parser;
  int depth;
  bool toodeep;
};

void XMLCALL OnStart(void* ud, const XML_Char* name, const XML_Char** atts) {
  ParseCtx* c = static_cast<ParseCtx*>(ud);
  if (++c->depth > 500) {  // tinyxml2's default TINYXML2_MAX_ELEMENT_DEPTH
    c->toodeep = true;
    XML_StopParser(c->parser, XML_FALSE);
    return;
  }
  XMLElement* e = c->doc->NewElement(name);
  e->SetLineNum_(static_cast<int>(XML_GetCurrentLineNumber(c->parser)));
  for (int i = 0; atts[i]; i += 2) e->SetAttribute(atts[i], atts[i + 1]);
  c->cur->InsertEndChild(e);
  c->cur = e;
}

void XMLCALL OnEnd(void* ud, const XML_Char*) {
  ParseCtx* c = static_cast<ParseCtx*>(ud);
  c->depth--;
  if (c->cur->Parent()) c->cur = c->cur->Parent();
}

void XMLCALL OnComment(void* ud, const XML_Char* data) {
  ParseCtx* c = static_cast<ParseCtx*>(ud);
  XMLComment* cm = c->doc->NewComment(data);
  cm->SetLineNum_(static_cast<int>(XML_GetCurrentLineNumber(c->parser)));
  c->cur->InsertEndChild(cm);
}
}  // namespace

XMLError XMLDocument::Parse(const char* xml, size_t nbytes) {
  Clear();
  if (!xml || nbytes == 0 || (nbytes == static_cast<size_t>(-1) && !*xml)) {
    SetError_(XML_ERROR_EMPTY_DOCUMENT, "Error=XML_ERROR_EMPTY_DOCUMENT ErrorID=13 (0xd) Line number=0", 0);
    return error_;
  }
  if (nbytes == static_cast<size_t>(-1)) nbytes = std::strlen(xml);
  // tinyxml2 stops at an embedded NUL
  size_t n = strnlen(xml, nbytes);
  XML_Parser p = XML_ParserCreate(nullptr);
  if (!p) {
    SetError_(XML_ERROR_PARSING, "Error=XML_ERROR_PARSING (out of memory)", 0);
    return error_;
  }
  ParseCtx ctx{this, this, p, 0, false};
  XML_SetUserData(p, &ctx);
  XML_SetElementHandler(p, OnStart, OnEnd);
  XML_SetCommentHandler(p, OnComment);
  // parse in bounded chunks (expat takes an int length)
  XML_Status st = XML_STATUS_OK;
  size_t off = 0;
  const size_t kChunk = 1u << 20;
  while (st == XML_STATUS_OK && off < n) {
    size_t len = n - off < kChunk ? n - off : kChunk;
    st = XML_Parse(p, xml + off, static_cast<int>(len), 0);
    off += len;
  }
  if (st == XML_STATUS_OK) st = XML_Parse(p, xml, 0, 1);
  if (st != XML_STATUS_OK) {
    int line = static_cast<int>(XML_GetCurrentLineNumber(p));
    char buf[512];
    if (ctx.toodeep) {
      std::snprintf(buf, sizeof(buf),
                    "Error=XML_ELEMENT_DEPTH_EXCEEDED ErrorID=18 (0x12) Line number=%d", line);
      SetError_(XML_ELEMENT_DEPTH_EXCEEDED, buf, line);
    } else {
      enum XML_Error code = XML_GetErrorCode(p);
      XMLError mapped = XML_ERROR_PARSING;
      if (code == XML_ERROR_NO_ELEMENTS) mapped = XML_ERROR_EMPTY_DOCUMENT;
      else if (code == XML_ERROR_TAG_MISMATCH) mapped = XML_ERROR_MISMATCHED_ELEMENT;
      std::snprintf(buf, sizeof(buf), "Error=XML_ERROR_PARSING ErrorID=%d (0x%x) Line number=%d: %s",
                    static_cast<int>(mapped), static_cast<int>(mapped), line,
                    XML_ErrorString(code));
      SetError_(mapped, buf, line);
    }
    // like tinyxml2, leave no partial DOM behind
    first_ = last_ = nullptr;
  }
  XML_ParserFree(p);
  return error_;
}

void XMLDocument::Print(XMLPrinter* streamer) const {
  if (streamer) {
    for (const XMLNode* n = first_; n; n = n->next_) streamer->PrintNode_(n, 0);
  } else {
    XMLPrinter pr(stdout);
    for (const XMLNode* n = first_; n; n = n->next_) pr.PrintNode_(n, 0);
    std::fputs(pr.CStr(), stdout);
  }
}

// ---------------------------------------------------------------- XMLPrinter
void XMLPrinter::WriteEscaped_(const std::string& s) {
  for (char ch : s) {
    switch (ch) {
      case '&': buf_ += "&amp;"; break;
      case '<': buf_ += "&lt;"; break;
      case '>': buf_ += "&gt;"; break;
      case '"': buf_ += "&quot;"; break;
      case '\'': buf_ += "&apos;"; break;
      case '\n': buf_ += "&#10;"; break;
      case '\r': buf_ += "&#13;"; break;
      case '\t': buf_ += "&#9;"; break;
      default: buf_ += ch;
    }
  }
}

void XMLPrinter::PrintNode_(const XMLNode* node, int depth) {
  if (!compact_ && !first_) Write("\n");
  if (!compact_) PrintSpace(depth);
  first_ = false;
  if (const XMLComment* c = node->ToComment()) {
    Write("<!--");
    Write(c->Value());
    Write("-->");
    return;
  }
  const XMLElement* e = node->ToElement();
  if (!e) return;
  Write("<");
  Write(e->Value());
  for (const XMLAttribute* a = e->FirstAttribute(); a; a = a->Next()) {
    Write(" ");
    Write(a->Name());
    Write("=\"");
    WriteEscaped_(a->Value());
    Write("\"");
  }
  if (e->NoChildren()) {
    Write("/>");
  } else {
    Write(">");
    for (const XMLNode* ch = e->FirstChild(); ch; ch = ch->NextSibling()) {
      PrintNode_(ch, depth + 1);
    }
    if (!compact_) { Write("\n"); PrintSpace(depth); }
    Write("</");
    Write(e->Value());
    Write(">");
  }
  if (depth == 0 && !compact_) Write("\n");
}

}  // namespace tinyxml2
