// Verification double for the subset of the tinyxml2 API that mujoco's src/xml
// uses. XML well-formedness / tokenisation is delegated to expat; the DOM, the
// printer and everything MuJoCo-side is plain C++. Lives in /verif only.
#ifndef VERIF_TINYXML2_SHIM_H_
#define VERIF_TINYXML2_SHIM_H_

#include <cstddef>
#include <cstdio>
#include <memory>
#include <string>
#include <vector>

namespace tinyxml2 {

enum XMLError {
  XML_SUCCESS = 0,
  XML_NO_ATTRIBUTE,
  XML_WRONG_ATTRIBUTE_TYPE,
  XML_ERROR_FILE_NOT_FOUND,
  XML_ERROR_FILE_COULD_NOT_BE_OPENED,
  XML_ERROR_FILE_READ_ERROR,
  XML_ERROR_PARSING_ELEMENT,
  XML_ERROR_PARSING_ATTRIBUTE,
  XML_ERROR_PARSING_TEXT,
  XML_ERROR_PARSING_CDATA,
  XML_ERROR_PARSING_COMMENT,
  XML_ERROR_PARSING_DECLARATION,
  XML_ERROR_PARSING_UNKNOWN,
  XML_ERROR_EMPTY_DOCUMENT,
  XML_ERROR_MISMATCHED_ELEMENT,
  XML_ERROR_PARSING,
  XML_CAN_NOT_CONVERT_TEXT,
  XML_NO_TEXT_NODE,
  XML_ELEMENT_DEPTH_EXCEEDED,
  XML_ERROR_COUNT
};

class XMLDocument;
class XMLElement;
class XMLComment;
class XMLPrinter;

class XMLAttribute {
 public:
  const char* Name() const { return name_.c_str(); }
  const char* Value() const { return value_.c_str(); }
  const XMLAttribute* Next() const { return next_; }

 private:
  friend class XMLElement;
  friend class XMLDocument;
  std::string name_, value_;
  XMLAttribute* next_ = nullptr;
};

class XMLNode {
 public:
  virtual ~XMLNode() {}
  const char* Value() const { return value_.c_str(); }
  void SetValue(const char* v) { value_ = v ? v : ""; }
  int GetLineNum() const { return line_; }
  void SetLineNum_(int l) { line_ = l; }
  XMLDocument* GetDocument() { return doc_; }
  const XMLDocument* GetDocument() const { return doc_; }

  virtual XMLElement* ToElement() { return nullptr; }
  virtual const XMLElement* ToElement() const { return nullptr; }
  virtual XMLComment* ToComment() { return nullptr; }
  virtual const XMLComment* ToComment() const { return nullptr; }
  virtual XMLDocument* ToDocument() { return nullptr; }

  XMLNode* Parent() { return parent_; }
  const XMLNode* Parent() const { return parent_; }
  bool NoChildren() const { return first_ == nullptr; }
  XMLNode* FirstChild() { return first_; }
  const XMLNode* FirstChild() const { return first_; }
  XMLNode* LastChild() { return last_; }
  XMLNode* NextSibling() { return next_; }
  const XMLNode* NextSibling() const { return next_; }
  XMLNode* PreviousSibling() { return prev_; }

  XMLElement* FirstChildElement(const char* name = nullptr);
  const XMLElement* FirstChildElement(const char* name = nullptr) const {
    return const_cast<XMLNode*>(this)->FirstChildElement(name);
  }
  XMLElement* NextSiblingElement(const char* name = nullptr);
  const XMLElement* NextSiblingElement(const char* name = nullptr) const {
    return const_cast<XMLNode*>(this)->NextSiblingElement(name);
  }

  XMLNode* InsertEndChild(XMLNode* add);
  XMLNode* LinkEndChild(XMLNode* add) { return InsertEndChild(add); }
  XMLNode* InsertFirstChild(XMLNode* add);
  XMLNode* InsertAfterChild(XMLNode* after, XMLNode* add);
  void DeleteChild(XMLNode* node);
  void DeleteChildren();

  virtual XMLNode* ShallowClone(XMLDocument* target) const = 0;
  XMLNode* DeepClone(XMLDocument* target) const;

 protected:
  explicit XMLNode(XMLDocument* doc) : doc_(doc) {}
  void Unlink(XMLNode* child);
  friend class XMLDocument;
  friend class XMLPrinter;
  XMLDocument* doc_;
  XMLNode* parent_ = nullptr;
  XMLNode* first_ = nullptr;
  XMLNode* last_ = nullptr;
  XMLNode* prev_ = nullptr;
  XMLNode* next_ = nullptr;
  std::string value_;
  int line_ = 0;
};

class XMLComment : public XMLNode {
 public:
  XMLComment* ToComment() override { return this; }
  const XMLComment* ToComment() const override { return this; }
  XMLNode* ShallowClone(XMLDocument* target) const override;

 private:
  friend class XMLDocument;
  explicit XMLComment(XMLDocument* doc) : XMLNode(doc) {}
};

class XMLElement : public XMLNode {
 public:
  XMLElement* ToElement() override { return this; }
  const XMLElement* ToElement() const override { return this; }
  const char* Name() const { return Value(); }
  void SetName(const char* n) { SetValue(n); }

  const XMLAttribute* FirstAttribute() const { return attrs_; }
  const XMLAttribute* FindAttribute(const char* name) const;
  const char* Attribute(const char* name, const char* value = nullptr) const;
  void SetAttribute(const char* name, const char* value);
  void SetAttribute(const char* name, int value);
  void SetAttribute(const char* name, unsigned value);
  void SetAttribute(const char* name, double value);
  void SetAttribute(const char* name, bool value);
  void DeleteAttribute(const char* name);
  XMLNode* ShallowClone(XMLDocument* target) const override;

 private:
  friend class XMLDocument;
  friend class XMLPrinter;
  explicit XMLElement(XMLDocument* doc) : XMLNode(doc) {}
  XMLAttribute* attrs_ = nullptr;  // owned by document pool
};

class XMLDocument : public XMLNode {
 public:
  XMLDocument();
  ~XMLDocument() override;
  XMLDocument(const XMLDocument&) = delete;
  XMLDocument& operator=(const XMLDocument&) = delete;

  XMLDocument* ToDocument() override { return this; }
  XMLError Parse(const char* xml, size_t nbytes = static_cast<size_t>(-1));
  XMLElement* RootElement() { return FirstChildElement(); }
  const XMLElement* RootElement() const { return FirstChildElement(); }

  bool Error() const { return error_ != XML_SUCCESS; }
  XMLError ErrorID() const { return error_; }
  const char* ErrorStr() const { return errorstr_.c_str(); }
  int ErrorLineNum() const { return errorline_; }
  void ClearError() { error_ = XML_SUCCESS; errorstr_.clear(); errorline_ = 0; }
  void Clear();

  XMLElement* NewElement(const char* name);
  XMLComment* NewComment(const char* text);
  void Print(XMLPrinter* streamer = nullptr) const;
  XMLNode* ShallowClone(XMLDocument*) const override { return nullptr; }

  // internal
  XMLAttribute* NewAttribute_();
  void SetError_(XMLError e, const std::string& s, int line) {
    error_ = e; errorstr_ = s; errorline_ = line;
  }

 private:
  std::vector<std::unique_ptr<XMLNode>> pool_;
  std::vector<std::unique_ptr<XMLAttribute>> apool_;
  XMLError error_ = XML_SUCCESS;
  std::string errorstr_;
  int errorline_ = 0;
};

class XMLPrinter {
 public:
  explicit XMLPrinter(FILE* file = nullptr, bool compact = false, int depth = 0)
      : file_(file), compact_(compact), depth_(depth) {}
  virtual ~XMLPrinter() {}
  const char* CStr() const { return buf_.c_str(); }
  int CStrSize() const { return static_cast<int>(buf_.size()) + 1; }
  void ClearBuffer() { buf_.clear(); }
  void PrintNode_(const XMLNode* node, int depth);

 protected:
  virtual void PrintSpace(int depth) {
    for (int i = 0; i < depth; ++i) Write("    ");
  }
  void Write(const char* data) { buf_ += data; }
  void Write(const char* data, size_t n) { buf_.append(data, n); }

 private:
  void WriteEscaped_(const std::string& s);
  FILE* file_;
  bool compact_;
  int depth_;
  bool first_ = true;
  std::string buf_;
  friend class XMLDocument;
};

}  // namespace tinyxml2

#endif  // VERIF_TINYXML2_SHIM_H_
