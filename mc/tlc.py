"""Run TLC, parse its labelled state graph (-dump dot,actionlabels), build an edge cover."""
from __future__ import annotations

import collections
import os
import re
import shutil
import subprocess

from . import build

VERIF = os.path.dirname(os.path.dirname(os.path.abspath(__file__)))


def run_tlc(module: str, cfg: str, tag: str, timeout=1800):
    """Model-check models/<module>.tla with models/<cfg>; returns (ok, output, dotpath)."""
    wd = os.path.join(build.CACHE, "tlc", tag)
    shutil.rmtree(wd, ignore_errors=True)
    os.makedirs(wd)
    shutil.copy(os.path.join(VERIF, "models", module + ".tla"), wd)
    shutil.copy(os.path.join(VERIF, "models", cfg), os.path.join(wd, module + ".cfg"))
    cmd = ["tlc", "-workers", "1", "-noGenerateSpecTE", "-metadir", os.path.join(wd, "meta"),
           "-dump", "dot,actionlabels", os.path.join(wd, "out"), module]
    r = subprocess.run(cmd, cwd=wd, capture_output=True, text=True, timeout=timeout)
    out = r.stdout + r.stderr
    ok = "Model checking completed. No error has been found." in out
    return ok, out, os.path.join(wd, "out.dot")


_NODE = re.compile(r'^(-?\d+) \[label="((?:[^"\\]|\\.)*)"')
_EDGE = re.compile(r'^(-?\d+) -> (-?\d+) \[label="([^"]*)"')


def parse_dot(path):
    """-> (nodes: id -> label text, edges: list of (u, v, action), init id)"""
    nodes, edges = {}, []
    init = None
    with open(path) as fh:
        for line in fh:
            m = _EDGE.match(line)
            if m:
                edges.append((m.group(1), m.group(2), m.group(3)))
                continue
            m = _NODE.match(line)
            if m:
                if m.group(1) not in nodes:
                    nodes[m.group(1)] = m.group(2).replace('\\"', '"').replace("\\\\", "\\")
                if init is None and "style = filled]" in line and "tooltip" not in line:
                    init = m.group(1)
    return nodes, edges, init


def label_var(label: str, var: str):
    """Extract the printed value of a variable from a TLC state label."""
    m = re.search(r"/\\ " + re.escape(var) + r" = (.*?)(?:\\n|$)", label)
    return m.group(1) if m else None


def edge_cover(nodes, edges, init, skip=lambda u, v, a: False):
    """Greedy set of paths from init that together traverse every (non-skipped) edge.
    Returns list of paths, each a list of (u, v, action)."""
    out = collections.defaultdict(list)
    for u, v, a in edges:
        if not skip(u, v, a):
            out[u].append((u, v, a))
    uncovered = {e for es in out.values() for e in es}
    # BFS tree from init for shortest prefixes
    parent = {init: None}
    depth = {init: 0}
    dq = collections.deque([init])
    while dq:
        u = dq.popleft()
        for e in out[u]:
            if e[1] not in parent:
                parent[e[1]] = e
                depth[e[1]] = depth[u] + 1
                dq.append(e[1])

    def prefix(n):
        p = []
        while parent[n] is not None:
            p.append(parent[n])
            n = parent[n][0]
        return p[::-1]
    paths = []
    while uncovered:
        # start from the uncovered edge closest to init (deterministic order)
        cand = min(uncovered, key=lambda e: (depth.get(e[0], 1 << 30), e))
        if cand[0] not in parent:
            uncovered.discard(cand)   # unreachable (should not happen)
            continue
        path = prefix(cand[0])
        for e in path:
            uncovered.discard(e)
        cur = cand[0]
        # walk preferring uncovered edges until none is adjacent
        while True:
            nxt = [e for e in out[cur] if e in uncovered]
            if not nxt:
                break
            e = min(nxt)
            path.append(e)
            uncovered.discard(e)
            cur = e[1]
        paths.append(path)
    return paths
