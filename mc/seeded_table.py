"""Maintenance tool: summarise seeded/<id>/meta.json as a markdown table (seeded/README.md).

usage: python -m mc.seeded_table
"""
import glob
import json
import os

VERIF = os.path.dirname(os.path.dirname(os.path.abspath(__file__)))


def main():
    rows = []
    for p in sorted(glob.glob(os.path.join(VERIF, "seeded", "*", "meta.json"))):
        m = json.load(open(p))
        name = os.path.basename(os.path.dirname(p))
        v = m.get("verification", {})
        files = ", ".join(os.path.basename(f) for f in m.get("files", []))[:60]
        what = " ".join(str(m.get("what_it_breaks", "")).split())[:230]
        res = []
        for c, r in v.get("checks", {}).items():
            res.append("%s %s: %s (%ss)" % (c, r.get("tier"), "CAUGHT" if r.get("caught") else "missed", r.get("wall_s")))
        hist = []
        for pr in m.get("previous_runs", []):
            for c, r in pr.get("checks", {}).items():
                hist.append("%s %s: %s" % (c, r.get("tier"), "caught" if r.get("caught") else "missed"))
        conf = "yes" if v.get("confirmed") else "no"
        rows.append("| %s | %s | %s | %s | %s | %s |" % (name, files, what.replace("|", "/"), conf, "; ".join(res) or "-",
                                                         " ".join(x for x in [("earlier: " + "; ".join(hist)) if hist else "",
                                                                              " ".join(str(m.get("note", "")).split()).replace("|", "/")] if x)))
    out = ["# Independently seeded property-breaking changes", "",
           "Each change was written by an agent that saw only the property text and a scratch worktree; `confirmed` = the demo passes on "
           "the clean tree, fails with the patch, and the pinned suite still reports 86 passed.  The last column keeps the result of "
           "earlier runs when a check had to be strengthened before it caught the change.", "",
           "| id | files | what breaks | confirmed | check result | history |", "|---|---|---|---|---|---|"] + rows
    with open(os.path.join(VERIF, "seeded", "README.md"), "w") as fh:
        fh.write("\n".join(out) + "\n")
    print("\n".join(out[-len(rows):]))


if __name__ == "__main__":
    main()
