"""Small numpy helpers shared by engine checks (reference-model side)."""
from __future__ import annotations

import numpy as np

mjOBJ_BODY, mjOBJ_XBODY, mjOBJ_JOINT, mjOBJ_DOF, mjOBJ_GEOM, mjOBJ_SITE, mjOBJ_CAMERA, mjOBJ_LIGHT = 1, 2, 3, 4, 5, 6, 7, 8
mjJNT_FREE, mjJNT_BALL, mjJNT_SLIDE, mjJNT_HINGE = 0, 1, 2, 3


def dense(rownnz, rowadr, colind, vals, nr, nc):
    out = np.zeros((nr, nc))
    for r in range(nr):
        a = rowadr[r]
        n = rownnz[r]
        out[r, colind[a:a + n]] = vals[a:a + n]
    return out


def relerr(a, b, atol=1e-12):
    """Scale-aware error max|a-b| / (atol + max(|a|,|b|))."""
    a = np.asarray(a, float)
    b = np.asarray(b, float)
    if a.size == 0:
        return 0.0
    if not (np.all(np.isfinite(a)) and np.all(np.isfinite(b))):
        return float("inf")
    scale = max(np.max(np.abs(a)), np.max(np.abs(b)))
    return float(np.max(np.abs(a - b)) / (atol + scale))


def quat2mat(q):
    w, x, y, z = q
    return np.array([
        [w * w + x * x - y * y - z * z, 2 * (x * y - w * z), 2 * (x * z + w * y)],
        [2 * (x * y + w * z), w * w - x * x + y * y - z * z, 2 * (y * z - w * x)],
        [2 * (x * z - w * y), 2 * (y * z + w * x), w * w - x * x - y * y + z * z]])


def quat_mul(a, b):
    aw, ax, ay, az = a
    bw, bx, by, bz = b
    return np.array([aw * bw - ax * bx - ay * by - az * bz, aw * bx + ax * bw + ay * bz - az * by,
                     aw * by - ax * bz + ay * bw + az * bx, aw * bz + ax * by - ay * bx + az * bw])


def quat_exp(v):
    """Unit quaternion for rotation vector v."""
    v = np.asarray(v, float)
    ang = np.linalg.norm(v)
    if ang < 1e-300:
        return np.array([1.0, 0, 0, 0])
    return np.concatenate([[np.cos(ang / 2)], np.sin(ang / 2) * v / ang])


def set_state(lib, m, d, qpos=None, qvel=None, act=None, ctrl=None):
    if qpos is not None:
        d.qpos[:] = qpos
        # normalise quaternions like mj_normalizeQuat would at step time (inputs are unit already)
    if qvel is not None:
        d.qvel[:] = qvel
    if act is not None and m.na:
        d.act[:] = act
    if ctrl is not None and m.nu:
        d.ctrl[:] = ctrl
