"""Check runner: evidence, violations, known findings, parallel enumeration."""
from __future__ import annotations

import concurrent.futures as cf
import hashlib
import json
import multiprocessing as mp
import os
import sys
import time
import traceback

VERIF = os.path.dirname(os.path.dirname(os.path.abspath(__file__)))
# the two overrides are for maintenance tools (mc.seedrun: runs against a patched scratch tree must not
# overwrite the evidence of /repo); registered commands never set them
EVIDENCE_DIR = os.environ.get("VERIF_EVIDENCE_DIR") or os.path.join(VERIF, "evidence")
REPLAY_DIR = os.environ.get("VERIF_REPLAY_DIR") or os.path.join(VERIF, "replays")
KNOWN = os.path.join(VERIF, "known_findings.jsonl")
NCPU = int(os.environ.get("VERIF_JOBS", os.cpu_count() or 4))


def known_findings(pid: str):
    out = []
    if os.path.exists(KNOWN):
        with open(KNOWN) as fh:
            for line in fh:
                line = line.strip()
                if not line or line.startswith("#"):
                    continue
                e = json.loads(line)
                if e.get("property") == pid:
                    out.append(e)
    return out


def jsonable(x):
    import numpy as np
    if isinstance(x, dict):
        return {str(k): jsonable(v) for k, v in x.items()}
    if isinstance(x, (list, tuple, set, frozenset)):
        return [jsonable(v) for v in x]
    if isinstance(x, np.ndarray):
        return jsonable(x.tolist())
    if isinstance(x, (np.integer,)):
        return int(x)
    if isinstance(x, (np.floating,)):
        x = float(x)
    if isinstance(x, float):
        if x != x or x in (float("inf"), float("-inf")):
            return repr(x)
        return x
    if isinstance(x, bytes):
        return x.decode(errors="replace")
    if isinstance(x, (str, int, bool)) or x is None:
        return x
    return repr(x)


_OUTER_CREATED = False


class Ctx:
    """Per-run context handed to a check's run(ctx)."""

    def __init__(self, pid: str, tier: str, seed: int, level: str):
        self.pid = pid
        self.tier = tier
        self.seed = seed
        self.level = level
        self.thorough = tier == "thorough"
        self.evaluations = 0
        self.nontrivial = set()
        self.nontrivial_extra = 0
        self.samples = []
        self.max_samples = 6
        self.violations = []   # (key, what, replay dict)
        self.known_hits = []
        self.rule = ""
        self.assumptions = []
        self.extra = {}
        self.exhaustive = True
        self.states = 0
        self.transitions = 0
        self.traces = 0
        self.outcomes = set()
        self.t0 = time.time()
        # only the outermost context of a run (the one cli.py creates in the main process) consults the ledger of known findings;
        # contexts that workers build to aggregate their jobs must forward every violation unchanged, otherwise a known finding
        # would be swallowed there and its KNOWN-FINDING line would never be printed
        global _OUTER_CREATED
        import multiprocessing as _mp
        inner = _OUTER_CREATED or _mp.current_process().name != "MainProcess"
        _OUTER_CREATED = True
        self._known = [] if inner else known_findings(pid)

    def q(self, quick, thorough):
        return thorough if self.thorough else quick

    # ---------------------------------------------------------------- counting
    def count(self, n: int = 1, key=None, sample=None):
        self.evaluations += n
        if key is not None:
            self.nontrivial.add(key if isinstance(key, (str, int, tuple)) else repr(key))
        if sample is not None and len(self.samples) < self.max_samples:
            self.samples.append(jsonable(sample))

    def merge(self, part: dict):
        """Merge a worker's partial result (see Part)."""
        self.evaluations += part.get("evaluations", 0)
        for k in part.get("nontrivial", ()):
            self.nontrivial.add(k)
        self.nontrivial_extra += part.get("nontrivial_count", 0)
        for s in part.get("samples", ()):
            if len(self.samples) < self.max_samples:
                self.samples.append(s)
        for v in part.get("violations", ()):
            self.violation(v["key"], v["what"], v.get("replay"))
        self.states += part.get("states", 0)
        self.transitions += part.get("transitions", 0)
        self.traces += part.get("traces", 0)
        for o in part.get("outcomes", ()):
            self.outcomes.add(o)
        for k, v in part.get("extra", {}).items():
            if isinstance(v, (int, float)):
                self.extra[k] = self.extra.get(k, 0) + v
            else:
                self.extra[k] = v
        if part.get("capped"):
            self.exhaustive = False

    # ---------------------------------------------------------------- violations
    def violation(self, key: str, what: str, replay=None):
        """Record a violation identified by `key` (canonical failing input)."""
        for e in self._known:
            if e.get("status", "known") == "known" and e.get("key") == key:
                if key not in [k for k, _ in self.known_hits]:
                    self.known_hits.append((key, e.get("what", what)))
                return
        if any(v[0] == key for v in self.violations):
            return
        self.violations.append((key, what, replay))

    # ---------------------------------------------------------------- finish
    def finish(self) -> int:
        os.makedirs(EVIDENCE_DIR, exist_ok=True)
        wall = time.time() - self.t0
        ndist = len(self.nontrivial) + self.nontrivial_extra
        cov = {
            "evaluations": int(self.evaluations),
            "distinct_nontrivial": int(ndist),
            "rule": self.rule,
            "samples": self.samples[: self.max_samples],
            "exhaustive": bool(self.exhaustive),
        }
        if self.level == "model_checking":
            cov["states"] = int(self.states)
            cov["transitions"] = int(self.transitions)
            cov["traces_validated_against_impl"] = int(self.traces)
            cov["distinct_outcomes"] = len(self.outcomes)
        cov.update(jsonable(self.extra))
        ev = {
            "property_id": self.pid, "tier": self.tier, "seed": int(self.seed), "level": self.level,
            "coverage": cov, "assumptions": self.assumptions, "wall_s": round(wall, 3),
            "violations": len(self.violations),
            "known_findings_hit": [k for k, _ in self.known_hits],
        }
        problems = self_validate(ev)
        path = os.path.join(EVIDENCE_DIR, self.pid + ".json")
        tmp = path + ".%d.tmp" % os.getpid()
        with open(tmp, "w") as fh:
            json.dump(ev, fh, indent=1)
        os.replace(tmp, path)
        for key, what in self.known_hits:
            print("KNOWN-FINDING: property=%s %s [%s]" % (self.pid, what, key))
        rc = 0
        if self.violations:
            os.makedirs(os.path.join(REPLAY_DIR, self.pid), exist_ok=True)
            for key, what, replay in self.violations[:int(os.environ.get("VERIF_MAX_VIOLATIONS", "20"))]:
                h = hashlib.sha1(key.encode()).hexdigest()[:12]
                rp = os.path.join(REPLAY_DIR, self.pid, h + ".json")
                with open(rp, "w") as fh:
                    json.dump(jsonable({"property": self.pid, "key": key, "what": what, "replay": replay}), fh, indent=1)
                print("VIOLATION property=%s replay=%s" % (self.pid, rp))
                print("  " + what[:600])
            rc = 1
        if problems:
            print("EVIDENCE-INVALID %s: %s" % (self.pid, "; ".join(problems)), file=sys.stderr)
            rc = rc or 2
        print("%s %s tier=%s evaluations=%d distinct_nontrivial=%d%s violations=%d known=%d wall=%.1fs" % (
            "OK" if rc == 0 else "FAIL", self.pid, self.tier, self.evaluations, ndist,
            (" states=%d transitions=%d" % (self.states, self.transitions)) if self.level == "model_checking" else "",
            len(self.violations), len(self.known_hits), wall))
        return rc


def self_validate(ev: dict):
    """Minimal re-statement of EVIDENCE.schema.json (jsonschema is not in /venv)."""
    p = []
    cov = ev["coverage"]
    lvl = ev["level"]
    if lvl in ("exploration", "fault_enumeration"):
        if cov.get("evaluations", 0) < 1:
            p.append("evaluations < 1")
        if cov.get("distinct_nontrivial", 0) < 2:
            p.append("distinct_nontrivial < 2")
        if not cov.get("samples"):
            p.append("no samples")
        if not isinstance(cov.get("rule"), str) or not cov.get("rule"):
            p.append("no rule")
    elif lvl == "model_checking":
        if cov.get("states", 0) < 1 or cov.get("transitions", 0) < 1:
            p.append("states/transitions < 1")
        if not cov.get("samples"):
            p.append("no samples")
    return p


class Part(dict):
    """Partial result produced in a worker process."""

    def __init__(self):
        super().__init__(evaluations=0, nontrivial=set(), nontrivial_count=0, samples=[], violations=[],
                         states=0, transitions=0, traces=0, outcomes=set(), extra={}, capped=False)

    def count(self, n=1, key=None, sample=None):
        self["evaluations"] += n
        if key is not None:
            self["nontrivial"].add(key if isinstance(key, (str, int, tuple)) else repr(key))
        if sample is not None and len(self["samples"]) < 3:
            self["samples"].append(jsonable(sample))

    def violation(self, key, what, replay=None):
        if len(self["violations"]) < 50:
            self["violations"].append({"key": key, "what": what, "replay": jsonable(replay)})

    def add(self, name, n=1):
        self["extra"][name] = self["extra"].get(name, 0) + n


def _worker(args):
    fn, chunk = args
    try:
        return fn(chunk)
    except BaseException:
        return {"_exc": traceback.format_exc()}


def pmap(ctx: Ctx, fn, items, nchunks=None):
    """Run fn(chunk)->Part over all items sharded into chunks across processes; merge into ctx.

    The seed only rotates the dispatch order of the chunks: the same space is
    explored for every seed."""
    items = list(items)
    if not items:
        return
    nchunks = nchunks or min(len(items), NCPU * 4)
    chunks = [items[i::nchunks] for i in range(nchunks)]
    chunks = [c for c in chunks if c]
    r = ctx.seed % len(chunks)
    chunks = chunks[r:] + chunks[:r]
    if NCPU <= 1 or len(chunks) == 1:
        for c in chunks:
            res = _worker((fn, c))
            if "_exc" in res:
                raise RuntimeError("worker failed:\n" + res["_exc"])
            ctx.merge(res)
        return
    mpctx = mp.get_context("fork")
    try:
        with cf.ProcessPoolExecutor(max_workers=min(NCPU, len(chunks)), mp_context=mpctx) as ex:
            for res in ex.map(_worker, [(fn, c) for c in chunks]):
                if "_exc" in res:
                    raise RuntimeError("worker failed:\n" + res["_exc"])
                ctx.merge(res)
    except cf.process.BrokenProcessPool:
        # a worker died (signal): find the culprit by re-running chunks one per process
        for c in chunks:
            with cf.ProcessPoolExecutor(max_workers=1, mp_context=mpctx) as ex1:
                try:
                    res = ex1.submit(_worker, (fn, c)).result()
                except cf.process.BrokenProcessPool:
                    ctx.violation("crash", "worker process died (signal) while evaluating chunk starting at %r"
                                  % (jsonable(c[0]),), {"chunk_first": jsonable(c[0])})
                    break
