"""Maintenance tool (never called by a check): static scan of the check modules for defects that only show in rarely
executed paths, i.e. the violation-reporting paths that never run on the unchanged tree -- undefined global names and
%-format arity mismatches.  `python -m mc.lint` prints one line per finding and exits 1 if there is any."""
import sys
FOUND = []
import symtable, builtins, glob, ast
def scan(path):
    src=open(path).read()
    top=symtable.symtable(src,path,'exec')
    tree=ast.parse(src)
    modnames=set(s.get_name() for s in top.get_symbols() if s.is_assigned() or s.is_imported() or s.is_namespace())
    star=any(isinstance(n,ast.ImportFrom) and any(a.name=='*' for a in n.names) for n in ast.walk(tree))
    # names declared global inside functions and assigned there
    def walk(t):
        for c in t.get_children():
            for s in c.get_symbols():
                if s.is_declared_global() and s.is_assigned(): modnames.add(s.get_name())
            walk(c)
    walk(top)
    out=[]
    def chk(t):
        for s in t.get_symbols():
            if s.is_referenced() and s.is_global() and s.get_name() not in modnames and not hasattr(builtins,s.get_name()) and not s.get_name().startswith('__'):
                out.append((t.get_name(), t.get_lineno(), s.get_name()))
        for c in t.get_children(): chk(c)
    for c in top.get_children(): chk(c)
    for s in top.get_symbols():
        if s.is_referenced() and not (s.is_assigned() or s.is_imported() or s.is_namespace()) and not hasattr(builtins,s.get_name()) and s.get_name() not in modnames and not s.get_name().startswith('__'):
            out.append(("<module>",0,s.get_name()))
    return star,out
for p in sorted(glob.glob('/verif/mc/**/*.py',recursive=True)):
    try: star,o=scan(p)
    except SyntaxError as e: print("SYNTAX",p,e); continue
    if o and not star:
        for x in o: print(p.replace('/verif/',''),x); FOUND.append(x)

import re
spec=re.compile(r'%(?:\((\w+)\))?[#0\- +]*(\*|\d+)?(?:\.(\*|\d+))?[hlL]?([diouxXeEfFgGcrsa%])')
def conststr(n):
    if isinstance(n,ast.Constant) and isinstance(n.value,str): return n.value
    if isinstance(n,ast.BinOp) and isinstance(n.op,ast.Add):
        a,b=conststr(n.left),conststr(n.right)
        if a is not None and b is not None: return a+b
    return None
for p in sorted(glob.glob('/verif/mc/**/*.py',recursive=True)):
    t=ast.parse(open(p).read())
    for n in ast.walk(t):
        if isinstance(n,ast.BinOp) and isinstance(n.op,ast.Mod):
            s=conststr(n.left)
            if s is None: continue
            need=0; named=False
            for m in spec.finditer(s):
                if m.group(4)=='%': continue
                if m.group(1): named=True; continue
                need+=1+(m.group(2)=='*')+(m.group(3)=='*')
            if named: continue
            if isinstance(n.right,ast.Tuple):
                if any(isinstance(e,ast.Starred) for e in n.right.elts): continue
                have=len(n.right.elts)
                if have!=need: print(p.replace('/verif/',''),n.lineno,"need",need,"have",have); FOUND.append(n.lineno)
            elif isinstance(n.right,(ast.Constant,ast.Name,ast.Attribute,ast.Subscript,ast.Call)) and need>1 and isinstance(n.right,ast.Constant):
                print(p.replace('/verif/',''),n.lineno,"need",need,"scalar")

sys.exit(1 if FOUND else 0)
