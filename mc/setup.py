"""setup_cmd: build everything the checks need from files on disk (offline)."""
import sys
import time

from . import build


def main():
    t = time.time()
    for v in ("rel", "asan"):
        p = build.ensure(v)
        print("built", v, p, "%.0fs" % (time.time() - t), flush=True)
    return 0


if __name__ == "__main__":
    sys.exit(main())
