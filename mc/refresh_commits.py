"""Refresh the 'commit' field of fixed entries in known_findings.jsonl from /repo's fix: commits
(matched by the first words of the commit subject stored in 'fix_subject' or by the old hash's subject)."""
import json
import subprocess
import sys

def main():
    log = subprocess.check_output(["git", "-C", "/repo", "log", "--format=%h\t%s"]).decode().splitlines()
    subj = {}
    for line in log:
        h, s = line.split("\t", 1)
        if s.startswith("fix:"):
            subj[s] = h
    out = []
    changed = 0
    for line in open("/verif/known_findings.jsonl"):
        if not line.strip():
            continue
        e = json.loads(line)
        if e.get("status") == "fixed":
            fs = e.get("fix_subject")
            if not fs:
                # first run: learn the subject from the recorded hash if it still exists
                try:
                    fs = subprocess.check_output(["git", "-C", "/repo", "log", "-1", "--format=%s", e["commit"]],
                                                 stderr=subprocess.DEVNULL).decode().strip()
                except subprocess.CalledProcessError:
                    fs = None
            if fs and fs in subj:
                if e.get("commit") != subj[fs]:
                    e["what"] = e["what"].replace(e["commit"], subj[fs])
                    e["commit"] = subj[fs]
                    changed += 1
                e["fix_subject"] = fs
            else:
                print("UNRESOLVED", e["property"], e.get("commit"), e["key"][:60], file=sys.stderr)
        out.append(e)
    with open("/verif/known_findings.jsonl", "w") as fh:
        for e in out:
            fh.write(json.dumps(e) + "\n")
    print("refreshed", changed)

if __name__ == "__main__":
    main()
