"""Confirm an independently seeded property-breaking change and run our check against it.

usage: python -m mc.seedrun <dir with patch.diff, demo.*, meta.json> [--tier quick|thorough] [--name C03-a]

Steps (all in a scratch worktree outside /repo and /verif, removed afterwards):
 1. demo on the clean tree must exit 0;
 2. the patch must apply, the pinned test-suite must stay green (86 passed);
 3. demo on the patched tree must exit non-zero;
 4. `VERIF_REPO=<worktree> ./check <property>` is run and its exit status / VIOLATION keys are recorded.
The confirmed change is stored as /verif/seeded/<name>/ (patch.diff, demo, meta.json).
"""
from __future__ import annotations

import argparse
import glob
import json
import os
import re
import shutil
import subprocess
import sys
import time

VERIF = os.path.dirname(os.path.dirname(os.path.abspath(__file__)))


def sh(cmd, **kw):
    return subprocess.run(cmd, shell=isinstance(cmd, str), capture_output=True, text=True, **kw)


def main():
    ap = argparse.ArgumentParser()
    ap.add_argument("src")
    ap.add_argument("--tier", default="quick")
    ap.add_argument("--name", default=None)
    ap.add_argument("--check", default=None, help="property id(s) to run, comma separated (default: meta property)")
    ap.add_argument("--skip-confirm", action="store_true")
    a = ap.parse_args()
    src = os.path.abspath(a.src)
    meta = json.load(open(os.path.join(src, "meta.json")))
    pid = meta["property"]
    name = a.name or pid
    wt = os.environ.get("SEEDRUN_WT", "/tmp/seedrun_wt")          # fixed path: the content-addressed cache then only rebuilds what the patch touches
    cache = os.path.join(VERIF, ".cache")
    sh(["git", "-C", "/repo", "worktree", "remove", "--force", wt])
    env = dict(os.environ, VERIF_REPO=wt, VERIF_CACHE=cache, PYTHONPATH=VERIF)
    res = {"property": pid, "name": name, "ran_at": time.strftime("%Y-%m-%d %H:%M:%S")}
    r = sh(["git", "-C", "/repo", "worktree", "add", "-q", "--detach", wt, "HEAD"])
    if r.returncode:
        print("worktree failed", r.stderr)
        return 2
    try:
        demo = meta.get("demo_cmd", "")
        # normalise the demo command: run from the stored directory with our interpreter
        demofile = None
        for f in ("demo.py", "demo.cc", "demo.c", "demo.sh"):
            if os.path.exists(os.path.join(src, f)):
                demofile = f
                break
        def run_demo():
            if demofile == "demo.py":
                return sh(["/venv/bin/python", os.path.join(src, "demo.py")], env=env, cwd=src, timeout=3600)
            if demofile == "demo.sh":
                return sh(["bash", os.path.join(src, "demo.sh")], env=env, cwd=src, timeout=3600)
            return sh(demo, env=env, cwd=src, timeout=3600)
        if not a.skip_confirm:
            d0 = run_demo()
            res["demo_clean_exit"] = d0.returncode
        r = sh(["git", "-C", wt, "apply", os.path.join(src, "patch.diff")])
        res["patch_applies"] = r.returncode == 0
        if r.returncode:
            print("patch does not apply:", r.stderr[:500])
            res["error"] = r.stderr[:500]
        else:
            if not a.skip_confirm:
                t = sh("/venv/bin/python -m pytest -q -p no:cacheprovider --timeout=900 test/doc doc/ext 2>&1 | tail -1", cwd=wt)
                res["pinned_tests"] = t.stdout.strip()
                d1 = run_demo()
                res["demo_patched_exit"] = d1.returncode
                res["demo_patched_output"] = (d1.stdout + d1.stderr)[-600:]
            checks = (a.check or pid).split(",")
            res["checks"] = {}
            for c in checks:
                t0 = time.time()
                scratch = wt + ".out"
                env2 = dict(os.environ, VERIF_REPO=wt, VERIF_EVIDENCE_DIR=scratch + "/evidence", VERIF_REPLAY_DIR=scratch + "/replays")
                r = sh(["./check", c, "--tier", a.tier], env=env2, cwd=VERIF, timeout=6 * 3600)
                keys = []
                for m in re.finditer(r"VIOLATION property=\S+ replay=(\S+)", r.stdout):
                    try:
                        keys.append(json.load(open(m.group(1)))["key"][:200])
                    except Exception:
                        keys.append("?")
                res["checks"][c] = {"tier": a.tier, "exit": r.returncode, "caught": r.returncode == 1,
                                    "violation_keys": keys[:8], "wall_s": round(time.time() - t0, 1),
                                    "cmd": "VERIF_REPO=<worktree with patch> ./check %s --tier %s" % (c, a.tier),
                                    "tail": r.stdout.strip().splitlines()[-1:] + r.stderr.strip().splitlines()[-2:]}
    finally:
        sh(["git", "-C", "/repo", "worktree", "remove", "--force", wt])
        shutil.rmtree(wt + ".out", ignore_errors=True)
    confirmed = a.skip_confirm or (res.get("demo_clean_exit") == 0 and res.get("patch_applies") and
                                   res.get("demo_patched_exit", 0) != 0 and "86 passed" in res.get("pinned_tests", ""))
    res["confirmed"] = bool(confirmed)
    dst = os.path.join(VERIF, "seeded", name)
    os.makedirs(dst, exist_ok=True)
    for f in os.listdir(src):
        if f.endswith((".diff", ".py", ".cc", ".c", ".sh", ".md", ".xml")) and os.path.getsize(os.path.join(src, f)) < 200000:
            shutil.copy(os.path.join(src, f), dst)
    meta_out = dict(meta)
    # keep the record of earlier runs (e.g. "missed" before the check was strengthened)
    prev = []
    try:
        old = json.load(open(os.path.join(dst, "meta.json")))
        prev = old.get("previous_runs", [])
        if "verification" in old:
            prev.append(old["verification"])
    except Exception:
        pass
    if a.skip_confirm and prev:
        for k in ("demo_clean_exit", "demo_patched_exit", "pinned_tests", "demo_patched_output"):
            if k in prev[-1]:
                res.setdefault(k, prev[-1][k])
    meta_out["verification"] = res
    if prev:
        meta_out["previous_runs"] = prev
    with open(os.path.join(dst, "meta.json"), "w") as fh:
        json.dump(meta_out, fh, indent=1)
    print(json.dumps(res, indent=1)[:3000])
    return 0


if __name__ == "__main__":
    sys.exit(main())
