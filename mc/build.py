"""Content-addressed incremental build of the tree's C/C++ code.

Every check calls ``ensure(variant)`` (or ``ensure_exe``): objects are cached
under /verif/.cache keyed by sha1(compiler command, TU text, digest of every
header under /repo/{include,src,plugin} and /verif/shims), so a check always
runs against the *current working tree* of /repo and an untouched tree costs
one hash pass.
"""
from __future__ import annotations

import concurrent.futures as cf
import functools
import glob
import hashlib
import os
import subprocess
import sys
import threading

REPO = os.environ.get("VERIF_REPO", "/repo")
VERIF = os.path.dirname(os.path.dirname(os.path.abspath(__file__)))
CACHE = os.environ.get("VERIF_CACHE", os.path.join(VERIF, ".cache"))
SHIMS = os.path.join(VERIF, "shims")
NATIVE = os.path.join(VERIF, "native")

CC = "clang"
CXX = "clang++"

COMMON = [
    "-fPIC", "-fexceptions", "-g1",
    "-D_GNU_SOURCE", "-DCCD_STATIC_DEFINE", "-DMUJOCO_DLL_EXPORTS", "-DMC_IMPLEM_ENABLE",
    "-DmjUSEPLATFORMSIMD", "-mavx",
    "-Wno-unused-variable", "-Wno-unused-but-set-variable", "-w",
    "-I" + os.path.join(REPO, "include"), "-I" + os.path.join(REPO, "src"),
    "-I" + SHIMS, "-I" + os.path.join(SHIMS, "misc"), "-I" + os.path.join(SHIMS, "tinyxml2"),
    "-I" + NATIVE,
]

VARIANTS = {
    # no fast-math, default visibility
    "rel": ["-O2"],
    "asan": ["-O1", "-fsanitize=address,undefined", "-fno-sanitize-recover=undefined",
             "-fno-omit-frame-pointer", "-fno-sanitize=function,vptr"],
    "tsan": ["-O1", "-fsanitize=thread", "-fno-omit-frame-pointer"],
}

_lock = threading.Lock()


def _sha(*parts: bytes | str) -> str:
    h = hashlib.sha1()
    for p in parts:
        if isinstance(p, str):
            p = p.encode()
        h.update(p)
        h.update(b"\0")
    return h.hexdigest()


def _read(path: str) -> bytes:
    with open(path, "rb") as f:
        return f.read()


@functools.lru_cache(maxsize=None)
def header_digest(native: bool = False) -> str:
    """Digest of every header / .inc that a TU could include."""
    files = []
    roots = (os.path.join(REPO, "include"), os.path.join(REPO, "src"),
             os.path.join(REPO, "plugin"), SHIMS)
    if native:
        roots = roots + (NATIVE,)
    for root in roots:
        for dp, dn, fn in os.walk(root):
            dn[:] = [d for d in dn if d not in ("experimental", "render", "filament")]
            for f in fn:
                if f.endswith((".h", ".hh", ".hpp", ".inc", ".schema")):
                    files.append(os.path.join(dp, f))
    files.sort()
    h = hashlib.sha1()
    for f in files:
        h.update(f.encode())
        h.update(_read(f))
    return h.hexdigest()


def lib_sources() -> list[str]:
    src = []
    src += sorted(glob.glob(os.path.join(REPO, "src/engine/*.c")))
    src += sorted(glob.glob(os.path.join(REPO, "src/engine/*.cc")))
    src += sorted(glob.glob(os.path.join(REPO, "src/user/*.c")))
    src += sorted(glob.glob(os.path.join(REPO, "src/user/*.cc")))
    src += sorted(glob.glob(os.path.join(REPO, "src/xml/*.cc")))
    src += [os.path.join(SHIMS, "tinyxml2/tinyxml2.cpp")]
    # first-party plugins that build without third-party sources
    src += sorted(glob.glob(os.path.join(REPO, "plugin/actuator/*.cc")))
    src += sorted(glob.glob(os.path.join(REPO, "plugin/elasticity/*.cc")))
    src += sorted(glob.glob(os.path.join(REPO, "plugin/sensor/*.cc")))
    src += sorted(glob.glob(os.path.join(REPO, "plugin/sdf/*.cc")))
    src += sorted(glob.glob(os.path.join(REPO, "plugin/stl_decoder/*.cc")))
    return src


def _compile_cmd(src: str, variant_flags: list[str], extra: list[str]) -> list[str]:
    if src.endswith(".c"):
        return [CC, "-std=gnu11"] + COMMON + variant_flags + extra + ["-c", src]
    return [CXX, "-std=c++20"] + COMMON + variant_flags + extra + ["-c", src]


def compile_obj(src: str, variant: str, extra: tuple[str, ...] = ()) -> str:
    flags = VARIANTS[variant]
    cmd = _compile_cmd(src, flags, list(extra))
    key = _sha(" ".join(cmd), _read(src), header_digest((not src.startswith(REPO + "/")) or ("-include" in extra)))
    out = os.path.join(CACHE, "obj", variant, key + ".o")
    if os.path.exists(out):
        return out
    os.makedirs(os.path.dirname(out), exist_ok=True)
    tmp = out + ".%d.tmp" % os.getpid()
    r = subprocess.run(cmd + ["-o", tmp], capture_output=True, text=True)
    if r.returncode != 0:
        raise BuildError("BUILD ERROR %s\n%s\n" % (" ".join(cmd), r.stderr[-3000:]))
    os.replace(tmp, out)
    return out


class BuildError(Exception):
    pass


def compile_many(srcs: list[str], variant: str, extra: tuple[str, ...] = ()) -> list[str]:
    try:
        with cf.ThreadPoolExecutor(max_workers=os.cpu_count() or 4) as ex:
            return list(ex.map(lambda s: compile_obj(s, variant, extra), srcs))
    except BuildError as e:
        sys.stderr.write(str(e))
        raise SystemExit(2)


def _link_flags(variant: str) -> list[str]:
    f = [x for x in VARIANTS[variant] if x.startswith("-fsanitize") or x.startswith("-fno-sanitize")]
    return f + ["-lexpat", "-lpthread", "-lm", "-ldl"]


def ensure(variant: str = "rel", with_support: bool = True) -> str:
    """Build (if needed) and return the path of the tree-built shared library."""
    with _lock:
        srcs = lib_sources()
        if with_support:
            from . import gen_wrappers
            wcc, _ = gen_wrappers.ensure()
            srcs = srcs + [os.path.join(NATIVE, "support.cc"), wcc]
        objs = compile_many(srcs, variant)
        key = _sha(variant, *objs)
        outdir = os.path.join(CACHE, "lib", variant, key)
        out = os.path.join(outdir, "libmujoco_verif.so")
        if os.path.exists(out):
            return out
        os.makedirs(outdir, exist_ok=True)
        tmp = out + ".%d.tmp" % os.getpid()
        cmd = [CXX, "-shared", "-Wl,-Bsymbolic", "-o", tmp] + objs + _link_flags(variant)
        r = subprocess.run(cmd, capture_output=True, text=True)
        if r.returncode != 0:
            sys.stderr.write("LINK ERROR\n%s\n" % r.stderr[-4000:])
            raise SystemExit(2)
        os.replace(tmp, out)
        return out


def ensure_exe(name: str, sources: list[str], variant: str = "rel", extra: tuple[str, ...] = (),
               link_lib: bool = True, libs: tuple[str, ...] = (), sched: tuple[str, ...] = (),
               static: bool = False, per_source: dict | None = None) -> str:
    """Build a native driver (sources relative to /verif/native) against the tree library.

    sched: repo-relative sources of the code under test that are compiled *unmodified* with the
    scheduler prelude force-included (-include vsched/vsched_prelude.h) and linked into the
    executable together with the vsched runtime.  static=True links every library object into
    the executable (the scheduled objects replace the plain ones), so that internal calls of the
    engine reach the scheduled code too.  per_source: {repo-relative source: (extra flags)}.
    """
    per_source = per_source or {}
    with _lock:
        srcs = [s if os.path.isabs(s) else os.path.join(NATIVE, s) for s in sources]
        objs = compile_many(srcs, variant, extra)
        sched_objs = []
        if sched or per_source:
            # -finstrument-functions: function entries are the progress indicator of the scheduler's spin rule
            pre = ("-include", os.path.join(NATIVE, "vsched", "vsched_prelude.h"), "-finstrument-functions-after-inlining")
            for rel in sched:
                sched_objs.append(compile_obj(os.path.join(REPO, rel), variant, tuple(pre) + tuple(per_source.get(rel, ()))))
            for rel, fl in per_source.items():
                if rel not in sched:
                    sched_objs.append(compile_obj(os.path.join(REPO, rel), variant, tuple(fl)))
            objs = objs + sched_objs + [compile_obj(os.path.join(NATIVE, "vsched", "vsched_rt.cc"), variant)]
        libobjs = []
        if static:
            replaced = {os.path.join(REPO, r) for r in list(sched) + list(per_source)}
            from . import gen_wrappers
            wcc, _ = gen_wrappers.ensure()
            lsrcs = [s for s in lib_sources() if s not in replaced] + [os.path.join(NATIVE, "support.cc"), wcc]
            libobjs = compile_many(lsrcs, variant)
    lib = ensure(variant) if (link_lib and not static) else None
    with _lock:
        key = _sha(name, variant, lib or "", *objs, *libobjs, *libs)
        outdir = os.path.join(CACHE, "exe", variant, key)
        out = os.path.join(outdir, name)
        if os.path.exists(out):
            return out
        os.makedirs(outdir, exist_ok=True)
        tmp = out + ".%d.tmp" % os.getpid()
        cmd = [CXX, "-o", tmp] + objs + libobjs
        if lib:
            cmd += [lib, "-Wl,-rpath," + os.path.dirname(lib)]
        cmd += list(libs) + _link_flags(variant)
        r = subprocess.run(cmd, capture_output=True, text=True)
        if r.returncode != 0:
            sys.stderr.write("LINK ERROR %s\n%s\n" % (name, r.stderr[-4000:]))
            raise SystemExit(2)
        os.replace(tmp, out)
        return out


if __name__ == "__main__" and __package__:
    for v in sys.argv[1:] or ["rel"]:
        print(v, ensure(v))
