"""Shared finite alphabets: kinematic trees, joint menus, poses, state lattices, option lattices.

Models are emitted as MJCF text and compiled by the tree's own reader/compiler, so
the compiler is always in the loop.  Everything here is a deterministic generator
(no randomness): the same call enumerates the same space.
"""
from __future__ import annotations

import itertools
import math

import numpy as np

# ------------------------------------------------------------------ topology


def forests(n: int):
    """All rooted ordered forests with n bodies under the world, as parent tuples in
    pre-order numbering (parent[i] in {-1, 0..i-1}).  Count = Catalan(n): 1, 2, 5, 14."""
    def rec(par):
        i = len(par)
        if i == n:
            yield tuple(par)
            return
        # parent of i must be -1 or on the path from i-1 to its root
        cands = [-1]
        j = i - 1
        while j >= 0:
            cands.append(j)
            j = par[j]
        for c in cands:
            yield from rec(par + [c])
    if n == 0:
        yield ()
    else:
        yield from rec([])


def all_forests(nmax: int):
    for n in range(1, nmax + 1):
        yield from forests(n)


# ------------------------------------------------------------------ menus

AXES = ["1 0 0", "0 0 1", "%.17g %.17g %.17g" % (1 / math.sqrt(14), 2 / math.sqrt(14), 3 / math.sqrt(14))]
ANCHORS = ["0 0 0", "0.05 -0.03 0.07"]
FRAMES = [  # (pos, quat)
    ("0 0 0", "1 0 0 0"),
    ("0.2 0.1 -0.15", "1 0 0 0"),
    ("0.15 -0.2 0.1", "0.8 0.2 -0.4 0.4"),   # normalised by the compiler
]
GEOMS = {
    "sphere": 'type="sphere" size="0.07"',
    "capsule": 'type="capsule" size="0.04 0.1"',
    "ellipsoid": 'type="ellipsoid" size="0.05 0.07 0.09"',
    "cylinder": 'type="cylinder" size="0.05 0.08"',
    "box": 'type="box" size="0.05 0.07 0.09"',
}
GEOM_ORDER = ["sphere", "capsule", "ellipsoid", "cylinder", "box"]

# joint menu entry -> list of (type, axis index offset) ; 'free' only allowed on roots
JOINTS = {
    "none": [],
    "hinge": [("hinge", 0)],
    "slide": [("slide", 0)],
    "ball": [("ball", 0)],
    "free": [("free", 0)],
    "hinge2": [("hinge", 0), ("hinge", 1)],
    "slidehinge": [("slide", 0), ("hinge", 2)],
}
JOINT_NQ = {"hinge": 1, "slide": 1, "ball": 4, "free": 7}
JOINT_NV = {"hinge": 1, "slide": 1, "ball": 3, "free": 6}


def joint_menu(is_root: bool, menu=None):
    menu = menu or ["none", "hinge", "slide", "ball", "free", "hinge2", "slidehinge"]
    return [j for j in menu if is_root or j != "free"]


# ------------------------------------------------------------------ MJCF emission


GPOSE = 'pos="0.03 0.02 -0.05" quat="0.9 0.1 0.3 -0.2"'


def body_xml(i, parents, joints, *, axis=0, anchor=0, frame=1, geom="capsule", jattr="", gattr='contype="0" conaffinity="0"',
             extra_in_body=None, indent="    ", gpose=GPOSE):
    """Recursive body emitter. joints[i] is a JOINTS key; per-body choices may be ints or per-body lists."""
    def pick(x, k):
        return x[k] if isinstance(x, (list, tuple)) else x
    kids = [k for k, p in enumerate(parents) if p == i]
    pos, quat = FRAMES[pick(frame, i) % len(FRAMES)]
    s = '%s<body name="b%d" pos="%s" quat="%s">\n' % (indent, i, pos, quat)
    for jn, (jt, aoff) in enumerate(JOINTS[pick(joints, i)]):
        if jt == "free":
            s += '%s  <joint name="j%d_%d" type="free" %s/>\n' % (indent, i, jn, pick(jattr, i) if "damping" not in pick(jattr, i) else "")
        elif jt == "ball":
            s += '%s  <joint name="j%d_%d" type="ball" pos="%s" %s/>\n' % (indent, i, jn, ANCHORS[pick(anchor, i) % 2], pick(jattr, i))
        else:
            s += '%s  <joint name="j%d_%d" type="%s" axis="%s" pos="%s" %s/>\n' % (
                indent, i, jn, jt, AXES[(pick(axis, i) + aoff) % len(AXES)], ANCHORS[pick(anchor, i) % 2], pick(jattr, i))
    g = pick(geom, i)
    s += '%s  <geom name="g%d" %s %s %s/>\n' % (indent, i, GEOMS[g], pick(gpose, i), pick(gattr, i))
    s += '%s  <site name="s%d" pos="0.02 -0.04 0.06" quat="0.7 -0.1 0.5 0.3"/>\n' % (indent, i)
    if extra_in_body:
        s += pick(extra_in_body, i) if isinstance(extra_in_body, (list, tuple)) else extra_in_body.get(i, "")
    for k in kids:
        s += body_xml(k, parents, joints, axis=axis, anchor=anchor, frame=frame, geom=geom, jattr=jattr, gattr=gattr,
                      extra_in_body=extra_in_body, indent=indent + "  ", gpose=gpose)
    s += "%s</body>\n" % indent
    return s


def tree_mjcf(parents, joints, *, axis=0, anchor=0, frame=1, geom="capsule", jattr="", gattr='contype="0" conaffinity="0"',
              option="", compiler="", default="", world_extra="", sections="", extra_in_body=None, size="", asset="",
              gpose=GPOSE):
    """MJCF for a kinematic forest.  `option` is a full <option> element (see option_elem); `sections`
    is raw XML appended after worldbody (actuator/sensor/tendon/equality/contact/keyframe...)."""
    s = "<mujoco>\n"
    s += '  <compiler angle="radian" %s/>\n' % compiler
    if option:
        s += option + "\n"
    if size:
        s += "  <size %s/>\n" % size
    if default:
        s += "  <default>\n%s\n  </default>\n" % default
    if asset:
        s += "  <asset>\n%s\n  </asset>\n" % asset
    s += "  <worldbody>\n" + world_extra
    for r in [k for k, p in enumerate(parents) if p == -1]:
        s += body_xml(r, parents, joints, axis=axis, anchor=anchor, frame=frame, geom=geom, jattr=jattr, gattr=gattr,
                      extra_in_body=extra_in_body, gpose=gpose)
    s += "  </worldbody>\n" + sections + "</mujoco>\n"
    return s


def mjcf(body: str, *, option_elem="", compiler='angle="radian"', default="", sections="", size="", extension="",
         asset="", visual="", custom=""):
    """Free-form MJCF: body is the content of <worldbody>; option_elem a full <option .../> element."""
    s = "<mujoco>\n  <compiler %s/>\n" % compiler
    s += option_elem + "\n" if option_elem else ""
    if size:
        s += "  <size %s/>\n" % size
    if extension:
        s += "  <extension>%s</extension>\n" % extension
    if visual:
        s += visual + "\n"
    if default:
        s += "  <default>\n%s\n  </default>\n" % default
    if custom:
        s += custom + "\n"
    if asset:
        s += "  <asset>\n%s\n  </asset>\n" % asset
    s += "  <worldbody>\n%s\n  </worldbody>\n%s</mujoco>\n" % (body, sections)
    return s


def option_elem(**kw):
    """Full <option> element. kw: integrator, solver, cone, jacobian, timestep, gravity, tolerance, iterations,
    impratio, noslip_iterations, ... plus flags=dict(...)."""
    flags = kw.pop("flags", None)
    attrs = " ".join('%s="%s"' % (k, v) for k, v in kw.items() if v is not None)
    if flags:
        return "  <option %s><flag %s/></option>" % (attrs, " ".join('%s="%s"' % (k, v) for k, v in flags.items()))
    return "  <option %s/>" % attrs


# ------------------------------------------------------------------ state lattices

SCALAR_Q = [0.0, 0.37, -1.3]
QUATS = [
    (1.0, 0.0, 0.0, 0.0),
    (math.sqrt(0.5), math.sqrt(0.5), 0.0, 0.0),
    (0.5, 0.5, 0.5, 0.5),
    (math.cos((math.pi - 1e-9) / 2), 0.0, math.sin((math.pi - 1e-9) / 2), 0.0),
]
CTRLS = [-1.0, 0.0, 0.6, 2.0]


def qpos_lattice(m, levels=None, quat_levels=None, limit=None):
    """Deterministic list of qpos vectors: each joint cycles through its own alphabet with a
    joint-dependent phase (a covering set, not the full product, unless the product is small).
    Full product is used when it has <= `limit` elements."""
    levels = levels or SCALAR_Q
    quat_levels = quat_levels or QUATS
    jt = list(m.jnt_type)
    adr = list(m.jnt_qposadr)
    doms = []
    for t in jt:
        if t in (2, 3):
            doms.append(levels)
        elif t == 1:
            doms.append(quat_levels)
        else:
            doms.append([(p, q) for p in ((0.0, 0.0, 0.0), (0.3, -0.2, 0.5)) for q in quat_levels])
    total = 1
    for d in doms:
        total *= len(d)
    q0 = np.array(m.qpos0, dtype=float)
    out = []
    if limit is None or total <= limit:
        combos = itertools.product(*doms) if doms else [()]
    else:
        # covering design: k-th vector takes element (k + 2*j) mod len for joint j
        kmax = max(len(d) for d in doms) if doms else 1
        combos = [tuple(d[(k + 2 * j) % len(d)] for j, d in enumerate(doms)) for k in range(kmax * 2)]
    for c in combos:
        q = q0.copy()
        for j, v in enumerate(c):
            a = adr[j]
            if jt[j] in (2, 3):
                q[a] = q0[a] + v
            elif jt[j] == 1:
                q[a:a + 4] = v
            else:
                q[a:a + 3] = q0[a:a + 3] + np.array(v[0])
                q[a + 3:a + 7] = v[1]
        out.append(q)
    return out


def qvel_lattice(nv, mixed=True, units=True):
    out = [np.zeros(nv)]
    if units:
        for i in range(nv):
            e = np.zeros(nv)
            e[i] = 1.0
            out.append(e)
    if mixed and nv:
        out.append(np.array([0.7 * ((-1) ** i) * (1 + 0.3 * i) for i in range(nv)]))
    return out


def icosphere(level=0, radius=0.1):
    """Vertices and faces of an icosphere (deterministic)."""
    t = (1 + 5 ** 0.5) / 2
    v = [(-1, t, 0), (1, t, 0), (-1, -t, 0), (1, -t, 0), (0, -1, t), (0, 1, t), (0, -1, -t), (0, 1, -t),
         (t, 0, -1), (t, 0, 1), (-t, 0, -1), (-t, 0, 1)]
    f = [(0, 11, 5), (0, 5, 1), (0, 1, 7), (0, 7, 10), (0, 10, 11), (1, 5, 9), (5, 11, 4), (11, 10, 2), (10, 7, 6),
         (7, 1, 8), (3, 9, 4), (3, 4, 2), (3, 2, 6), (3, 6, 8), (3, 8, 9), (4, 9, 5), (2, 4, 11), (6, 2, 10), (8, 6, 7), (9, 8, 1)]
    v = [np.array(x, float) / np.linalg.norm(x) for x in v]
    for _ in range(level):
        cache, nf = {}, []

        def mid(a, b):
            k = (min(a, b), max(a, b))
            if k not in cache:
                p = (v[a] + v[b]) / 2
                v.append(p / np.linalg.norm(p))
                cache[k] = len(v) - 1
            return cache[k]
        for a, b, c in f:
            ab, bc, ca = mid(a, b), mid(b, c), mid(c, a)
            nf += [(a, ab, ca), (b, bc, ab), (c, ca, bc), (ab, bc, ca)]
        f = nf
    return np.array(v) * radius, np.array(f, int)


def mesh_asset(name, verts, faces=None):
    vs = " ".join("%.17g" % x for x in np.asarray(verts).ravel())
    if faces is None:
        return '    <mesh name="%s" vertex="%s"/>' % (name, vs)
    fs = " ".join(str(int(x)) for x in np.asarray(faces).ravel())
    return '    <mesh name="%s" vertex="%s" face="%s"/>' % (name, vs, fs)


TETRA = np.array([[0.1, 0.1, 0.1], [0.1, -0.1, -0.1], [-0.1, 0.1, -0.1], [-0.1, -0.1, 0.1]])
OCTA = np.array([[0.1, 0, 0], [-0.1, 0, 0], [0, 0.12, 0], [0, -0.12, 0], [0, 0, 0.08], [0, 0, -0.08]])
