"""./check <id> [--tier quick|thorough] [--replay file]"""
from __future__ import annotations

import argparse
import importlib
import os
import sys
import traceback

from . import core


def main(argv=None):
    ap = argparse.ArgumentParser()
    ap.add_argument("pid")
    ap.add_argument("--tier", default=os.environ.get("VERIF_TIER", "quick"))
    ap.add_argument("--replay", default=None)
    a = ap.parse_args(argv)
    tier = a.tier if a.tier in ("quick", "thorough") else "quick"
    try:
        seed = int(os.environ.get("VERIF_SEED", "0"))
    except ValueError:
        seed = 0
    mod = importlib.import_module("mc.checks." + a.pid)
    ctx = core.Ctx(a.pid, tier, seed, getattr(mod, "LEVEL", "exploration"))
    if a.replay:
        if not hasattr(mod, "replay"):
            print("no replay for", a.pid)
            return 2
        return mod.replay(ctx, a.replay)
    try:
        mod.run(ctx)
    except SystemExit:
        raise
    except BaseException:
        traceback.print_exc()
        print("HARNESS-ERROR %s" % a.pid, file=sys.stderr)
        return 2
    return ctx.finish()


if __name__ == "__main__":
    sys.exit(main())
