"""./check <id> [--tier quick|thorough] [--replay file]"""
from __future__ import annotations

import argparse
import importlib
import os
import sys
import traceback

from . import core


def generic_replay(mod, ctx, path):
    """Checks without a dedicated single-case entry point: print the recorded case (key, observation, input) and re-run the
    check's enumeration, which contains the recorded case; exit 1 iff the recorded root-cause key is raised again (as a
    violation or as a known finding)."""
    import json
    rec = json.load(open(path))
    print("recorded key : %s" % rec.get("key"))
    print("recorded what: %s" % str(rec.get("what"))[:1500])
    print("recorded input: %s" % str(rec.get("replay"))[:3000])
    ctx._known = []          # every key is reported as such during a replay
    mod.run(ctx)
    hit = [(k, w) for k, w, _ in ctx.violations if k == rec.get("key")]
    for k, w in hit:
        print("REPRODUCED %s\n  %s" % (k, w[:1500]))
    if not hit:
        print("not reproduced: the enumeration (tier %s) no longer raises the recorded key" % ctx.tier)
    return 1 if hit else 0


def main(argv=None):
    ap = argparse.ArgumentParser()
    ap.add_argument("pid")
    ap.add_argument("--tier", default=os.environ.get("VERIF_TIER", "quick"))
    ap.add_argument("--replay", default=None)
    a = ap.parse_args(argv)
    tier = a.tier if a.tier in ("quick", "thorough") else "quick"
    try:
        seed = int(os.environ.get("VERIF_SEED", "0"))
    except ValueError:
        seed = 0
    mod = importlib.import_module("mc.checks." + a.pid)
    ctx = core.Ctx(a.pid, tier, seed, getattr(mod, "LEVEL", "exploration"))
    if a.replay:
        if hasattr(mod, "replay"):
            return mod.replay(ctx, a.replay)
        return generic_replay(mod, ctx, a.replay)
    try:
        mod.run(ctx)
    except SystemExit:
        raise
    except BaseException:
        traceback.print_exc()
        print("HARNESS-ERROR %s" % a.pid, file=sys.stderr)
        return 2
    return ctx.finish()


if __name__ == "__main__":
    sys.exit(main())
