"""Maintenance tool (never called by a check): record the violations of one check run as known findings.

usage: python -m mc.register_known <check stdout file> [--note "..."] [--dry]

Reads the `VIOLATION property=<id> replay=<path>` lines of a finished run, loads each replay record and appends one
`status: known` entry per *new* root-cause key to known_findings.jsonl (key, what = first observed instance, input = the
replay record).  Only run by hand after each reported violation has been classified as a genuine defect that is not
repaired; checks themselves never write to the ledger.
"""
import argparse
import json
import os
import re
import sys

VERIF = os.path.dirname(os.path.dirname(os.path.abspath(__file__)))
KNOWN = os.path.join(VERIF, "known_findings.jsonl")


def main():
    ap = argparse.ArgumentParser()
    ap.add_argument("out")
    ap.add_argument("--note", default="")
    ap.add_argument("--dry", action="store_true")
    a = ap.parse_args()
    have = set()
    for line in open(KNOWN):
        line = line.strip()
        if line:
            e = json.loads(line)
            if e.get("status") == "known":
                have.add((e["property"], e["key"]))
    new = []
    for m in re.finditer(r"VIOLATION property=(\S+) replay=(\S+)", open(a.out).read()):
        pid, path = m.group(1), m.group(2)
        try:
            r = json.load(open(path))
        except Exception as ex:
            print("cannot read", path, ex)
            continue
        k = (pid, r["key"])
        if k in have:
            continue
        have.add(k)
        ent = {"property": pid, "status": "known", "key": r["key"], "what": r["what"][:900],
               "input": str(r.get("replay"))[:1500]}
        if a.note:
            ent["note"] = a.note
        new.append(ent)
    for e in new:
        print("%s  %s" % (e["property"], e["key"][:160]))
    print("%d new key(s)" % len(new))
    if not a.dry and new:
        with open(KNOWN, "a") as fh:
            for e in new:
                fh.write(json.dumps(e) + "\n")
    return 0


if __name__ == "__main__":
    sys.exit(main())
