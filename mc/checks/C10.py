"""C10 Constraint solvers return the optimum of the documented problem.

Exhaustive over the shared constraint-mix lattice (mc/checks/_c09_models.py): every non-empty subset of
{equality(connect|weld|joint), friction loss, joint limit, tendon limit, contact condim 1/3/4/6} (511 mixes) on small
host models x cone {pyramidal, elliptic} x state lattice x solver {Newton, CG, PGS} x islands {on, off} x jacobian
{dense, sparse} x warm start {cold (warmstart disabled), qacc_smooth, previous solution}, plus iteration-capped runs
(1 and 3 iterations, warm start {previous, far-off}) of the primal solvers for the descent claim.

Reference (written from doc/computation, see _c09_models.Law / Problem): the primal cost
    c(a) = 1/2 (a-a0)' M (a-a0) + s(J a - aref),  s(e) = -min_{f in Omega} (1/2 f'Rf + f'e)
with s and f evaluated per conceptual constraint from the dual definition, and an independent Newton optimiser in numpy.

Oracles (numeric ones only for runs the solver itself reports as converged; others are counted and skipped):
  (i)   stationarity  M qacc - qfrc_smooth - J' f(J qacc - aref) ~ 0 with f re-evaluated by mj_constraintUpdate at the
        returned point (scaled like the solver's own gradient statistic);
  (ii)  the reference optimiser does not find a lower cost than c(qacc);
  (iii) qacc and efc_force agree with the reference optimum (hence the three solvers agree with each other);
  (iv)  per-island solve == monolithic solve;
  (v)   primal solvers: every recorded solver[i].improvement >= 0 and c(final) <= c(start point) where the start point is
        the better of qacc_warmstart / qacc_smooth (cold start: qacc_smooth) - also for iteration-capped, unconverged runs.
"""
import numpy as np

from .. import core, mj
from . import _c09_models as C

LEVEL = "exploration"
META = dict(
    category=LEVEL,
    technique="exhaustive enumeration of a constraint-mix x cone x state x solver-option lattice; independent numpy reference "
              "model of the documented primal cost with its own Newton optimiser; differential between solvers / island modes",
    text="All 511 non-empty constraint mixes on small host models are solved by Newton, CG and PGS under every island / "
         "jacobian-layout / warm-start option at a lattice of contact and limit states. Each converged result must be a "
         "stationary point of the documented cost, must not be beaten by an independent optimiser, must agree with the "
         "reference optimum in qacc and efc_force, and per-island must equal monolithic; primal solvers must never end above "
         "their starting cost. Exhaustive over the lattice: a gradient / line-search / Hessian-update / gather-scatter error "
         "that needs one particular constraint state cannot hide.",
    note="Trusted inputs harvested from mjData: J, aref, R, frictionloss, contact friction, M, qacc_smooth (their construction "
         "belongs to other properties). Convergence is taken from the solver's own report (Newton and CG with tolerance 0, 200 iterations: last "
         "recorded gradient < 1e-10, or the solver stopped by itself before the iteration cap; PGS: terminated by tolerance 1e-15 before the iteration cap); non-converged runs are counted "
         "and skipped. PGS results are compared with looser fixed tolerances.",
    design_ref="DESIGN.md §3 C10")

SOLVER_NAME = {C.SOL_PGS: "PGS", C.SOL_CG: "CG", C.SOL_NEWTON: "Newton"}
CONE_NAME = {0: "pyramidal", 1: "elliptic"}
WS = ("cold", "smooth", "prev")
GRAD_CONVERGED = 1e-10
PGS_TOL, PGS_ITER = 1e-15, 5000
NEWTON_TOL = 0.0        # tolerance 0: with 1e-14 Newton stops on its improvement / decrement criteria with gradient > 1e-10 in ~20% of runs

# thresholds (relative, see _rel): primal solvers / PGS
TOL_STAT = {C.SOL_NEWTON: 1e-7, C.SOL_CG: 1e-7, C.SOL_PGS: 1e-1}      # scaled gradient at the returned point
TOL_COST = {C.SOL_NEWTON: 1e-9, C.SOL_CG: 1e-9, C.SOL_PGS: 1e-9}      # (c - c_ref) / max(|c_ref|, |c_smooth|, 1)
TOL_QACC = {C.SOL_NEWTON: 1e-7, C.SOL_CG: 1e-7, C.SOL_PGS: 1e-4}      # |qacc - a_ref| / max(1, |a_ref|)
TOL_FORCE = {C.SOL_NEWTON: 1e-7, C.SOL_CG: 1e-7, C.SOL_PGS: 1e-4}     # |f - f_ref| / max(1, |f_ref|)
TOL_ISLAND = {C.SOL_NEWTON: 1e-7, C.SOL_CG: 1e-7, C.SOL_PGS: 1e-4}    # per-island vs monolithic, qacc and efc_force
APEX_KEY = "PGS elliptic: contact at the cone apex is only updated along the normal (fixed point that is not the optimum)"
APEX_MINIMAL = {   # stand-alone reproduction of the root cause (a sphere lifting off a plane at 1 m/s while sliding at 2 m/s)
    "xml": '<mujoco><option cone="elliptic" solver="PGS" tolerance="1e-15" iterations="5000"><flag warmstart="disable"/></option>'
           '<worldbody><geom type="plane" size="1 1 .1"/><body pos="0 0 0.055"><freejoint/><geom type="sphere" size="0.05" '
           'margin="0.02" condim="3" friction="1 0.005 0.0001"/></body></worldbody></mujoco>',
    "qvel": [2, 0, 1, 0, 0, 0],
    "observed": "PGS: solver_niter=1, efc_force=[0,0,0], qacc=[0,0,-9.81,0,0,0]",
    "expected": "Newton/CG/reference optimum: efc_force=[16.645,0,16.645], qacc=[-31.79,0,21.98,0,1668.97,0]",
}
TOL_DESCENT = 1e-9                                                     # cost increase / max(|c_start|, 1)
TOL_IMPROVEMENT = 1e-9                                                 # negative improvement / max(scaled |c_start|, 1)


def _hist(part, name, err):
    dec = -20 if err <= 1e-20 else (int(np.floor(np.log10(err))) if np.isfinite(err) else 99)
    part.add("err_%s_1e%+03d" % (name, dec))


def _report(d, solver, iters, tol=0.0):
    """(converged?, niter, min recorded improvement) from the solver's own statistics."""
    nisl = int(d.nisland) if not (int(d.model.opt.disableflags) & C.DSBL_ISLAND) else 0
    nused = max(nisl, 1)
    it, g, imp = C.solver_report(d, nused)
    if solver == C.SOL_PGS:
        ok = True
        for isl in range(min(nused, C.mjNISLAND)):
            n = int(d.solver_niter[isl])
            if n >= iters:
                ok = False
        return ok and nused <= C.mjNISLAND, it, imp
    # primal solvers run with tolerance 0: the only exits are the iteration cap and "line search finds no improvement";
    # a run that stops before the cap has declared itself finished and is held to the oracles as well
    early = (tol == 0.0 and nused <= C.mjNISLAND
             and all(int(d.solver_niter[isl]) < iters for isl in range(min(nused, C.mjNISLAND))))
    return (g is not None and g < GRAD_CONVERGED) or early, it, imp


def pgs_apex_stuck(P, force):
    """Diagnosis of one root cause (one canonical key): the returned dual point has an elliptic contact sitting at the
    apex (all components exactly 0) whose normal residual is >= 0 - so PGS' apex branch (normal update only) leaves it at 0 -
    although the cone contains a descent direction (residual outside the dual cone: res_N < |mu * res_T|)."""
    if not P.law.cones:
        return None
    A = P.J @ np.linalg.solve(P.M, P.J.T)
    res = A @ force + P.law.R * force + (P.J @ P.a0 - P.aref)
    for i, dim, mu in P.law.cones:
        if np.any(force[i:i + dim] != 0):
            continue
        T = float(np.linalg.norm(mu * res[i + 1:i + dim]))
        if res[i] >= 0 and res[i] < T * (1 - 1e-6):
            return {"cone_first_row": int(i), "dim": int(dim), "res_normal": float(res[i]), "mu_res_tangent_norm": T}
    return None


def check_case(lib, host, part, st, cone, ident, thorough):
    m, d = host.m, host.d
    nv = m.nv
    cname = CONE_NAME[cone]
    info = host.apply_state(st)
    frc = np.array(d.qfrc_applied)

    def opts(solver=C.SOL_NEWTON, jac=C.JAC_DENSE, island=False, warm=False, iters=200, tol=0.0):
        host.set_options(cone=cone, solver=solver, jacobian=jac, island=island, warmstart=warm, iterations=iters, tolerance=tol)

    def rp(extra=None):
        r = {"skel": host.skel, "atoms": host.atoms, "eq": host.eqkind, "state": st, "cone": cone, "xml": host.xml}
        if extra:
            r.update(extra)
        return r

    apex_cache = {}

    def bad(what, solver, detail, extra=None):
        if solver == C.SOL_PGS and cone == C.CONE_ELLIPTIC and extra is not None and "force" in extra:
            k = extra["force"].tobytes()
            if k not in apex_cache:
                apex_cache[k] = pgs_apex_stuck(P, extra["force"])
                if apex_cache[k] is not None:
                    part.add("pgs_apex_stuck_distinct_results")
            diag = apex_cache[k]
            if diag is not None:
                ex = dict(extra)
                ex.update(diag)
                ex["force"] = extra["force"].tolist()
                ex["force_reference"] = f_ref.tolist()
                ex["minimal_standalone_repro"] = APEX_MINIMAL
                C.report(part, APEX_KEY, "PGS stops (improvement < tolerance) at a non-optimal point: %s: %s; contact rows %d..%d are "
                               "exactly 0 with normal residual %.3g >= 0 but |mu*res_T| = %.3g > res_N, reference normal force %.6g "
                               "(mix=%s eq=%s skel=%s state=%s)" % (
                                   what, detail, diag["cone_first_row"], diag["cone_first_row"] + diag["dim"] - 1,
                                   diag["res_normal"], diag["mu_res_tangent_norm"], float(f_ref[diag["cone_first_row"]]),
                                   "+".join(host.atoms), host.eqkind, host.skel, st), rp(ex))
                part.add("pgs_apex_stuck_oracle_failures")
                return
        if extra is not None and "force" in extra:
            extra = dict(extra)
            extra["force"] = extra["force"].tolist()
        C.report(part, "%s | solver=%s cone=%s" % (what, SOLVER_NAME[solver], cname),
                       "%s: %s (solver=%s cone=%s mix=%s eq=%s skel=%s state=%s)" % (
                           what, detail, SOLVER_NAME[solver], cname, "+".join(host.atoms), host.eqkind, host.skel, st), rp(extra))

    # ---- "previous" warm start: converged solution of the same state under half the applied force
    opts()
    d.qfrc_applied[:] = 0.5 * frc
    lib.mj_forward(m, d)
    a_prev = np.array(d.qacc)
    d.qfrc_applied[:] = frc
    # ---- baseline + reference problem
    lib.mj_forward(m, d)
    err = host.selfcheck_state(info)
    if err:
        raise RuntimeError("lattice self-check failed: %s %s %s %s" % (host.skel, host.atoms, st, err))
    nefc = int(d.nefc)
    if nefc == 0:
        part.count(1)
        part.add("no_constraint_rows")
        return
    P = C.Problem(lib, m, d)
    a_base = np.array(d.qacc)
    start = a_base if np.all(np.isfinite(a_base)) else P.a0
    a_ref, c_ref, g_ref, it_ref = P.solve_from(start)
    if thorough or ident[1] % 16 == 0:
        a2, c2, g2, _ = P.solve_from(P.a0)
        part.add("reference_cross_checked_from_qacc_smooth")
        if g2 < 1e-9 and g_ref < 1e-9 and abs(c2 - c_ref) > 1e-9 * max(1.0, abs(c_ref)):
            part.count(1)
            part.add("reference_start_dependent")                # harness limitation: skip the case
            return
    if not g_ref < 1e-9:
        part.count(1)
        part.add("reference_not_converged")
        return
    f_ref = P.law.force(P.J @ a_ref - P.aref)
    c_smooth = P.cost(P.a0)
    cscale = max(1.0, abs(c_ref), abs(c_smooth))
    ascale = max(1.0, float(np.abs(a_ref).max()))
    fscale = max(1.0, float(np.abs(f_ref).max()))
    a_far = P.a0 + 50.0 * ascale * np.array([(-1.0) ** i for i in range(nv)])
    warm_pts = {"cold": None, "smooth": P.a0, "prev": a_prev, "far": a_far}
    c_start = {"cold": c_smooth, "smooth": c_smooth, "prev": min(c_smooth, P.cost(a_prev)), "far": min(c_smooth, P.cost(a_far))}
    nontriv = bool(np.any(f_ref != 0))
    results = {}
    jar = np.zeros(nefc)
    Ma = np.zeros(nv)

    def run(solver, jac, island, ws, iters, tol):
        opts(solver, jac, island, ws != "cold", iters, tol)
        if ws != "cold":
            d.qacc_warmstart[:] = warm_pts[ws]
        lib.mj_forward(m, d)
        if int(d.nefc) != nefc:
            bad("constraint set depends on solver options", solver, "nefc %d vs %d" % (int(d.nefc), nefc))
            return None
        return np.array(d.qacc), np.array(d.efc_force[:nefc])

    def descent(solver, tag, ws, qacc, imp, extra):
        if not np.all(np.isfinite(qacc)):
            bad("solver returned non-finite qacc", solver, tag, extra)
            return
        c_end = P.cost(qacc)
        up = (c_end - c_start[ws]) / max(1.0, abs(c_start[ws]))
        _hist(part, "descent", max(up, 0.0))
        if up > TOL_DESCENT:
            bad("primal solver ends above its starting cost", solver,
                "%s: c_end - c_start = %.3g (c_start %.6g)" % (tag, c_end - c_start[ws], c_start[ws]), extra)
        neg = -imp / max(1.0, P.scale * abs(c_start[ws]))
        _hist(part, "negimp", max(neg, 0.0))
        if neg > TOL_IMPROVEMENT:
            bad("negative solver improvement recorded", solver, "%s: min improvement %.3g (scaled cost %.3g)" % (
                tag, imp, P.scale * abs(c_start[ws])), extra)

    # ---- full runs
    for jac in (C.JAC_DENSE, C.JAC_SPARSE):
        for island in (True, False):
            for solver in (C.SOL_NEWTON, C.SOL_CG, C.SOL_PGS):
                for ws in WS:
                    iters, tol = (PGS_ITER, PGS_TOL) if solver == C.SOL_PGS else (200, NEWTON_TOL if solver == C.SOL_NEWTON else 0.0)
                    extra = {"solver": solver, "jacobian": jac, "island": island, "warmstart": ws, "iterations": iters,
                             "tolerance": tol}
                    tag = "jacobian=%s island=%s warmstart=%s" % ("sparse" if jac else "dense", "on" if island else "off", ws)
                    out = run(solver, jac, island, ws, iters, tol)
                    if out is None:
                        continue
                    qacc, force = out
                    if solver == C.SOL_PGS:
                        extra["force"] = force
                    conv, nit, imp = _report(d, solver, iters, tol)
                    nisl = int(d.nisland)
                    key = (ident, cone, st, solver, jac, island, ws) if nontriv else None
                    part.count(1, key=key, sample=({"skel": host.skel, "atoms": host.atoms, "eq": host.eqkind, "state": st,
                                                    "cone": cname, "solver": SOLVER_NAME[solver], "niter": nit, "nefc": nefc}
                                                   if nontriv and ident[1] % 101 == 0 and ws == "prev" and island and jac else None))
                    if island and nisl > 1:
                        part.add("runs_with_2plus_islands")
                    if solver != C.SOL_PGS:
                        descent(solver, tag, ws, qacc, imp, extra)
                    if not conv or not np.all(np.isfinite(qacc)):
                        part.add("not_converged_%s" % SOLVER_NAME[solver])
                        continue
                    part.add("converged_%s" % SOLVER_NAME[solver])
                    # (i) stationarity, constraint force re-evaluated by the engine at the returned point
                    jar[:] = P.J @ qacc - P.aref
                    lib.mj_constraintUpdate(m, d, jar, None, 0)
                    lib.mj_mulM(m, d, Ma, np.ascontiguousarray(qacc))
                    g = Ma - P.qfrc_smooth - np.array(d.qfrc_constraint)
                    gs = P.scale * float(np.linalg.norm(g))
                    _hist(part, "stat_" + SOLVER_NAME[solver], gs)
                    # CG run with tolerance 0 that stopped before the cap without reaching the solver's own gradient threshold has
                    # stalled in its line search at the floating-point floor: over 1.3e6 such runs the scaled gradient is <= 1e-9
                    # except for a tail of two at 1.0e-7; those runs are held to 1e-5 (Newton and gradient-converged CG runs: 1e-7)
                    stalled = solver == C.SOL_CG and not (C.solver_report(d, max(nisl, 1))[1] is not None
                                                          and C.solver_report(d, max(nisl, 1))[1] < GRAD_CONVERGED)
                    if stalled:
                        part.add("cg_stalled_runs_held_to_1e-5")
                    if not gs <= (1e-5 if stalled else TOL_STAT[solver]):
                        bad("returned qacc is not a stationary point", solver, "%s: scaled |grad| %.3g" % (tag, gs), extra)
                    f_upd = np.array(d.efc_force[:nefc])
                    if solver != C.SOL_PGS and float(np.abs(f_upd - force).max()) > 1e-9 * fscale:
                        bad("efc_force is not the constraint law at the returned qacc", solver,
                            "%s: max diff %.3g" % (tag, float(np.abs(f_upd - force).max())), extra)
                    # (ii) reference optimiser does not find a lower cost
                    gap = (P.cost(qacc) - c_ref) / cscale
                    _hist(part, "cost_" + SOLVER_NAME[solver], abs(gap))
                    if gap > TOL_COST[solver]:
                        bad("reference optimiser finds a lower cost", solver, "%s: c - c_ref = %.3g rel (c_ref %.6g)" % (tag, gap, c_ref), extra)
                    if gap < -1e-9:
                        part.add("reference_beaten_by_engine")   # harness limitation (reference not at its optimum): skip
                        continue
                    # (iii) agreement with the reference optimum
                    ea = float(np.abs(qacc - a_ref).max()) / ascale
                    ef = float(np.abs(force - f_ref).max()) / fscale
                    _hist(part, "qacc_" + SOLVER_NAME[solver], ea)
                    _hist(part, "force_" + SOLVER_NAME[solver], ef)
                    if not ea <= TOL_QACC[solver]:
                        bad("qacc differs from the reference optimum", solver, "%s: rel err %.3g" % (tag, ea), extra)
                    if not ef <= TOL_FORCE[solver]:
                        bad("efc_force differs from the reference optimum", solver, "%s: rel err %.3g" % (tag, ef), extra)
                    if gs <= TOL_STAT[solver] and gap <= TOL_COST[solver] and ea <= TOL_QACC[solver] and ef <= TOL_FORCE[solver]:
                        results[(solver, jac, island, ws)] = (qacc, force)
    # (iv) per-island == monolithic (both converged)
    for (solver, jac, island, ws), (qa, fa) in results.items():
        if not island:
            continue
        other = results.get((solver, jac, False, ws))
        if other is None:
            continue
        ea = float(np.abs(qa - other[0]).max()) / ascale
        ef = float(np.abs(fa - other[1]).max()) / fscale
        _hist(part, "island_" + SOLVER_NAME[solver], max(ea, ef))
        if not (ea <= TOL_ISLAND[solver] and ef <= TOL_ISLAND[solver]):
            bad("per-island solve differs from monolithic solve", solver,
                "jacobian=%s warmstart=%s: qacc rel %.3g, efc_force rel %.3g" % ("sparse" if jac else "dense", ws, ea, ef),
                {"solver": solver, "jacobian": jac, "warmstart": ws})
    # (v) iteration-capped primal runs: descent from the start point
    for jac in ((C.JAC_DENSE, C.JAC_SPARSE) if thorough else (C.JAC_SPARSE,)):
        for island in (True, False):
            for solver in (C.SOL_NEWTON, C.SOL_CG):
                for ws in ("prev", "far"):
                    for iters in (1, 3):
                        extra = {"solver": solver, "jacobian": jac, "island": island, "warmstart": ws, "iterations": iters,
                                 "tolerance": 0.0}
                        out = run(solver, jac, island, ws, iters, 0.0)
                        if out is None:
                            continue
                        _, nit, imp = _report(d, solver, iters)
                        part.count(1)
                        part.add("capped_runs")
                        if nit > iters:
                            bad("solver exceeds the iteration cap", solver, "niter %d > %d" % (nit, iters), extra)
                        descent(solver, "capped iterations=%d jacobian=%s island=%s warmstart=%s" % (
                            iters, "sparse" if jac else "dense", "on" if island else "off", ws), ws, out[0], imp, extra)


def _chunk(chunk):
    lib = mj.load()
    part = core.Part()
    for skel, mi, atoms, eqkind, tier in chunk:
        thorough = tier == "thorough"
        try:
            host = C.Host(lib, skel, atoms, eqkind)
        except mj.MjError as e:
            C.report(part, "host model does not compile", "skel=%s mix=%s eq=%s: %s" % (skel, atoms, eqkind, e),
                           {"skel": skel, "atoms": atoms, "eq": eqkind})
            continue
        states = host.state_space(nq=2, nvel=3) if thorough else [s for s in host.state_space(nq=2, nvel=3) if s[0] == 1 and s[1] != 0]
        for cone in (C.CONE_PYRAMIDAL, C.CONE_ELLIPTIC):
            for st in states:
                try:
                    check_case(lib, host, part, st, cone, (skel, mi), thorough)
                except mj.MjError as e:
                    C.report(part, "engine error | cone=%s" % CONE_NAME[cone], "mju_error: %s" % e,
                                   {"skel": skel, "atoms": atoms, "eq": eqkind, "state": st, "cone": cone, "xml": host.xml})
                    host.d.free()
                    host.d = lib.make_data(host.m)
        host.free()
    return part


def run(ctx):
    mj.load()
    skels = ["S0", "S1", "S2"] if ctx.thorough else ["S0"]
    mixes = C.mixes()
    items = [(s, i, a, e, ctx.tier) for s in skels for i, (a, e) in enumerate(mixes)]
    core.pmap(ctx, _chunk, items, nchunks=min(len(items), core.NCPU * 6))
    ctx.extra["models"] = len(items)
    ctx.extra["mixes"] = len(mixes)
    ctx.extra["boundary_excluded"] = sum(int(ctx.extra.get(k, 0)) for k in (
        "reference_not_converged", "reference_start_dependent", "reference_beaten_by_engine"))
    ctx.rule = ("skeleton %s x all 511 non-empty subsets of {E(connect|weld|joint),F,L,T,C1,C3,C4,C6} x cone{pyramidal,elliptic} x "
                "state lattice (contact k at dist %s rotated by cs, limit k at %s rotated by ls, %s) x solver{Newton,CG,PGS} x "
                "island{on,off} x jacobian{dense,sparse} x warmstart{cold,qacc_smooth,previous} (+ primal runs capped at 1 and 3 "
                "iterations x warmstart{previous,far-off}%s); evaluation = one mj_forward with its oracles; non-trivial = distinct "
                "(model, cone, state, solver, jacobian, island, warmstart) whose optimum has a non-zero constraint force"
                % (skels, C.CONTACT_DIST, C.LIMIT_STATE_NAME,
                   "2 configurations x 3 velocity patterns" if ctx.thorough else "bent configuration x 2 non-zero velocity patterns",
                   "" if ctx.thorough else ", sparse jacobian only"))
    ctx.assumptions = ["J, aref, R, frictionloss, contact friction, M, qacc_smooth harvested from mjData (other properties)",
                       "reference law s(e) = -min_{f in Omega}(1/2 f'Rf + f'e) per conceptual constraint, reference Newton optimiser in numpy",
                       "converged = solver's own report (Newton and CG at tolerance 0: last gradient < 1e-10 or self-terminated before the cap; PGS stopped by tolerance 1e-15 "
                       "before 5000 iterations); others counted and skipped",
                       "PGS compared with looser fixed tolerances (stationarity 1e-1 scaled, qacc/force 1e-4 relative)"]


def replay(ctx, path):
    """./check C10 --replay <file>: re-run the recorded (model, state, cone) through the whole solver-option lattice."""
    import json
    r = json.load(open(path))["replay"]
    lib = mj.load()
    host = C.Host(lib, r["skel"], tuple(r["atoms"]), r["eq"])
    part = core.Part()
    check_case(lib, host, part, tuple(r["state"]), int(r["cone"]), (r["skel"], 0), True)
    for v in part["violations"]:
        print("VIOLATION-REPLAY %s\n  %s" % (v["key"], v["what"]))
    print("replay: %d evaluations, %d violations" % (part["evaluations"], len(part["violations"])))
    return 1 if part["violations"] else 0
