"""C34 Name lookup inverts naming for every object type.

Every nameable mjtObj type (23 of them, the tree's enum is parsed from the header) gets K objects in ONE generated
model; the names come from an adversarial alphabet that is resolved PER TYPE against that type's actual hash-table
size T = 2 n (colliders found by brute force with the tree's mj_hashString): three names that collide in the LAST
slot (probing wraps around), one in slot 0, one in the slot of "world", a prefix-extension, and "unnamed".

 * lattice: every ordered K-tuple over those 7 symbols (non-"unnamed" symbols distinct), K <= 3 (thorough 4); the
   tuple is rotated by the type index so the same name has different ids in different types;
 * curated name sets at K up to 13 (prefix chains, case variants, blanks, XML specials, UTF-8, 1000-char names, numeric
   look-alikes, all-in-one-slot, wrapping clusters, all unnamed), with shared or per-type-disjoint names;
 * derived models whose names the compiler generates or removes (replicate, fusestatic, discardvisual, flexcomp,
   composite): set-level dictionary + self-consistency.

Oracle = the dictionary the generator wrote: mj_name2id(type, q) for every query q (all names of all types, each with a
character appended / removed / case swapped / doubled, "", non-names that collide with every table's probed slots) and
every type code (valid, XBODY alias, DOF, meta, invalid) ; mj_id2name for every id in [-2, n+1] and INT extremes; the
names_map layout (each named id exactly once, reachable by linear probing, unnamed absent); all of it again on
mj_copyModel and mj_saveModel -> mj_loadModelBuffer copies.
"""
import ctypes
import zlib

import numpy as np

from .. import core, mj
from . import _c34_gen as G

LEVEL = "exploration"
META = dict(
    category=LEVEL,
    technique="exhaustive enumeration of ordered name tuples over a collision-aware symbol alphabet x all 23 nameable "
              "object types x a derived query set x all type codes; oracle = the generator's own dictionary",
    text="All ordered K-tuples (K<=3, thorough 4) over {3 colliders in the last slot, slot-0 collider, world-slot collider, "
         "prefix extension, unnamed} are instantiated for every nameable object type at once, with colliders brute-forced "
         "against the tree's mj_hashString for each type's real table size; every query derived from every name is looked up "
         "under every type code and compared with the dictionary the generator wrote, on the compiled model, its "
         "mj_copyModel copy and its save/load image. Offset, probing, wrap-around, prefix (strncmp) and type-mix-up errors "
         "cannot hide in this space.",
    note="mj_name2id(name=NULL) is not documented as safe and is not called.  MJCF requires a name for mesh, hfield, texture, "
         "material, numeric, text, tuple and plugin instances, so 'unnamed' is replaced by a unique name for those types.  "
         "Names are NUL-free (C strings).  Table sizes above 2*15 and names the XML layer cannot carry are outside the alphabet.",
    design_ref="DESIGN.md §3 C34")

SYMBOLS = ["L0", "L1", "L2", "F", "W", "P", "U"]
INT_MAX = 2 ** 31 - 1
INT_MIN = -2 ** 31


# ------------------------------------------------------------------------------------------ name sets

def resolve_symbols(H, T, pre):
    """symbol -> name for a table of size T (names start with the tag `pre`)."""
    L = G.colliders(H, T, T - 1, 3, pre)
    F = G.colliders(H, T, 0, 1, pre, avoid=L)[0]
    wslot = H.slot(b"world", T)
    W = G.colliders(H, T, wslot, 1, pre, avoid=L + [F])[0]
    # P: an extension of L0 (L0 is a strict prefix of P) that ALSO lives in the last slot, so that a lookup of either one
    # walks over the other one first, depending on the insertion order
    P = None
    for ext in G.candidates():
        if H.slot(_b(L[0] + ext), T) == T - 1 and L[0] + ext not in L + [F, W]:
            P = L[0] + ext
            break
    return {"L0": L[0], "L1": L[1], "L2": L[2], "F": F, "W": W, "P": P, "U": ""}


def tuples(K):
    """all ordered K-tuples over SYMBOLS whose non-U entries are distinct."""
    def rec(pre):
        if len(pre) == K:
            yield tuple(pre)
            return
        for s in SYMBOLS:
            if s != "U" and s in pre:
                continue
            yield from rec(pre + [s])
    return list(rec([]))


def _cases(K):
    out = []
    for k in range(K):
        out.append("".join(c.upper() if (k >> i) & 1 else c for i, c in enumerate("abcd")))
    return out


WORLDISH = ["worl", "worldx", "World", "wor ld", "world ", " world", "WORLD", "w", "orld", "worldworld", "world0", "wo", "world.",
            "_world", "world_"]
BASIC = ["a", "b", "ab", "a_b", "aa", "ba", "A", "abc", "b_a", "a__b", "_", "a.b", "a/b", "aaa", "B"]
BLANK = [" ", "  ", " a", "a ", "a  b", "\t", "a\tb", "_", "-", "   ", " \t", ".", "..", "#", "?"]
XMLCH = ["a&b", "a<b", "a>b", 'a"b', "a'b", "&amp;", "a;b", "<!--", "]]>", "&#0;", "a=b", "%s", "%d", "\\0", "\\"]
UTF8 = ["é", "ü", "éü", "日本", "日", "本", "Ω", "ω", "é日", "ß", "ÿ", "€", "日本語", "ñ", "Ñ"]
DIGITS = ["0", "1", "00", "01", "-1", "1e3", "0x1", "nan", "inf", "NULL", "(null)", "None", "-0", "+1", "1.0"]
LONGN = 1000


def _long(K):
    base = ["x" * LONGN + "a", "x" * LONGN + "b", "a" + "x" * LONGN, "b" + "x" * LONGN, "x" * LONGN, "x" * (LONGN + 1),
            "x" * (LONGN - 1), "y" * LONGN]
    return (base + ["z" * LONGN + str(i) for i in range(K)])[:K]


def curated(scheme, K, H, T, pre):
    """K names for a type whose table has size T."""
    def sfx(lst):
        return [pre + s if s != "" else "" for s in lst[:K]]
    if scheme == "basic":
        return sfx(BASIC)
    if scheme == "worldish":
        return sfx(WORLDISH)
    if scheme == "prefix":
        return sfx(["name_of_an_object"[:i + 1] for i in range(K)])
    if scheme == "prefix_rev":
        return sfx(["name_of_an_object"[:K - i] for i in range(K)])
    if scheme == "case":
        return sfx(_cases(K))
    if scheme == "blank":
        return sfx(BLANK)
    if scheme == "xmlchars":
        return sfx(XMLCH)
    if scheme == "utf8":
        return sfx(UTF8)
    if scheme == "digits":
        return sfx(DIGITS)
    if scheme == "long":
        return sfx(_long(K))
    if scheme == "collide_last":
        return G.colliders(H, T, T - 1, K, pre)
    if scheme == "collide_first":
        return G.colliders(H, T, 0, K, pre)
    if scheme == "collide_mid":
        return G.colliders(H, T, T // 2, K, pre)
    if scheme == "cluster_wrap":   # alternate home slots T-2 / T-1: the cluster wraps and interleaves two chains
        a = G.colliders(H, T, T - 2, K, pre)
        b = G.colliders(H, T, T - 1, K, pre, avoid=a)
        return [(a if i % 2 == 0 else b)[i // 2] for i in range(K)]
    if scheme == "collide_unnamed_mid":
        c = G.colliders(H, T, T - 1, K, pre)
        c[K // 2] = ""
        return c
    if scheme == "basic_unnamed_mid":
        c = sfx(BASIC)
        c[K // 2] = ""
        return c
    if scheme == "all_unnamed":
        return [""] * K
    if scheme == "only_last_named":
        return [""] * (K - 1) + [pre + "a"]
    if scheme == "only_first_named":
        return [pre + "a"] + [""] * (K - 1)
    raise KeyError(scheme)


SCHEMES = ["basic", "worldish", "prefix", "prefix_rev", "case", "blank", "xmlchars", "utf8", "digits", "long", "collide_last",
           "collide_first", "collide_mid", "cluster_wrap", "collide_unnamed_mid", "basic_unnamed_mid", "all_unnamed",
           "only_last_named", "only_first_named"]


def names_for(item, H):
    """item -> (names dict, K, anchor, modelname)"""
    kind = item[0]
    if kind == "lattice":
        _, K, tup, anchor, profile = item
        tag = 0
        scheme = None
    else:
        _, scheme, K, tag, anchor, profile = item
    n = G.counts(K, anchor, profile)
    nt = G.table_counts(K, anchor, profile)
    names = {}
    for ti, key in enumerate(G.TYPE_KEYS):
        if n[key] == 0:
            continue
        T = 2 * nt[key]
        pre = (key + ".") if tag else ""     # a tag PREFIX: per-type-disjoint names
        if kind == "lattice":
            sym = resolve_symbols(H, T, pre)
            lst = [sym[s] for s in tup]
        else:
            lst = curated(scheme, K, H, T, pre)
        r = ti % K
        lst = lst[r:] + lst[:r]
        if not G.UNNAMED_OK[key]:
            lst = [s if s != "" else "%su%d" % (pre, i) for i, s in enumerate(lst)]
        lst = lst + ["%szz%d" % (pre, i) for i in range(n[key] - K)]   # fillers (per-type object counts differ)
        names[key] = lst
    cam = [s for s in names.get("camera", []) if s]
    modelname = cam[0] if cam else "m"
    return names, K, anchor, modelname


# ------------------------------------------------------------------------------------------ lookups

def _b(s):
    return s.encode("utf-8")


def derived_queries(allnames):
    q = set()
    for s in allnames:
        q.add(s)
        q.add(s + "x")
        q.add(s + " ")
        q.add(s[:-1])
        q.add(s[1:])
        q.add(s.swapcase())
        q.add(s + s)
    q.add("")
    q.add("world")
    q.add("World")
    q.add("worl")
    q.add("worldx")
    return q


def type_code_list(codes, enum):
    """(code, typekey or None)"""
    out = [(codes[k], k) for k in G.TYPE_KEYS]
    out.append((enum["mjOBJ_XBODY"], "body"))
    other = [enum["mjOBJ_UNKNOWN"], enum["mjOBJ_DOF"], enum["mjNOBJECT"], enum["mjNOBJECT"] + 1, enum["mjOBJ_FRAME"],
             enum["mjOBJ_DEFAULT"], enum["mjOBJ_MODEL"], enum["mjOBJ_MODEL"] + 1, 99, -1, -2, 1000, 256 + 1, 65536 + 1,
             INT_MAX, INT_MIN]
    out += [(c, None) for c in other]
    return out


_RAW = {}


def raw(lib):
    """unguarded entry points: mj_name2id / mj_id2name contain no mju_error path, so the setjmp wrapper is not needed
    (a crash kills the worker and core.pmap reports it)."""
    r = _RAW.get(id(lib))
    if r is None:
        n2i = lib.c.mj_name2id
        n2i.restype = ctypes.c_int
        n2i.argtypes = [ctypes.c_void_p, ctypes.c_int, ctypes.c_char_p]
        i2n = lib.c.mj_id2name
        i2n.restype = ctypes.c_char_p
        i2n.argtypes = [ctypes.c_void_p, ctypes.c_int, ctypes.c_int]
        r = _RAW[id(lib)] = (n2i, i2n)
    return r


def id2name_bytes(lib, m, code, i):
    return raw(lib)[1](m.ptr, code, i)


def table_layout(H, exp):
    """reference layout of names_map: per type (offset, T, {id: home slot})."""
    off = 0
    lay = {}
    for key in G.TYPE_KEYS:
        n = len(exp[key])
        T = 2 * n
        lay[key] = (off, T, {i: H.slot(_b(s), T) for i, s in enumerate(exp[key]) if s != ""})
        off += T
    return lay, off


def check_tables(part, H, m, exp, label, vname, rp):
    """names_map consistency (structure documented in mjmodel.h: 'internal hash map of names', 2 slots per object)."""
    lay, total = table_layout(H, exp)
    nmap = int(m.nnames_map)
    if nmap != total:
        part.violation("names_map: nnames_map != 2*sum(n) [%s]" % vname, "%s: nnames_map=%d expected %d" % (label, nmap, total), rp)
        return 0, 0
    tab = np.array(m.names_map)
    displaced = wrapped = 0
    for key in G.TYPE_KEYS:
        off, T, home = lay[key]
        seg = tab[off:off + T]
        present = sorted(int(v) for v in seg if v >= 0)
        if present != sorted(home):
            part.violation("names_map: segment does not hold exactly the named ids [%s %s]" % (key, vname),
                           "%s: type %s segment %s, named ids %s" % (label, key, seg.tolist(), sorted(home)), rp)
            continue
        if any(v < -1 for v in seg):
            part.violation("names_map: entry below -1 [%s %s]" % (key, vname), "%s: %s" % (label, seg.tolist()), rp)
        for i, h in home.items():
            j = h
            steps = 0
            while seg[j] != i:
                if seg[j] < 0 or steps > T:
                    part.violation("names_map: named id not reachable by linear probing from its hash slot [%s %s]" % (key, vname),
                                   "%s: type %s id %d home %d segment %s" % (label, key, i, h, seg.tolist()), rp)
                    break
                j += 1
                steps += 1
                if j == T:
                    j = 0
                    wrapped += 1
            displaced += 1 if steps else 0
    # names buffer: model name first, then every object's name in type/id order, zero-terminated, no gaps
    nb = bytes(np.array(m.names).tobytes())
    pos = nb.index(b"\0") + 1
    for key, nf, af, _ in G.TYPES:
        adr = getattr(m, af)
        for i, s in enumerate(exp[key]):
            if int(adr[i]) != pos or nb[pos:pos + len(_b(s)) + 1] != _b(s) + b"\0":
                part.violation("names buffer: address/name mismatch [%s %s]" % (key, vname),
                               "%s: type %s id %d adr %d expected %d name %r" % (label, key, i, int(adr[i]), pos, s), rp)
                return displaced, wrapped
            pos += len(_b(s)) + 1
    if pos != int(m.nnames):
        part.violation("names buffer: nnames mismatch [%s]" % vname, "%s: nnames=%d expected %d" % (label, int(m.nnames), pos), rp)
    return displaced, wrapped


def check_lookup(lib, part, m, exp, queries, tcodes, label, vname, rp):
    """every (type code, query) and every (type code, id) against the dictionary.  Codes that are not nameable types
    get the names themselves (+ "" / "world"), nameable types the full derived query set."""
    n2i, i2n = raw(lib)
    mp = m.ptr
    nlook = 0
    small = [(qs, qb) for qs, qb, isname in queries if isname]
    for code, key in tcodes:
        names = exp[key] if key else []
        n = len(names)
        index = {s: i for i, s in enumerate(names) if s != ""}
        tk = key or "invalid-type"
        # ---- id -> name
        ids = list(range(-2, n + 2)) + [n + 1000, INT_MAX, INT_MIN]
        for i in ids:
            got = i2n(mp, code, i)
            want = _b(names[i]) if 0 <= i < n and names[i] != "" else None
            if got != want:
                kind = "named" if want is not None else ("unnamed" if 0 <= i < n else "out-of-range")
                part.violation("mj_id2name wrong for %s id [%s %s]" % (kind, tk, vname),
                               "%s: mj_id2name(type=%d, id=%d) = %r, dictionary says %r" % (label, code, i, got, want),
                               dict(rp, type=code, id=i))
        nlook += len(ids)
        # ---- name -> id
        qq = queries if key else small
        for q in qq:
            qs = q[0]
            got = n2i(mp, code, q[1])
            want = index.get(qs, -1)
            if got != want:
                kind = "a name of the type" if want >= 0 else ("the empty string" if qs == "" else "a non-name")
                part.violation("mj_name2id wrong for %s [%s %s]" % (kind, tk, vname),
                               "%s: mj_name2id(type=%d, %r) = %d, dictionary says %d" % (label, code, qs[:60], got, want),
                               dict(rp, type=code, query=qs))
        nlook += len(qq)
        # ---- round trip through the API alone
        for i in range(n):
            nm = i2n(mp, code, i)
            if nm is not None and n2i(mp, code, nm) != i:
                part.violation("mj_name2id(mj_id2name(id)) != id [%s %s]" % (tk, vname),
                               "%s: type %d id %d name %r -> %d" % (label, code, i, nm, n2i(mp, code, nm)),
                               dict(rp, type=code, id=i))
        nlook += n
    return nlook


def make_queries(H, exp, allnames):
    qset = derived_queries(allnames) | collision_queries(H, exp, allnames)
    base = set(allnames) | {"", "world"}
    return sorted((s, _b(s), s in base) for s in qset if "\0" not in s)


def variants(lib, m):
    """(label, Model) for the copy and the save/load image."""
    out = []
    p = lib.mj_copyModel(None, m)
    if p:
        out.append(("mj_copyModel", mj.Model(lib, p)))
    sz = int(lib.mj_sizeModel(m))
    buf = np.zeros(sz, dtype=np.uint8)
    lib.mj_saveModel(m, None, buf, sz)
    p = lib.mj_loadModelBuffer(buf, sz)
    if p:
        out.append(("save/load", mj.Model(lib, p)))
    return out


def collision_queries(H, exp, allnames):
    """non-names that land in the probed slots of every distinct table size: last, first, world's, each occupied home."""
    q = set()
    sizes = sorted({2 * len(v) for v in exp.values() if len(v)})
    for T in sizes:
        slots = {T - 1, 0, H.slot(b"world", T), T // 2}
        for s in slots:
            q.update(G.colliders(H, T, s, 2, "", avoid=allnames))
    return q


def check_generated(lib, part, H, codes, enum, item):
    names, K, anchor, modelname = names_for(item, H)
    comp = 'usethread="false"' if (zlib.crc32(repr(item).encode()) & 3) else ""
    xml, exp = G.build_model(names, anchor, modelname, compiler=comp)
    label = repr(item)
    rp = {"item": item, "xml": xml if len(xml) < 20000 else xml[:2000] + "...", "expected": {k: v for k, v in exp.items()}}
    try:
        m = lib.load_xml(xml)
    except mj.MjError as e:
        part.violation("generated model does not compile", "%s: %s" % (label, e), rp)
        return
    for key, nf, af, _ in G.TYPES:
        if int(getattr(m, nf)) != len(exp[key]):
            raise RuntimeError("generator dictionary is wrong: %s has %d objects, expected %d (%s)" % (
                key, int(getattr(m, nf)), len(exp[key]), label))
    allnames = {s for v in exp.values() for s in v if s != ""} | {modelname}
    queries = make_queries(H, exp, allnames)
    tcodes = type_code_list(codes, enum)
    mods = [("compiled", m)] + variants(lib, m)
    if len(mods) != 3:
        part.violation("mj_copyModel / mj_loadModelBuffer returned NULL", label, rp)
    for vname, mm in mods:
        disp, wrapped = check_tables(part, H, mm, exp, label, vname, rp)
        nl = check_lookup(lib, part, mm, exp, queries, tcodes, label, vname, rp)
        if vname == "compiled":
            part.add("lookups_compiled", nl)
            part.add("displaced_entries", disp)
            part.add("wrapped_probes", wrapped)
            # non-trivial: a type table with a real collision chain / an unnamed object
            lay, _ = table_layout(H, exp)
            tab = np.array(mm.names_map)
            for key in G.TYPE_KEYS:
                off, T, home = lay[key]
                chain = any(int(tab[off + h]) != i for i, h in home.items())
                unnamed = any(s == "" for s in exp[key])
                part.count(0, key=(label, key) if (chain or unnamed) else None)
        part.count(nl, sample={"item": item, "K": K, "names_of_camera": names.get("camera"), "queries": len(queries)}
                   if vname == "compiled" else None)
    for _, mm in mods:
        mm.free()
    part.add("models", 1)


# ------------------------------------------------------------------------------------------ derived models
# names are created / removed by the compiler; the dictionary is the documented naming rule at SET level

def derived_models():
    out = []
    # replicate: "the names of all named elements are appended with the replica index"; 12 copies -> 2 digits
    for cnt in (3, 12):
        w = len(str(cnt - 1))
        xml = ('<mujoco><worldbody><replicate count="%d" offset="1 0 0"><body name="r"><joint name="r"/>'
               '<geom name="r" size=".1"/><geom size=".1"/><site name="rs"/><camera name="R"/></body></replicate>'
               '<body name="r"><geom name="r" size=".1"/></body></worldbody></mujoco>' % cnt)
        sfx = ["%0*d" % (w, i) for i in range(cnt)]
        exp = {"body": ["world"] + ["r" + s for s in sfx] + ["r"], "joint": ["r" + s for s in sfx],
               "geom": [x for s in sfx for x in ("r" + s, "")] + ["r"], "site": ["rs" + s for s in sfx],
               "camera": ["R" + s for s in sfx]}
        out.append(("replicate%d" % cnt, xml, exp, False))
    # fusestatic: static bodies disappear, their elements keep their names
    xml = ('<mujoco><compiler fusestatic="true"/><worldbody><body name="a"><geom name="a" size=".1"/><site name="a"/>'
           '<body name="b"><joint name="a"/><geom name="b" size=".1"/><body name="ab"><geom name="ab" size=".1"/>'
           '<camera name="a"/><body name="aa"><joint name="b"/><geom size=".1"/><geom name="aa" size=".1"/></body></body></body>'
           '</body><body name="c"><geom name="c" size=".1"/><light name="a"/></body></worldbody></mujoco>')
    exp = {"body": ["world", "b", "aa"], "joint": ["a", "b"], "geom": ["a", "b", "ab", "", "aa", "c"], "site": ["a"],
           "camera": ["a"], "light": ["a"]}
    out.append(("fusestatic", xml, exp, True))
    # discardvisual: visual geoms (contype=conaffinity=0, unreferenced) and unreferenced materials/meshes are removed
    xml = ('<mujoco><compiler discardvisual="true"/><asset><material name="a"/><material name="b"/>'
           '<mesh name="a" vertex="0 0 0 1 0 0 0 1 0 0 0 1"/><mesh name="b" vertex="0 0 0 1 0 0 0 1 0 0 0 1"/></asset>'
           '<worldbody><body name="a"><joint name="a"/><geom name="a" size=".1" contype="0" conaffinity="0" material="a"/>'
           '<geom name="b" size=".1" material="b"/><geom name="ab" type="mesh" mesh="a" contype="0" conaffinity="0"/>'
           '<geom name="aa" type="mesh" mesh="b"/></body></worldbody></mujoco>')
    exp = {"body": ["world", "a"], "joint": ["a"], "geom": ["b", "aa"], "mesh": ["b"]}   # "All materials are discarded"
    out.append(("discardvisual", xml, exp, True))
    return out


def selfcheck_models():
    """models with compiler-invented names: only API self-consistency + uniqueness is decided."""
    return [
        ("flexcomp", '<mujoco><worldbody><flexcomp name="f" type="grid" count="3 3 1" spacing=".1 .1 .1" dim="2" radius=".01">'
                     '<edge equality="true"/></flexcomp><flexcomp name="g" type="grid" count="2 2 1" spacing=".1 .1 .1" dim="2" '
                     'radius=".01" pos="0 0 1"/></worldbody></mujoco>'),
        ("cable", '<mujoco><extension><plugin plugin="mujoco.elasticity.cable"/></extension><worldbody>'
                  '<composite prefix="c" type="cable" curve="s" count="5 1 1" size="1" initial="none">'
                  '<joint kind="main" damping=".01"/><geom type="capsule" size=".01"/></composite></worldbody></mujoco>'),
        ("replicate_nested", '<mujoco><worldbody><replicate count="3" offset="1 0 0"><replicate count="11" offset="0 1 0">'
                             '<body name="b"><joint name="j"/><geom name="g" size=".1"/></body></replicate></replicate>'
                             '<body name="b00"><geom name="g00" size=".1"/></body></worldbody></mujoco>'),
    ]


def check_set_model(lib, part, H, codes, enum, name, xml, exp, setonly):
    """exp[type] id-ordered names (setonly: order not decided, compare as multisets)."""
    rp = {"model": name, "xml": xml}
    try:
        m = lib.load_xml(xml)
    except mj.MjError as e:
        part.violation("derived model does not compile [%s]" % name, str(e), rp)
        return
    full = {k: list(exp.get(k, [])) for k in G.TYPE_KEYS}
    nl = 0
    for key, nf, af, _ in G.TYPES:
        code = codes[key]
        n = int(getattr(m, nf))
        got = [id2name_bytes(lib, m, code, i) for i in range(n)]
        gots = [g.decode() if g is not None else "" for g in got]
        want = full[key]
        same = sorted(gots) == sorted(want) if setonly else gots == want
        nl += n
        if not same:
            part.violation("derived model: names differ from the documented naming rule [%s %s]" % (name, key),
                           "%s: type %s names %r expected %r" % (name, key, gots, want), rp)
            m.free()
            return
        full[key] = gots   # order as compiled (multiset equal) -> full dictionary check below
    allnames = {s for v in full.values() for s in v if s}
    queries = make_queries(H, full, allnames)
    for vname, mm in [("compiled", m)] + variants(lib, m):
        check_tables(part, H, mm, full, name, vname, rp)
        nl += check_lookup(lib, part, mm, full, queries, type_code_list(codes, enum), name, vname, rp)
        if mm is not m:
            mm.free()
    m.free()
    part.count(nl, key=("derived", name))
    part.add("models", 1)


def check_self_model(lib, part, H, codes, enum, name, xml):
    rp = {"model": name, "xml": xml}
    try:
        m = lib.load_xml(xml)
    except mj.MjError as e:
        part.violation("derived model does not compile [%s]" % name, str(e), rp)
        return
    full = {}
    for key, nf, af, _ in G.TYPES:
        n = int(getattr(m, nf))
        got = [id2name_bytes(lib, m, codes[key], i) for i in range(n)]
        full[key] = [g.decode() if g is not None else "" for g in got]
        named = [g for g in full[key] if g]
        if len(set(named)) != len(named):
            part.violation("compiler-generated names are not unique within a type [%s %s]" % (name, key),
                           "%s: %r" % (name, sorted(named)), rp)
            m.free()
            return
    allnames = {s for v in full.values() for s in v if s}
    queries = make_queries(H, full, allnames)
    nl = 0
    for vname, mm in [("compiled", m)] + variants(lib, m):
        check_tables(part, H, mm, full, name, vname, rp)
        nl += check_lookup(lib, part, mm, full, queries, type_code_list(codes, enum), name, vname, rp)
        if mm is not m:
            mm.free()
    m.free()
    part.count(nl, key=("selfcheck", name))
    part.add("models", 1)
    part.add("selfcheck_names", len(allnames))


# ------------------------------------------------------------------------------------------ driver

def _chunk(chunk):
    lib = mj.load()
    H = G.Hasher(lib)
    codes, enum = G.type_codes()
    part = core.Part()
    for item in chunk:
        if item[0] == "derived":
            check_set_model(lib, part, H, codes, enum, *item[1:])
        elif item[0] == "self":
            check_self_model(lib, part, H, codes, enum, *item[1:])
        else:
            check_generated(lib, part, H, codes, enum, item)
    part.add("hash_is_tree_function", 0 if H.fn is None else 1)
    return part


def run(ctx):
    lib = mj.load()
    H = G.Hasher(lib)
    codes, enum = G.type_codes()
    # the enumerators this check was written for must all exist; a new nameable type would need a generator entry
    nameable = [k for k in enum if k.startswith("mjOBJ_") and enum[k] < enum["mjNOBJECT"]
                and k not in ("mjOBJ_UNKNOWN", "mjOBJ_XBODY", "mjOBJ_DOF")]
    if len(nameable) != len(G.TYPE_KEYS):
        raise RuntimeError("mjtObj has %d nameable types, generator knows %d" % (len(nameable), len(G.TYPE_KEYS)))
    # reimplementation cross-check of the documented hash (djb2-xor); informational
    if H.fn is not None:
        mism = sum(1 for s in BASIC + UTF8 + BLANK for T in (2, 6, 10, 28)
                   if G.py_hash64(_b(s)) % T != H.slot(_b(s), T))
        ctx.extra["hash_reimplementation_mismatches"] = mism
    Kmax = ctx.q(3, 4)
    items = []
    for K in range(1, Kmax + 1):
        for ti, tup in enumerate(tuples(K)):
            items.append(("lattice", K, tup, True, ti % 3))
            if K <= ctx.q(2, 3):
                items.append(("lattice", K, tup, False, (ti + 1) % 3))
    nl = len(items)
    Ks = ctx.q((2, 3, 5, 8), (1, 2, 3, 5, 8, 13))
    for si, scheme in enumerate(SCHEMES):
        for ki, K in enumerate(Ks):
            for tag in (0, 1):
                for anchor in (True, False) if K <= 3 else (True,):
                    items.append(("curated", scheme, K, tag, anchor, (si + ki + tag + anchor) % 3))
    for name, xml, exp, setonly in derived_models():
        items.append(("derived", name, xml, exp, setonly))
    for name, xml in selfcheck_models():
        items.append(("self", name, xml))
    core.pmap(ctx, _chunk, items, nchunks=min(len(items), core.NCPU * 6))
    ctx.extra["lattice_models"] = nl
    ctx.extra["curated_models"] = len(items) - nl
    ctx.extra["object_types"] = len(G.TYPE_KEYS)
    ctx.extra["type_codes_queried"] = len(type_code_list(codes, enum))
    ctx.rule = ("models: every ordered K-tuple (K=1..%d) over the symbols %s resolved per object type against that type's table "
                "size (colliders brute-forced with the tree's mj_hashString), with and without reference anchors, + %d curated "
                "schemes x K in %s x {shared, per-type-disjoint} names + derived models (replicate, fusestatic, discardvisual, "
                "flexcomp, cable composite); per model and per copy (compiled, mj_copyModel, save/load): every type code x "
                "(every derived query string, every id in [-2,n+1] and INT extremes) + names_map layout.  evaluations = lookups; "
                "non-trivial = (model, type) whose hash table holds a displaced entry (real collision chain) or an unnamed object"
                % (Kmax, SYMBOLS, len(SCHEMES), list(Ks)))
    ctx.assumptions = ["mj_name2id(NULL name) is not documented as safe: not called",
                       "names are NUL-free strings that MJCF can carry; unnamed is impossible in MJCF for mesh/hfield/texture/"
                       "material/numeric/text/tuple/plugin (replaced by unique names)",
                       "names_map layout (2 slots per object, types in mjtObj order, linear probing) is read from mjmodel.h / "
                       "engine_name.c comments; home slots use the tree's exported mj_hashString"]
