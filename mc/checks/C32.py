"""C32 Saved MJCF recompiles to the same model.

Enumerated (all exhaustively, no sampling):
  A. every (parent element -> child element, context) edge of src/xml/mjcf.schema (parsed with the
     tree's doc/generate/mjcf_schema.py) x every attribute of the child x its value menu
     (every keyword of every enum; one non-default value per arity for numbers): the attribute is
     set on a minimal valid scaffold -- directly, inside a two-level nested default class
     (<default><default class=c1><default class=c2>) used by an instance of every element kind that
     takes its defaults from that class element (<default><tendon/>: a spatial and a fixed tendon;
     <default><equality/>: one constraint of each of the 7 kinds), and inside <frame> /
     <replicate> / <worldbody> where the schema allows the child there;
     in the default-class context the instance also overrides the class value: with the schema's
     global default, and -- for every numeric attribute with more than one component, for EVERY
     arity form of its value menu as the class value -- with each value that shares components with
     the class value: the first k components equal and the rest different (quick k in {1, n-1},
     thorough every k), the last k equal (quick k=1), and the shorter k-component form made of the
     class value's first k components (quick: the shortest form the schema admits);  a failing
     override is re-run with an empty class: if it fails in the same arrays without the class it is
     reported under the plain attribute's key (one key per root cause);
  B. alphabet models: all forests <= N bodies x joint menu, with keyframes, builtin textures,
     inline meshes (vertices that need > 6 digits), nested defaults, frames; also loaded from a VFS
     file and saved with mj_saveLastXML; also specs edited through the mjSpec C API (mjs_attach);
  C. every shipped /repo/model/**.xml and /repo/test/**.xml that loads here.
Oracle: compile -> save (full precision 17) -> parse -> compile: every mjModel array, option,
statistic and visual field equal (integers and float32 exactly, float64 to 1e-8 of the array scale:
re-normalising an already normalised quaternion is not idempotent to the last bit -- such ulp-level
differences are counted, not reported); the reloaded text must parse; save(load(save(x))) == save(x)
textually (differences in sibling order only are counted separately).  At the default precision the
arrays agree to the printed precision (1e-4 of the array scale; only for B and C).
"""
from __future__ import annotations

import glob
import itertools
import os
import re

import numpy as np

from .. import alphabet as A
from .. import build, core, mj
from . import _c32_gen as G
from . import _c32_rt as R

LEVEL = "exploration"
META = dict(
    category=LEVEL,
    technique="exhaustive enumeration over the MJCF schema (every element edge x attribute x value menu x context) "
              "+ model alphabet + shipped corpus; differential oracle compile/save/parse/compile",
    text="Every (element, attribute) of mjcf.schema is set to non-default values on a minimal valid scaffold, directly, "
         "through a two-level nested default class (with an instance that inherits it and instances that override it by "
         "the global default and by every value sharing leading/trailing components or a shorter arity form with the class "
         "value) and inside frame/replicate/worldbody; each document is compiled, "
         "saved at full float precision with the tree's writer, re-parsed and re-compiled; all mjModel arrays, options, "
         "statistics and visual settings must be equal and the saved text must be a fix-point. The same oracle runs "
         "on an alphabet of kinematic forests with keyframes/assets/defaults/frames (also through mj_loadXML + "
         "mj_saveLastXML and on specs edited with mjs_attach) and on every shipped model that loads here.",
    note="tinyxml2 is an expat-backed shim (DOM + printer); PNG/OBJ/marching-cubes decoders are inert so file-based "
         "textures/OBJ meshes/SDF meshes are skipped (counted). float64 arrays are compared to 1e-8 of the array "
         "scale (ulp-level renormalisation noise is counted in 'ulp_noise_docs'), everything else bit-exactly.",
    design_ref="DESIGN.md §3 C32")

TOL64 = 1e-8        # observed renormalisation noise <= 4.1e-11 of the array scale (250x head-room); a 6-digit print error is >= 1e-7
TOL6 = 1e-4         # default precision (6 significant digits): observed <= ~2e-6


def norm_msg(msg):
    msg = re.sub(r"line \d+", "line N", msg)
    msg = re.sub(r"id \d+", "id N", msg)
    msg = re.sub(r"\(id = \d+\)", "(id = N)", msg)
    return " | ".join(x.strip() for x in msg.strip().splitlines())[:220]


class RT:
    """Result of one round trip."""
    __slots__ = ("ok", "stage", "msg", "bad", "noise", "t1", "t2", "reordered", "mptr", "spec", "perm")


_DBUF = None


def raw_compile(lib, spec, vfs):
    """mj_compile -> raw mjModel pointer (no Python reflection objects: those cost more than the compile)."""
    p = lib.mj_compile(spec, vfs)
    if not p:
        raise mj.MjError("compile: " + (lib.cstr(lib.mjs_getError(spec)) or ""))
    return p


def fast_equal(lib, p1, p2):
    """memcmp of every reflected field + mjVisual bytes (C side)."""
    import ctypes
    global _DBUF
    if _DBUF is None:
        _DBUF = ctypes.create_string_buffer(128)
    if lib.c.vg_model_diff(p1, p2, _DBUF, 128):
        return False
    off = R._offsets(lib)
    o, n = off["mjModel.vis"], off["sizeof.mjVisual"]
    return ctypes.string_at(p1 + o, n) == ctypes.string_at(p2 + o, n)


def roundtrip(lib, xml, vfs, keep=False):
    """parse+compile xml, save, parse+compile the saved text, save again; compare.  With keep=True the
    first model pointer and spec are kept alive in the result (caller frees with release())."""
    r = RT()
    r.ok = False
    r.bad, r.noise, r.t1, r.t2, r.reordered, r.mptr, r.spec, r.perm = [], [], None, None, False, None, None, None
    spec = spec2 = None
    p1 = p2 = None
    try:
        try:
            spec = lib.parse_xml(xml, vfs)
            p1 = raw_compile(lib, spec, vfs)
        except mj.MjError as e:
            r.stage, r.msg = "load", str(e)
            return r
        try:
            r.t1 = R.save_string(lib, spec)
        except mj.MjError as e:
            r.stage, r.msg = "save", str(e)
            return r
        try:
            spec2 = lib.parse_xml(r.t1, vfs)
            p2 = raw_compile(lib, spec2, vfs)
        except mj.MjError as e:
            r.stage, r.msg = "reload", str(e)
            return r
        if not fast_equal(lib, p1, p2):
            ma, mb = mj.Model(lib, p1, own=False), mj.Model(lib, p2, own=False)
            r.bad, r.noise = R.compare(lib, ma, mb, TOL64)
            if r.bad:
                r.perm = R.permuted(ma, mb)
        try:
            r.t2 = R.save_string(lib, spec2)
        except mj.MjError as e:
            r.stage, r.msg = "resave", str(e)
            return r
        r.reordered = R.text_cmp(r.t1, r.t2)
        r.ok = True
        r.stage = "done"
        if keep:
            r.mptr, r.spec = p1, spec
            p1 = spec = None
        return r
    finally:
        for x in (p1, p2):
            if x:
                lib.mj_deleteModel(x)
        for s in (spec, spec2):
            if s is not None:
                lib.mj_deleteSpec(s)


def release(lib, r):
    if r.mptr:
        lib.mj_deleteModel(r.mptr)
        r.mptr = None
    if r.spec is not None:
        lib.mj_deleteSpec(r.spec)
        r.spec = None


def judge(part, r, key_prefix, what_prefix, replay):
    """Turn a round-trip result into violations; returns True if clean."""
    if r.stage in ("save", "reload", "resave"):
        part.violation("%s rejected: %s" % (r.stage, norm_msg(r.msg)),
                       "%s: %s of the saved MJCF failed: %s" % (what_prefix, r.stage, norm_msg(r.msg)), replay)
        return False
    clean = True
    if r.bad and r.perm:
        part.violation("object ids are permuted by save/reload: elements inside <frame>/<replicate> are written after the body's direct children",
                       "%s: the reloaded model has its %ss in a different order (%s)" % (what_prefix, r.perm, "; ".join("%s (%s)" % (f, e) for f, e in r.bad[:5])),
                       replay)
        clean = False
    elif r.bad:
        fields = ",".join(f for f, _ in r.bad[:4])
        part.violation("%s: arrays differ after save/reload [%s]" % (key_prefix, fields),
                       "%s: recompiled saved MJCF differs in %s" % (what_prefix, "; ".join("%s (%s)" % (f, e) for f, e in r.bad[:8])),
                       replay)
        clean = False
    if r.noise:
        part.add("ulp_noise_docs")
        mx = max([e for _, e in r.noise] + [0.0])
        part["extra"]["max_noise"] = max(part["extra"].get("max_noise", 0.0), mx)
    if r.reordered == "numeric-noise":
        part.add("fixpoint_numeric_noise_only")
    elif r.reordered == "reordered":
        part.add("fixpoint_sibling_order_only")
    elif r.reordered == "different":
        part.violation("%s: saved text is not a fix-point" % key_prefix,
                       "%s: save(load(save(x))) != save(x) beyond sibling order / 9-digit numeric noise" % what_prefix, replay)
        clean = False
    return clean


# ------------------------------------------------------------------ A: schema cases


def schema_items():
    seen = set()
    items = []
    for parent, child, card, ctx in G.edges():
        if (parent, child, ctx) in seen:
            continue
        seen.add((parent, child, ctx))
        items.append(("edge", parent, child, ctx))
    return items


def build_doc(parent, child, ctx, setting=None):
    r = G.scaffold(parent, child, ctx)
    if r is None:
        return None
    doc, t, par = r
    if ctx == "default":
        # instances that use the nested class, so that the class attribute reaches the model (one per element kind
        # that takes its defaults from this class element)
        inst_child = child if parent == "default" else parent
        for inst_parent, kind in instance_kinds(inst_child):
            r2 = G.scaffold(inst_parent, kind, "main", doc)
            if r2 is not None:
                _, t2, _ = r2
                names = {a.name for a in G.attrs_of(kind)}
                if "class" in names:
                    t2.set("class", "c2")
    if setting is not None:
        G.apply_setting(t, setting)
    return doc


def instance_kinds(child):
    """(parent, element) pairs of the main-context elements that take their class defaults from the default-context
    element `child`: the element itself where it also exists outside <default>; for the default-only elements
    (<default><tendon/>, <default><equality/>) every child kind of the section of the same name (spatial and fixed;
    connect, weld, joint, tendon, flex, flexvert, flexstrain)."""
    par = G.canonical_parent(child, "main")
    if par is not None:
        return [(par, child)]
    S, sc = G.schema()
    sec = G.xml_tag(child)
    if sec in sc.elements:
        return [(sec, ch.name) for ch in sc.elements[sec].children()]
    return []


def class_instances(doc, attr=None):
    """Nodes of the document that use the nested class c2 (optionally: and admit attribute `attr`)."""
    out = []
    for n in doc.nodes():
        if n.tag != "default" and n.get("class") == "c2":
            if attr is None or attr in _admitted(n.tag):
                out.append(n)
    return out


_ADM = {}


def _admitted(tag):
    """Attribute names admitted by any schema element spelled <tag> (instances are found by tag)."""
    if tag not in _ADM:
        S, sc = G.schema()
        s = set()
        for name, el in sc.elements.items():
            if el.xml_name() == tag:
                s.update(a.name for a in G.attrs_of(name))
        _ADM[tag] = s
    return _ADM[tag]


def run_edge(lib, vfs, part, parent, child, ctx, enum_all):
    edge = "%s/%s[%s]" % (parent, child, ctx)
    doc = build_doc(parent, child, ctx)
    if doc is None:
        part.add("edges_without_scaffold")
        part["extra"].setdefault("unscaffolded", []).append(edge + ": no scaffold (decoder/plugin unavailable here)")
        return
    base_xml = doc.xml()
    rb = roundtrip(lib, base_xml, vfs, keep=True)
    part.count(1)
    if rb.stage == "load":
        raise RuntimeError("scaffold of %s does not load: %s" % (edge, rb.msg))
    if not judge(part, rb, "baseline %s/%s%s" % (parent, child, "[default]" if ctx == "default" else ""),
                 "scaffold %s" % edge, {"xml": base_xml}):
        part.add("edges_with_failing_baseline")
        release(lib, rb)
        return
    try:
        _edge_attrs(lib, vfs, part, parent, child, ctx, enum_all, edge, rb)
    finally:
        release(lib, rb)


def _edge_attrs(lib, vfs, part, parent, child, ctx, enum_all, edge, rb):
    for c in G.attr_cases_of(parent, child, ctx):
        name = "%s.%s%s" % (child, c["attr"], "[default]" if ctx == "default" else "")
        nload = 0
        lasterr = "no candidate value"
        done = []
        for setting in c["cands"]:
            d = build_doc(parent, child, ctx, setting)
            xml = d.xml()
            r = roundtrip(lib, xml, vfs, keep=True)
            part.count(1)
            if r.stage == "load":
                lasterr = norm_msg(r.msg)
                continue
            nload += 1
            effect = (r.t1 != rb.t1) or (r.mptr and not fast_equal(lib, r.mptr, rb.mptr))
            release(lib, r)
            part.count(0, key=(parent, child, ctx, c["attr"], repr(setting)) if effect else None,
                       sample={"edge": edge, "attr": c["attr"], "setting": setting, "xml": xml} if effect and c["attr"] in ("solimp", "euler", "type") else None)
            if not effect:
                part.add("settings_without_effect")
            judge(part, r, name, "%s in %s with %s" % (name, edge, setting), {"xml": xml, "edge": edge, "setting": setting})
            if ctx == "default" and parent == "default" and c["default"] is not None and len(setting[0]) == 1:
                # the instance overrides the class value back to the schema (global) default: the writer must not drop it
                dv = c["default"]
                dv = " ".join("%.17g" % x for x in dv) if isinstance(dv, tuple) else ("%.17g" % dv if isinstance(dv, float) else str(dv))
                d2 = build_doc(parent, child, ctx, setting)
                inst = class_instances(d2, c["attr"])
                if inst:
                    for n in inst:
                        n.set(c["attr"], dv)
                    xml2 = d2.xml()
                    r2 = roundtrip(lib, xml2, vfs)
                    if r2.stage != "load":
                        part.count(1, key=(parent, child, ctx, c["attr"], "override-with-global-default"))
                        judge(part, r2, name + " overridden by its global default on the instance",
                              "%s: class value %s, instance sets the global default %s" % (name, setting, dv), {"xml": xml2, "edge": edge})
            done.append(setting)
            if not (c["enum"] and enum_all):
                break
        if ctx == "default" and parent == "default" and c["type"] in ("double", "float", "int"):
            nload += _component_overrides(lib, vfs, part, parent, child, ctx, c, name, edge, done)
        if nload == 0:
            part.add("attributes_unscaffolded")
            part["extra"].setdefault("unscaffolded", []).append("%s in %s: %s" % (name, edge, lasterr[:90]))
        else:
            part.add("attributes_covered")


def _alt(tok, is_int):
    """A different valid number of the same sign and order of magnitude (keeps lo < hi of the range-like menus)."""
    if is_int:
        return str(int(tok) + 1)
    x = float(tok)
    return "%.17g" % (x * 0.875 if x != 0 else 0.125)


def component_variants(toks, lo, is_int, full):
    """Instance values that share components with the class value `toks` (n >= 2 components):
      prefix k : first k components equal to the class value, the other n-k different;
      suffix k : last k components equal, the first n-k different;
      short k  : the k-component form (lo <= k < n) made of the first k components of the class value -- for attributes
                 whose reader expands or keeps the unspecified components (springlength "a" = "a a"; size, friction,
                 solimp, gear, ... keep the inherited tail).
    quick: k in {1, n-1} for prefix, k = 1 for suffix, the shortest admitted form for short; thorough (full): every k."""
    n = len(toks)
    alt = [_alt(t, is_int) for t in toks]
    ks = range(1, n)
    pk = list(ks) if full else sorted({1, n - 1})
    sk = list(ks) if full else [1]
    hk = [k for k in ks if k >= max(lo, 1)]
    if not full:
        hk = hk[:1]
    out = []
    for k in pk:
        out.append(("prefix", k, " ".join(toks[:k] + alt[k:])))
    for k in sk:
        out.append(("suffix", k, " ".join(alt[:n - k] + toks[n - k:])))
    for k in hk:
        out.append(("short", k, " ".join(toks[:k])))
    return out


def _component_overrides(lib, vfs, part, parent, child, ctx, c, name, edge, done):
    """Default-class context, numeric attributes with more than one component: EVERY arity form of the value menu is the
    class value (the main loop stops at the first form that loads), and for every class value with >= 2 components the
    instance overrides it with each value of component_variants().  The writer decides per attribute how many components
    to print and whether the instance equals its class; both decisions must look at all components of both."""
    a = [x for x in G.projected_attrs(child) if x.name == c["attr"]]
    if not a:
        return 0
    lo, hi = G.arity(a[0])
    if hi is not None and hi < 2:
        return 0
    is_int = c["type"] == "int"
    nload = 0
    for setting in c["cands"]:
        sets, dels = setting
        if dels or len(sets) != 1 or sets[0][0] != c["attr"]:
            continue                     # companion settings: the attribute is not set alone
        toks = sets[0][1].split()
        if len(toks) < 2:
            continue
        if setting not in done:
            d = build_doc(parent, child, ctx, setting)
            xml = d.xml()
            r = roundtrip(lib, xml, vfs)
            part.count(1)
            if r.stage == "load":
                part.add("class_values_not_loadable")
                continue
            nload += 1
            part.count(0, key=(parent, child, ctx, c["attr"], repr(setting)))
            part.add("class_values_of_further_arity")
            judge(part, r, name, "%s in %s with %s" % (name, edge, setting), {"xml": xml, "edge": edge, "setting": setting})
        for kind, k, val in component_variants(toks, lo, is_int, _OPTS["full_overrides"]):
            d2 = build_doc(parent, child, ctx, setting)
            inst = class_instances(d2, c["attr"])
            if not inst:
                part.add("component_overrides_without_instance")
                break
            for n in inst:
                n.set(c["attr"], val)
            xml2 = d2.xml()
            r2 = roundtrip(lib, xml2, vfs)
            part.count(1)
            if r2.stage == "load":
                part.add("component_overrides_not_loadable")
                part["extra"].setdefault("component_overrides_rejected", []).append("%s class %s instance %s: %s" % (name, sets[0][1], val, norm_msg(r2.msg)[:80]))
                continue
            part.add("component_overrides_" + kind)
            part.count(0, key=(parent, child, ctx, c["attr"], "override", sets[0][1], kind, k))
            kp = "%s overridden on the instance by a value sharing components with the class value" % name
            if r2.bad and not r2.perm:
                # control experiment: the same instance value with an empty class.  If that fails in the same arrays the
                # class is not involved and the case belongs to the plain attribute's key (one key per root cause)
                d3 = build_doc(parent, child, ctx)
                for n in class_instances(d3, c["attr"]):
                    n.set(c["attr"], val)
                r3 = roundtrip(lib, d3.xml(), vfs)
                part.count(1)
                if r3.stage == "done" and r3.bad and [f for f, _ in r3.bad] == [f for f, _ in r2.bad]:
                    part.add("component_overrides_failing_without_class_too")
                    kp = "%s.%s" % (child, c["attr"])
            judge(part, r2, kp,
                  "%s: class value %s, instance sets %s (%s %d of %d components)" % (name, sets[0][1], val, kind, k, len(toks)),
                  {"xml": xml2, "edge": edge, "class_value": sets[0][1], "instance_value": val})
    return nload


# ------------------------------------------------------------------ B: alphabet models

MESHV = "0.125 0.1 0.1  0.1 -0.101 -0.1  -0.1 0.1 -0.1003  -0.1 -0.1 0.10007 0.0301 0.0202 0.17"
MESHV9 = "0.123456789 0.1 0.1  0.1 -0.101234567 -0.1  -0.1 0.1 -0.100000123  -0.1 -0.1 0.1000007 0.0301 0.0202 0.17000001"


def alphabet_models(nmax, menu):
    """(tag, xml) for all forests <= nmax bodies x joint menu product, decorated with keyframes,
    builtin textures, inline meshes, nested default classes and frames (deterministic)."""
    asset = ('    <texture name="tx" type="2d" builtin="checker" width="8" height="8" rgb1="0.1 0.2 0.3" rgb2="0.9 0.8 0.7" mark="edge" markrgb="1 0 0"/>\n'
             '    <texture name="sky" type="skybox" builtin="gradient" width="4" height="24" rgb1="0.3 0.5 0.7"/>\n'
             '    <material name="ma" texture="tx" texrepeat="2 3" reflectance="0.2"/>\n'
             '    <mesh name="me" vertex="%s" scale="1.1 0.9 1.3"/>\n' % MESHV)
    default = ('    <joint damping="0.11" armature="0.013"/>\n'
               '    <geom friction="0.7 0.01 0.002" material="ma"/>\n'
               '    <default class="k1">\n      <geom rgba="0.1 0.2 0.3 1" solref="0.03 0.8"/>\n      <joint stiffness="1.5"/>\n'
               '      <default class="k2">\n        <geom condim="4" margin="0.003"/>\n        <site size="0.02" rgba="1 0 0 1"/>\n      </default>\n    </default>')
    for par in A.all_forests(nmax):
        roots = [p == -1 for p in par]
        doms = [A.joint_menu(r, menu) for r in roots]
        n = len(par)
        for js in itertools.product(*doms):
            extra = {}
            for i in range(n):
                cls = ["", ' class="k1"', ' class="k2"'][i % 3]
                e = '      <geom name="x%d"%s type="mesh" mesh="me" pos="0.1 0 0.05" euler="0.1 0.2 0.3"/>\n' % (i, cls)
                e += ('      <frame name="f%d" pos="0.01 0.02 0.03" quat="0.7 0.1 -0.2 0.3"%s>\n'
                      '        <site name="fs%d" pos="0 0 0.1"/>\n        <geom name="fg%d" size="0.02" zaxis="1 1 0"/>\n      </frame>\n'
                      % (i, ' childclass="k2"' if i % 2 else "", i, i))
                extra[i] = e
            xml = A.tree_mjcf(par, list(js), axis=[i % 3 for i in range(n)], anchor=[(i + 1) % 2 for i in range(n)],
                              frame=[1 + i % 2 for i in range(n)], geom=[A.GEOM_ORDER[i % 5] for i in range(n)],
                              gattr="", default=default, asset=asset, extra_in_body=extra, compiler='usethread="false"',
                              world_extra='    <geom name="floor" type="plane" size="3 3 0.1" material="ma"/>\n'
                                          '    <light name="li" pos="0 0 3" dir="0.1 0.2 -1"/>\n'
                                          '    <camera name="ca" pos="0 -2 1" xyaxes="1 0 0 0 0.5 0.8"/>\n')
            yield ("forest %s %s" % (par, js)), xml


def with_keyframes(lib, xml, vfs):
    """Append two keyframes sized for the model (qpos from the state lattice)."""
    m = lib.load_xml(xml, vfs)
    try:
        qs = A.qpos_lattice(m, limit=4)
        q = qs[min(1, len(qs) - 1)]
        fmt = lambda v: " ".join("%.17g" % x for x in v)
        elast = np.zeros(max(m.nv, 1))
        elast[-1] = 0.3
        keys = ('  <keyframe>\n    <key name="home" time="0.5" qpos="%s" qvel="%s"/>\n    <key qpos="%s"/>\n'
                '    <key name="lastdof" qvel="%s"/>\n  </keyframe>\n' % (fmt(q), fmt(0.1 * np.arange(1, m.nv + 1)), fmt(qs[0]), fmt(elast[:m.nv])))
        if m.nq == 0:
            keys = '  <keyframe>\n    <key name="home" time="0.5"/>\n  </keyframe>\n'
    finally:
        m.free()
    return xml.replace("</mujoco>", keys + "</mujoco>")


def run_alphabet(lib, vfs, part, tag, xml, idx):
    xml = with_keyframes(lib, xml, vfs)
    r = roundtrip(lib, xml, vfs)
    part.count(1, key=("alphabet", tag), sample={"alphabet": tag, "xml": xml} if idx % 97 == 0 else None)
    if r.stage == "load":
        raise RuntimeError("alphabet model does not load: %s\n%s" % (r.msg, xml))
    judge(part, r, "alphabet model", "alphabet model %s" % tag, {"xml": xml})
    # default precision: printed precision only
    R.set_precision(lib, 6)
    try:
        spec = lib.parse_xml(xml, vfs)
        m = lib.compile(spec, vfs)
        t6 = R.save_string(lib, spec)
        try:
            m2 = lib.load_xml(t6, vfs)
            bad, noise = R.compare(lib, m, m2, TOL6, TOL6)
            part.count(1)
            if bad:
                part.violation("alphabet model at default precision: arrays differ beyond printed precision [%s]" % ",".join(f for f, _ in bad[:4]),
                               "alphabet %s saved at precision 6 differs: %s" % (tag, bad[:6]), {"xml": xml, "precision": 6})
            m2.free()
        except mj.MjError as e:
            part.violation("reload rejected (precision 6): %s" % norm_msg(str(e)), "alphabet %s: %s" % (tag, e), {"xml": xml})
        m.free()
        lib.mj_deleteSpec(spec)
    finally:
        R.set_precision(lib, 17)
    # file path: mj_loadXML from a VFS + mj_saveLastXML
    if idx % 4 == 0:
        v2 = G.make_vfs(lib, {"model.xml": xml})
        try:
            m = R.load_file(lib, "model.xml", v2)
            path = os.path.join(R.tmpdir(), "last_%d.xml" % os.getpid())
            t = R.save_last(lib, m, path)
            m2 = lib.load_xml(t, vfs)
            bad, noise = R.compare(lib, m, m2, TOL64)
            part.count(1, key=("saveLast", tag))
            if bad:
                part.violation("mj_saveLastXML: arrays differ after save/reload [%s]" % ",".join(f for f, _ in bad[:4]),
                               "alphabet %s via mj_loadXML/mj_saveLastXML differs: %s" % (tag, bad[:6]), {"xml": xml, "api": "mj_saveLastXML"})
            m.free()
            m2.free()
        except mj.MjError as e:
            part.violation("mj_saveLastXML path failed: %s" % norm_msg(str(e)), "alphabet %s: %s" % (tag, e), {"xml": xml})
        finally:
            lib.mj_freeLastXML()
            lib.mj_deleteVFS(v2)


SPECIALS = [
    # classes that carry no override of their own still have to be written when something refers to them
    ("empty nested default class referenced by class=",
     '<mujoco><default><geom size="0.03"/><default class="vis"><geom rgba="1 0 0 1" contype="0"/><default class="vis_empty"/></default>'
     '<default class="col"/></default><worldbody><body name="b" childclass="col"><joint/><geom name="g0"/>'
     '<geom name="g1" class="vis_empty" pos="0 0 0.1"/><geom name="g2" class="vis" pos="0 0 0.2"/></body></worldbody></mujoco>'),
    ("nested default class that only repeats inherited values, referenced by childclass=",
     '<mujoco><default><geom size="0.03"/><joint damping="0.2"/><default class="a"><geom rgba="0 1 0 1" size="0.04"/>'
     '<default class="a_same"><geom rgba="0 1 0 1" size="0.04"/><joint damping="0.2"/></default></default></default>'
     '<worldbody><body name="b" childclass="a_same"><joint name="j"/><geom name="g0"/><body name="c" pos="0 0 0.2" childclass="a">'
     '<joint name="k" class="a_same"/><geom name="g1"/></body></body></worldbody></mujoco>'),
    ("empty top-level class and empty leaf below a non-empty class, used by sites, joints and an actuator",
     '<mujoco><default><default class="e0"/><default class="n1"><site size="0.02"/><general gainprm="3"/><default class="e1"/></default></default>'
     '<worldbody><body name="b"><joint name="j" class="e0"/><geom size="0.05"/><site name="s0" class="e1"/><site name="s1" class="e0"/>'
     '</body></worldbody><actuator><general name="u" joint="j" class="e1"/></actuator></mujoco>'),
    ("inline mesh whose vertices need 9 significant digits",
     '<mujoco><asset><mesh name="me" vertex="%s"/></asset><worldbody><body><freejoint/><geom type="mesh" mesh="me"/></body></worldbody></mujoco>' % MESHV9),
    ("frame placed before a direct sibling of the same kind",
     '<mujoco><worldbody><body name="b"><joint/><frame name="f" pos="0 0 0.1"><geom name="in_frame" type="box" size="0.1 0.2 0.3"/>'
     '<site name="s_in"/></frame><geom name="direct" size="0.05"/><site name="s_direct" pos="0 0 1"/></body></worldbody></mujoco>'),
    ("nested frames with childclass and a body inside",
     '<mujoco><default><default class="a"><geom rgba="1 0 0 1" size="0.03"/><default class="b"><geom type="box"/></default></default></default>'
     '<worldbody><body name="b1"><joint/><geom name="g0" size="0.02"/><frame name="f1" childclass="a" pos="0.1 0 0" euler="0 0 30">'
     '<geom name="g1"/><frame name="f2" childclass="b" zaxis="0 1 1"><geom name="g2" size="0.02 0.03 0.04"/>'
     '<body name="b2" pos="0 0 0.2"><joint type="ball"/><geom name="g3" size="0.02 0.03 0.05"/></body></frame></frame></body></worldbody></mujoco>'),
    ("keyframe with mocap and act",
     '<mujoco><worldbody><body name="m" mocap="true" pos="0 0 1"><geom size="0.01" contype="0" conaffinity="0"/></body>'
     '<body name="b"><joint name="j"/><geom size="0.1"/></body></worldbody>'
     '<actuator><intvelocity name="a" joint="j" actrange="-1 1"/></actuator>'
     '<keyframe><key name="k" time="2" qpos="0.3" qvel="-0.1" act="0.25" ctrl="0.5" mpos="0.1 0.2 0.3" mquat="0.5 0.5 0.5 0.5"/></keyframe></mujoco>'),
]


def run_special(lib, vfs, part, tag, xml):
    r = roundtrip(lib, xml, vfs)
    part.count(1, key=("special", tag))
    if r.stage == "load":
        raise RuntimeError("special model does not load: %s\n%s" % (r.msg, xml))
    judge(part, r, "model with " + tag, "model with " + tag, {"xml": xml})


# ------------------------------------------------------------------ B2: specs edited through the mjSpec API

CHILD = """<mujoco model="child">
  <default><default class="kk"><geom rgba="0 1 0 1" friction="0.6"/></default></default>
  <worldbody>
    <frame name="cfr" pos="0.05 0 0.1" euler="0.1 0 0.2">
    <body name="cb" pos="0.1 0.2 0.3" quat="0.9 0.1 0 0.2">
      <joint name="cj" axis="0 1 1" damping="0.2"/>
      <geom name="cg" class="kk" type="capsule" size="0.03 0.1"/>
      <site name="cs" pos="0 0 0.1"/>
      <body name="cb2" pos="0 0 0.3"><joint name="cj2" type="ball"/><geom name="cg2" size="0.04"/></body>
    </body>
    </frame>
  </worldbody>
  <actuator><position name="ca" joint="cj" kp="3"/></actuator>
  <sensor><jointpos name="csn" joint="cj"/></sensor>
  <keyframe><key name="ck" qpos="0.3 1 0 0 0"/></keyframe>
</mujoco>
"""


def elem(ptr):
    import ctypes
    return ctypes.cast(ptr, ctypes.POINTER(ctypes.c_void_p))[0]


def run_spec_built(lib, vfs, part):
    """Models built with the mjSpec API: attach a parsed child spec to a body / a frame / a site of
    the universe, with prefix/suffix, then the usual save/reload oracle on the edited spec."""
    import ctypes
    for target, kind in (("b1", "body"), ("fr", "frame"), ("s1", "site")):
        for prefix, suffix in ((b"p_", b""), (b"", b"_s")):
            parent = lib.parse_xml(G.UNIVERSE.replace('<site name="s1" pos="0.1 0 0"/>', '<site name="s1" pos="0.1 0 0"/><frame name="fr" pos="0 0.1 0" euler="0 0 0.5"/>'), vfs)
            child = lib.parse_xml(CHILD, vfs)
            m = m2 = spec2 = None
            try:
                if kind == "body":
                    tgt = elem(lib.mjs_findBody(parent, target.encode()))
                elif kind == "frame":
                    tgt = elem(lib.mjs_findFrame(parent, target.encode()))
                else:
                    tgt = lib.mjs_findElement(parent, 6, target.encode())
                src = elem(lib.mjs_findFrame(child, b"cfr")) if kind == "body" else elem(lib.mjs_findBody(child, b"cb"))
                res = lib.mjs_attach(tgt, src, prefix, suffix)
                if not res:
                    raise RuntimeError("mjs_attach failed: %s" % lib.cstr(lib.mjs_getError(parent)))
                m = lib.compile(parent, vfs)
                t1 = R.save_string(lib, parent)
                replay = {"api": "mjs_attach", "target": target, "kind": kind, "prefix": prefix, "suffix": suffix, "saved": t1}
                part.count(1, key=("spec", target, prefix, suffix), sample={"spec_built": "mjs_attach child body to %s %s" % (kind, target)} if prefix else None)
                try:
                    spec2 = lib.parse_xml(t1, vfs)
                    m2 = lib.compile(spec2, vfs)
                except mj.MjError as e:
                    part.violation("reload rejected: %s" % norm_msg(str(e)), "spec built with mjs_attach (%s %s): saved MJCF rejected: %s" % (kind, target, e), replay)
                    continue
                bad, noise = R.compare(lib, m, m2, TOL64)
                if bad:
                    part.violation("spec built with mjs_attach: arrays differ after save/reload [%s]" % ",".join(f for f, _ in bad[:4]),
                                   "attach to %s %s: %s" % (kind, target, bad[:6]), replay)
                t2 = R.save_string(lib, spec2)
                tc = R.text_cmp(t1, t2)
                if tc == "different":
                    part.violation("spec built with mjs_attach: saved text is not a fix-point", "attach to %s %s" % (kind, target), replay)
                elif tc != "equal":
                    part.add("fixpoint_" + ("sibling_order_only" if tc == "reordered" else "numeric_noise_only"))
            finally:
                for x in (m, m2):
                    if x is not None:
                        x.free()
                for s in (parent, child, spec2):
                    if s is not None:
                        lib.mj_deleteSpec(s)


# ------------------------------------------------------------------ C: shipped corpus


def shipped_files():
    fs = sorted(glob.glob(os.path.join(build.REPO, "model", "**", "*.xml"), recursive=True) +
                glob.glob(os.path.join(build.REPO, "test", "**", "*.xml"), recursive=True))
    return fs


SKIP_RULES = [
    ("decoder", re.compile(r"decode|\.png|\.obj|\.stl|\.msh|lodepng|could not be decoded|Unknown (mesh|texture)|content type|tinyobj|PNG|image", re.I)),
    ("plugin", re.compile(r"plugin", re.I)),
    ("missing file", re.compile(r"Error opening file|No such file|not found|could not open|resource", re.I)),
    ("not a model (include fragment / intentionally invalid test input)", re.compile(r".*", re.S)),
]


def run_file(lib, part, path, size_cap):
    rel = os.path.relpath(path, build.REPO)
    if os.path.getsize(path) > size_cap:
        part.add("files_skipped_size_cap")
        part["capped"] = True
        return
    try:
        spec = R.parse_file(lib, path)
        m = lib.compile(spec)
    except mj.MjError as e:
        msg = str(e)
        for name, rx in SKIP_RULES:
            if rx.search(msg):
                part.add("files_skipped: " + name)
                break
        return
    try:
        t1 = R.save_string(lib, spec)
    except mj.MjError as e:
        part.violation("save rejected: %s" % norm_msg(str(e)), "%s: %s" % (rel, e), {"file": rel})
        m.free()
        lib.mj_deleteSpec(spec)
        return
    # re-parse in the same directory (assets resolve as for the original) through a VFS entry
    d = os.path.dirname(path)
    name = os.path.join(d, "__verif_saved__.xml")
    vfs = G.make_vfs(lib, {})
    b = t1.encode()
    lib.mj_addBufferVFS(vfs, name.encode(), b, len(b))
    m2 = spec2 = None
    try:
        part.count(1, key=("file", rel), sample={"file": rel} if rel.endswith("humanoid.xml") else None)
        try:
            spec2 = R.parse_file(lib, name, vfs)
            m2 = lib.compile(spec2, vfs)
        except mj.MjError as e:
            part.violation("reload rejected: %s" % norm_msg(str(e)), "%s: saved MJCF rejected: %s" % (rel, norm_msg(str(e))), {"file": rel})
            return
        bad, noise = R.compare(lib, m, m2, TOL64)
        if noise:
            part.add("ulp_noise_docs")
            part["extra"]["max_noise"] = max(part["extra"].get("max_noise", 0.0), max(e for _, e in noise))
        if bad:
            perm = R.permuted(m, m2)
            if perm:
                part.violation("object ids are permuted by save/reload: elements inside <frame>/<replicate> are written after the body's direct children",
                               "%s: the reloaded model has its %ss in a different order" % (rel, perm), {"file": rel})
            else:
                # one key per signature (set of differing arrays), not per file: files hit by the same root cause share it
                part.violation("shipped model: arrays differ after save/reload [%s]" % ",".join(f for f, _ in bad[:6]),
                               "%s: %s" % (rel, "; ".join("%s (%s)" % (f, e) for f, e in bad[:8])), {"file": rel})
        t2 = R.save_string(lib, spec2)
        tc = R.text_cmp(t1, t2)
        if tc == "different":
            part.violation("shipped model: saved text is not a fix-point", rel, {"file": rel})
        elif tc != "equal":
            part.add("fixpoint_" + ("sibling_order_only" if tc == "reordered" else "numeric_noise_only"))
    finally:
        for x in (m, m2):
            if x is not None:
                x.free()
        for s in (spec, spec2):
            if s is not None:
                lib.mj_deleteSpec(s)
        lib.mj_deleteVFS(vfs)


# ------------------------------------------------------------------ driver

_OPTS = {}


def _init():
    import resource
    try:
        resource.setrlimit(resource.RLIMIT_AS, (12 << 30, 12 << 30))
    except (ValueError, OSError):
        pass
    lib = mj.load()
    R.set_precision(lib, 17)
    return lib, G.make_vfs(lib)


def _item(state, part, it):
    lib, vfs = state
    kind = it[0]
    if kind == "edge":
        run_edge(lib, vfs, part, it[1], it[2], it[3], _OPTS["enum_all"])
    elif kind == "alpha":
        run_alphabet(lib, vfs, part, it[1], it[2], it[3])
    elif kind == "spec":
        run_spec_built(lib, vfs, part)
    elif kind == "special":
        run_special(lib, vfs, part, it[1], it[2])
    elif kind == "file":
        run_file(lib, part, it[1], _OPTS["size_cap"])


def _label(it):
    if it[0] == "edge":
        return "scaffold %s/%s[%s] or one of its attribute settings" % (it[1], it[2], it[3])
    if it[0] == "alpha":
        return "alphabet " + it[1]
    if it[0] == "file":
        return os.path.relpath(it[1], build.REPO)
    return it[0]


def run(ctx):
    lib = mj.load()
    R._offsets(lib)
    R.tmpdir()
    _OPTS["enum_all"] = True
    _OPTS["full_overrides"] = ctx.thorough
    _OPTS["size_cap"] = ctx.q(40_000, 50_000_000)
    items = schema_items()
    nedge = len(items)
    menu = ctx.q(["none", "hinge", "ball", "free"], ["none", "hinge", "slide", "ball", "free", "hinge2"])
    nmax = ctx.q(2, 3)
    alpha = [("alpha", tag, xml, i) for i, (tag, xml) in enumerate(alphabet_models(nmax, menu))]
    files = [("file", f) for f in shipped_files()]
    items += alpha + [("spec",)] + [("special", t, x) for t, x in SPECIALS] + files
    R.rpmap(ctx, _item, items, init=_init, label=_label)
    ctx.extra["violation_keys"] = sorted(v[0] for v in ctx.violations)
    ctx.extra["schema_edges"] = nedge
    ctx.extra["alphabet_models"] = len(alpha)
    ctx.extra["shipped_files_found"] = len(files)
    un = ctx.extra.get("unscaffolded")
    if isinstance(un, list):
        ctx.extra["unscaffolded"] = sorted(un)
    ctx.rule = ("A: every schema edge (parent->child, main/default context; frame/replicate/worldbody are parents too) x every "
                "attribute x value menu (all enum keywords; else first value that loads) on a minimal valid scaffold; "
                "non-trivial = the setting changes the compiled model or the saved text relative to the scaffold. "
                "Default-class context: instances of every kind that inherits the class; instance overrides = the global default, "
                "and for each numeric attribute with >1 component x every arity form as class value: prefix-k / suffix-k shared "
                "and short-k forms (%s) -- %d override documents, %d further-arity class values. "
                "B: all forests <=%d bodies x joint menu %s with keyframes, builtin textures, inline mesh, nested defaults, "
                "frames (+ precision-6 pass, + mj_loadXML/mj_saveLastXML on every 4th, + 6 mjs_attach-built specs). "
                "C: every shipped model/test XML <= %d bytes that loads here (skips counted by reason)."
                % ("every k" if ctx.thorough else "k in {1,n-1} / k=1 / shortest admitted",
                   sum(ctx.extra.get("component_overrides_" + k, 0) for k in ("prefix", "suffix", "short")),
                   ctx.extra.get("class_values_of_further_arity", 0), nmax, menu, _OPTS["size_cap"]))
    ctx.assumptions = ["float64 arrays equal to 1e-8 of the array scale (+1e-14 absolute) (quaternion re-normalisation is not idempotent to the last bit; "
                       "counted in ulp_noise_docs / max_noise); integers, float32 arrays and mjVisual bytes exactly",
                       "XML well-formedness and printing are the expat-backed tinyxml2 shim's",
                       "attributes listed in 'unscaffolded' could not be given a valid value on the scaffold and are not covered"]
