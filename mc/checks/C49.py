"""C49 Python introspection metadata matches the C headers.

The *whole* API surface of `python/mujoco/introspect/{structs,enums,functions}.py` (tree copy) is enumerated and
the C compiler is the oracle:

 forward  metadata -> header: every struct typedef / field (type through `__builtin_types_compatible_p` on
          pointer-wrapped types so that top-level qualifiers count, byte offset against a replica struct that is
          declared from the metadata, increasing offsets in declaration order), every enum constant value, every
          function signature (`__typeof__(fn)` against the declaration printed from the metadata) and every
          parameter (against the parameter's own source text, so array extents which decay inside a function type are
          still compared); each item is one line of a generated translation unit compiled with
          `clang -fsyntax-only -ferror-limit=0`, diagnostics are attributed to the item by line, failing items are
          removed and the rest re-compiled until clean, and every failing item is re-checked alone.  All of it is
          done for both floating point configurations of mjtype.h (default and -DmjUSESINGLE).
 reverse  header -> metadata: from `clang -ast-dump=json` of <mujoco/mujoco.h>: every struct typedef, every field
          (names, nesting, order), every enum / constant (order), every function / parameter name declared in a
          file under include/mujoco is present in the metadata (documented exclusions below), and nothing else is.
 xmacro   the `array_extent` of every mjModel / mjData pointer field equals the (nr, nc) of its X-macro entry in
          mjxmacro.h as expanded by the preprocessor, and vice versa.
 types    `type_parsing.parse_type`: every type string that the headers declare (field types, parameter texts,
          return types) and every string of a type grammar (base x cv x pointer chains with qualifiers x array
          extents, incl. pointer-to-array and array-of-pointer-to-array forms): the AST equals the AST the grammar
          term denotes, its printed form re-parses to the same AST, and both the abstract and the named printed
          declaration are type-compatible with the original string according to clang.
"""
from __future__ import annotations

import concurrent.futures as cf
import hashlib
import itertools
import os
import re
import subprocess

from .. import build, core
from .. import introspect_tree as it
from . import _c49_hdr as H

LEVEL = "exploration"
META = dict(
    category=LEVEL,
    technique="exhaustive enumeration of the API metadata and of a type grammar; the C compiler "
              "(_Static_assert / __builtin_types_compatible_p / offsetof, clang JSON AST) as oracle",
    text="Every struct, field, enum constant, function and parameter of the shipped introspect metadata is turned "
         "into a compile-time assertion against include/mujoco (both mjtNum configurations) and every declaration "
         "clang sees in the headers is looked up in the metadata, so the comparison is complete in both directions; "
         "parse_type/decl is exercised on all declared type strings and on a complete bounded type grammar. "
         "The space is finite and fully enumerated, so exploration is the right level.",
    note="Trusted: clang 14 (C11 type compatibility, offsetof, the JSON AST and its source locations). "
         "Comments (doc strings, 'Nullable:' annotations, '(n x m)' comments) are not seen by the compiler and are "
         "not compared; array_extent is compared against mjxmacro.h instead.",
    design_ref="DESIGN.md §3 C49")

# Documented, intentional exclusions of the tree's generator (python/mujoco/introspect/codegen/generate.py _EXCLUDED)
EXCLUDED_STRUCTS = ("mjpDecoder", "mjpEncoder", "mjpPlugin", "mjpResourceProvider", "mjResource")
EXCLUDED_FUNCTIONS = ("mjs_setUserValueWithCleanup",)
# python/mujoco/codegen/generate_function_traits.py: "Skip variadic functions as Introspect currently doesn't
# support them": the metadata describes the named parameters only.
DOCUMENTED_VARIADIC = ("mju_error", "mju_warning", "mju_info")

CONFIGS = (("double", ()), ("single", ("-DmjUSESINGLE",)))
PRELUDE = "#include <stddef.h>\n#include <mujoco/mujoco.h>\n#define nullable\n"
_ERR = re.compile(r"^(.*?):(\d+):(\d+): (?:fatal )?error: (.*)$")
_SOLO_CAP = 48


def _workdir():
    d = os.path.join(build.CACHE, "c49")
    os.makedirs(d, exist_ok=True)
    return d


# ------------------------------------------------------------------------------------------------ compiler oracle
def _clang(path, defs):
    cmd = [H.CLANG, "-x", "c", "-std=c11", "-fsyntax-only", "-ferror-limit=0", "-fno-caret-diagnostics",
           "-fno-color-diagnostics", "-w", "-I" + os.path.join(build.REPO, "include")] + list(defs) + [path]
    r = subprocess.run(cmd, capture_output=True, text=True)
    errs = {}
    for line in r.stderr.splitlines():
        m = _ERR.match(line)
        if m and os.path.abspath(m.group(1)) == os.path.abspath(path):
            errs.setdefault(int(m.group(2)), []).append(m.group(4))
    return r.returncode, errs, r.stderr


def _write(tag, text):
    p = os.path.join(_workdir(), "%s_%d_%s.c" % (tag, os.getpid(), hashlib.sha1(text.encode()).hexdigest()[:12]))
    tmp = p + ".%d.tmp" % os.getpid()
    with open(tmp, "w") as fh:
        fh.write(text)
    os.replace(tmp, p)
    return p


def compile_items(job):
    """job = (tag, defs, [(code line, context key or None) per item], {context key: code line})
    -> (tag, {index: diagnostic}).

    An item holds iff it is part of a translation unit that compiled without error; otherwise it is re-compiled
    alone (with its context line, e.g. the replica struct it refers to) and its own first diagnostic is returned."""
    tag, defs, lines, ctxs = job[:4]
    solo_cap = job[4] if len(job) > 4 else _SOLO_CAP
    npre = PRELUDE.count("\n")
    active = list(range(len(lines)))
    bad = {}
    dead_ctx = {}
    for _round in range(10):
        if not active:
            break
        used = []
        for i in active:
            ck = lines[i][1]
            if ck is not None and ck not in used:
                used.append(ck)
        body = [ctxs[ck] for ck in used] + [lines[i][0] for i in active]
        path = _write(tag, PRELUDE + "\n".join(body) + "\n")
        rc, errs, raw = _clang(path, defs)
        if rc == 0:
            os.unlink(path)
            break
        hit = {}
        for ln, msgs in errs.items():
            k = ln - npre - 1
            if 0 <= k < len(used):
                dead_ctx[used[k]] = msgs[0]
            elif len(used) <= k < len(used) + len(active):
                hit[active[k - len(used)]] = msgs[0]
            else:
                raise H.HarnessError("error outside the items of %s: %s" % (path, raw[-1500:]))
        for i in active:
            if lines[i][1] in dead_ctx:
                hit[i] = "context does not compile: " + dead_ctx[lines[i][1]]
        if not hit:
            raise H.HarnessError("clang failed on %s without attributable diagnostic: %s" % (path, raw[-1500:]))
        os.unlink(path)
        bad.update(hit)
        active = [i for i in active if i not in hit]
    else:
        raise H.HarnessError("translation unit %s does not converge" % tag)
    out = {}
    nsolo = 0
    for i in sorted(bad):
        code, ck = lines[i]
        if ck in dead_ctx:
            out[i] = bad[i]
            continue
        nsolo += 1
        if nsolo > solo_cap:
            out[i] = bad[i] + " (not re-checked in isolation)"
            continue
        path = _write(tag + "_solo", PRELUDE + (ctxs[ck] + "\n" if ck is not None else "") + code + "\n")
        rc, errs, raw = _clang(path, defs)
        os.unlink(path)
        if rc != 0:
            msgs = [m for ms in errs.values() for m in ms]
            out[i] = msgs[0] if msgs else raw[-300:]
    return tag, out


def run_jobs(ctx, jobs):
    """jobs: list of (tag, defs, lines, ctxs); returns {tag: {index: diag}}.  The seed only rotates dispatch order."""
    if jobs:
        r = ctx.seed % len(jobs)
        jobs = jobs[r:] + jobs[:r]
    res = {}
    with cf.ThreadPoolExecutor(max_workers=max(1, core.NCPU)) as ex:
        for tag, out in ex.map(compile_items, jobs):
            res[tag] = out
    return res


def eval_constant(expr, defs):
    """Value the compiler gives to an integer constant expression (only used to word a violation)."""
    path = _write("probe", PRELUDE + "enum { c49_probe = (%s) };\n" % expr)
    r = subprocess.run([H.CLANG, "-x", "c", "-std=c11", "-fsyntax-only", "-w", "-I" + os.path.join(build.REPO, "include"),
                        "-Xclang", "-ast-dump=json", "-Xclang", "-ast-dump-filter=c49_probe"] + list(defs) + [path],
                       capture_output=True, text=True)
    os.unlink(path)
    m = re.search(r'"kind": "ConstantExpr".*?"value": "(-?\d+)"', r.stdout, re.S)
    return int(m.group(1)) if m else None


def compat(a, b):
    """C expression: types a and b are compatible *including* their top-level qualifiers and array extents."""
    return "__builtin_types_compatible_p(__typeof__(%s) *, __typeof__(%s) *)" % (a, b)


def sassert(cond, key):
    return '_Static_assert(%s, "%s");' % (cond, key.replace('"', "'").replace("\\", "/"))


# ------------------------------------------------------------------------------------------------ metadata walk
class Leaf:
    __slots__ = ("path", "field", "prev", "in_union", "first")

    def __init__(self, path, field, prev, in_union, first):
        self.path, self.field, self.prev, self.in_union, self.first = path, field, prev, in_union, first


def meta_shape(an, fields):
    """Nested (name, kind, children) description of a metadata field tuple."""
    out = []
    for f in fields:
        if isinstance(f, an.AnonymousStructDecl):
            out.append((None, "union" if isinstance(f, an.AnonymousUnionDecl) else "struct", meta_shape(an, f.fields)))
        elif isinstance(f.type, an.AnonymousStructDecl):
            out.append((f.name, "union" if isinstance(f.type, an.AnonymousUnionDecl) else "struct",
                        meta_shape(an, f.type.fields)))
        else:
            out.append((f.name, "leaf", None))
    return out


def hdr_shape(fields):
    out = []
    for f in fields:
        if f.sub is not None:
            out.append((f.name, f.tag, hdr_shape(f.sub)))
        else:
            out.append((f.name, "leaf", None))
    return out


def hdr_leaves(fields, prefix=""):
    for f in fields:
        p = prefix + f.name if f.name else prefix.rstrip(".")
        if f.sub is not None:
            yield from hdr_leaves(f.sub, (p + ".") if f.name else prefix)
        else:
            yield p, f.qual


def meta_leaves(an, fields, prefix="", in_union=False):
    """Yield Leaf for every named leaf member; `prev` = path of the previous sibling *member start* (for order)."""
    prev = None
    first = None
    for f in fields:
        if isinstance(f, an.AnonymousStructDecl):
            sub = list(meta_leaves(an, f.fields, prefix, isinstance(f, an.AnonymousUnionDecl)))
            start = sub[0].path if sub else None
            if sub:
                # the first leaf of the nested record stands for the start of this member
                sub[0].prev, sub[0].in_union, sub[0].first = prev, in_union, first
            yield from sub
            # an unnamed member has no name to take sizeof of: order of the following member is checked
            # against its last leaf (struct) / first leaf (union)
            if sub:
                prev = (sub[0].path if isinstance(f, an.AnonymousUnionDecl) else sub[-1].path)
                first = first or start
        elif isinstance(f.type, an.AnonymousStructDecl):
            path = prefix + f.name
            sub = list(meta_leaves(an, f.type.fields, path + ".", isinstance(f.type, an.AnonymousUnionDecl)))
            if sub:
                sub[0].prev, sub[0].in_union, sub[0].first = prev, in_union, first
            yield from sub
            prev = path
            first = first or path
        else:
            path = prefix + f.name
            yield Leaf(path, f, prev, in_union, first)
            prev = path
            first = first or path


def replica_body(an, fields):
    parts = []
    for f in fields:
        if isinstance(f, an.AnonymousStructDecl):
            kw = "union" if isinstance(f, an.AnonymousUnionDecl) else "struct"
            parts.append("%s { %s };" % (kw, replica_body(an, f.fields)))
        elif isinstance(f.type, an.AnonymousStructDecl):
            kw = "union" if isinstance(f.type, an.AnonymousUnionDecl) else "struct"
            parts.append("%s { %s } %s;" % (kw, replica_body(an, f.type.fields), f.name))
        else:
            parts.append(f.type.decl(f.name) + ";")
    return " ".join(parts)


def is_nonscalar(an, t, struct_names):
    return isinstance(t, (an.PointerType, an.ArrayType)) or (
        isinstance(t, an.ValueType) and (t.name in struct_names or "(" in t.name or t.name.startswith("struct ")))


# ------------------------------------------------------------------------------------------------ type grammar
MAXD = 3


def grammar_axes(thorough):
    bases = ["int", "char", "double", "void", "mjtNum", "mjModel", "unsigned int", "struct mjData_"]
    if thorough:
        bases += ["float", "mjtByte", "mjtSize", "size_t", "unsigned char", "long long", "unsigned long long int",
                  "mjvScene", "uint64_t", "mjtBool"]
    bq = [(), ("const",), ("volatile",), ("const", "volatile")]
    pq = [(), ("const",), ("volatile",), ("restrict",)]
    if thorough:
        pq += [("const", "volatile"), ("const", "restrict")]
    exts = [(), (2,), (3,), (2, 3), (3, 2), (7, 7)]
    if thorough:
        exts += [(1,), (100,), (1, 5), (1000, 2)]
    return bases, bq, pq, exts


def _pstr(chain, style):
    """Pointer chain, innermost first.  style 0 = clang ('*const *'), style 1 = header-like ('* const*')."""
    out = ""
    for q in chain:
        qs = " ".join(q)
        if style == 0:
            out += "*" + (qs + " " if qs else "")
        else:
            out += "*" + (" " + qs if qs else "")
    return out.strip()


def _estr(e):
    return "".join("[%d]" % n for n in e)


def grammar(an, base, q, pq, exts):
    """Yield (string, AST the string denotes) for one (base type, cv-qualifier set): the whole bounded grammar."""
    v = an.ValueType(base, is_const="const" in q, is_volatile="volatile" in q)

    def wrap(t, chain):
        for c in chain:
            t = an.PointerType(t, is_const="const" in c, is_volatile="volatile" in c, is_restrict="restrict" in c)
        return t

    # qualifier placement variants: prefix "const T", postfix "T const", swapped "volatile const T"
    heads = [" ".join(q + (base,))]
    if q:
        heads.append(" ".join((base,) + q))
    if len(q) == 2:
        heads.append(" ".join((q[1], q[0], base)))
    chains = [c for d in range(MAXD + 1) for c in itertools.product(pq, repeat=d)]
    for hi, head in enumerate(heads):
        # form A: base ptrs extents  (plain / pointer / array / array of pointers)
        for chain in chains:
            for e in exts:
                if base == "void" and not chain and e:
                    continue          # array of void is not C
                t = wrap(v, chain)
                if e:
                    t = an.ArrayType(t, e)
                for style in ((0, 1) if (chain and not hi) else (0,)):
                    p = _pstr(chain, style)
                    if style == 0:
                        s = head + (" " + p if p else "") + (" " + _estr(e) if e else "")
                    else:
                        s = head + p + (" " + _estr(e) if e else "")
                    yield s.strip(), t
        if hi:
            continue
        # form B: base P1 (P2) extents : pointer(s) to array;  form C: base P1 (P2 [a])[b] : array of pointers to array
        for d1 in range(0, MAXD):
            for c1 in itertools.product(pq, repeat=d1):
                if base == "void" and not c1:
                    continue
                inner = wrap(v, c1)
                p1 = _pstr(c1, 0)
                lead = head + " " + (p1 + ("" if p1.endswith("*") else " ") if p1 else "")
                for d2 in range(1, MAXD - d1 + 1):
                    for c2 in itertools.product(pq, repeat=d2):
                        p2 = _pstr(c2, 0)
                        for e in exts:
                            if not e:
                                continue
                            yield "%s(%s)%s" % (lead, p2, _estr(e)), wrap(an.ArrayType(inner, e), c2)
                            if len(e) == 2:
                                tc = an.ArrayType(wrap(an.ArrayType(inner, e[1:]), c2), e[:1])
                                yield "%s(%s%s[%d])[%d]" % (lead, p2, "" if p2.endswith("*") else " ", e[0], e[1]), tc


def type_checks(an, tp, sink, entries, tag, defs):
    """entries: iterable of (string, expected AST or None, origin).  Python-side comparisons are decided here, the
    compiler-side ones are compiled in TUs of <= 4000 items.  `sink` is a Ctx or a Part.  Returns #strings."""
    items = []
    n = 0

    state = {"nviol": 0}

    def viol(key, what, replay):
        state["nviol"] += 1
        sink.violation(key, what, replay)

    def flush():
        if not items:
            return
        # isolate at most a handful of failures per TU once many have been confirmed (mass failure = one root cause)
        cap = 12 if state["nviol"] < 24 else 0
        _, out = compile_items(("%s_%d" % (tag, n), defs, [(x[0], None) for x in items], {}, cap))
        if out:
            # the original strings of all failing items must be valid C, else this check's generator is wrong
            p = _write("orig", PRELUDE + "\n".join(items[i][3]["orig_line"] % i for i in sorted(out)) + "\n")
            rc, _e, raw = _clang(p, defs)
            os.unlink(p)
            if rc != 0:
                raise H.HarnessError("a generated type string is not valid C: %s" % raw[-600:])
        for i, diag in sorted(out.items()):
            code, key, what, replay = items[i]
            r = dict(replay)
            r.update(clang=diag, assertion=code[-500:])
            viol(key, "%s [clang: %s]" % (what, diag[:200]), r)
        del items[:]

    for s, expected, origin in entries:
        n += 1
        key = "parse_type %r" % s
        try:
            t = tp.parse_type(s)
        except Exception as e:  # noqa: BLE001 -- any exception on a valid C type is a failure of parse_type
            viol(key + ": raises", "parse_type(%r) raises %s: %s (%s)" % (s, type(e).__name__, e, origin), {"type": s})
            continue
        if expected is not None and t != expected:
            viol(key + ": wrong AST", "parse_type(%r) = %r, the string denotes %r" % (s, t, expected),
                           {"type": s, "got": repr(t), "expected": repr(expected)})
        printed = t.decl()
        try:
            t2 = tp.parse_type(printed)
        except Exception as e:  # noqa: BLE001
            t2 = "%s: %s" % (type(e).__name__, e)
        if t2 != t:
            viol(key + ": print/re-parse differs", "parse_type(%r).decl() = %r which re-parses to %r instead of %r"
                           % (s, printed, t2, t), {"type": s, "printed": printed})
        k = len(items)
        named = t.decl("c49n_%d" % k)
        code = ("typedef __typeof__(%s) c49o_%d; typedef %s; " % (s, k, named) +
                sassert("%s && %s" % (compat("c49n_%d" % k, "c49o_%d" % k), compat(printed, "c49o_%d" % k)), key))
        items.append((code, key + ": printed declaration not equivalent",
                      "parse_type(%r) prints as %r / %r, which clang does not accept as the same type as the original (%s)"
                      % (s, printed, t.decl("x"), origin),
                      {"type": s, "printed": printed, "orig_line": "typedef __typeof__(%s) c49o_%%d;" % s.replace("%", "%%")}))
        if len(items) >= 4000:
            flush()
    flush()
    return n


_G = {}     # set by run() before forking: declared strings, axes


def _grammar_chunk(chunk):
    part = core.Part()
    an, tp = it.load("ast_nodes"), it.load("type_parsing")
    for base, q in chunk:
        seen = set()

        def entries():
            for s, exp in grammar(an, base, q, _G["pq"], _G["exts"]):
                if s in _G["declared"] or s in seen:
                    continue
                seen.add(s)
                nontriv = not isinstance(exp, an.ValueType) or exp.is_const or exp.is_volatile
                part["evaluations"] += 3          # expected AST, print/re-parse, compiler equivalence
                part["nontrivial_count"] += 1 if nontriv else 0
                if len(seen) in (1500, 3100) and base in ("mjtNum", "char"):
                    part.count(0, sample={"type": s, "printed_declaration": exp.decl("x")})
                yield s, exp, "type grammar"
        n = type_checks(an, tp, part, entries(), "gram_%s_%s" % (re.sub(r"\W", "_", base), "_".join(q) or "none"), ())
        part.add("grammar_strings", n)
    return part


# ------------------------------------------------------------------------------------------------ the check
def run(ctx):
    an = it.load("ast_nodes")
    tp = it.load("type_parsing")
    STRUCTS = it.load("structs").STRUCTS
    ENUMS = it.load("enums").ENUMS
    FUNCS = it.load("functions").FUNCTIONS
    hdr = H.load(build.REPO, _workdir())
    struct_names = set(STRUCTS) | set(hdr.struct_typedefs)
    V = ctx.violation
    jobs = []           # (tag, defs, lines, ctxs)
    replicas = {}       # replica struct name -> its definition (context line of the layout / offset assertions)
    index = {}          # tag -> [(key, what-prefix, replay)]

    def add_job(tag, items):
        """items: list of (code, key, what, replay); split into TUs of <= 1500 items, one set per configuration."""
        n = 0
        for k in range(0, len(items), 1500):
            part = items[k:k + 1500]
            for cname, defs in CONFIGS:
                t = "%s%d_%s" % (tag, n, cname)
                jobs.append((t, defs, [(x[0], x[3].get("needs_replica")) for x in part], replicas))
                index[t] = (cname, part)
            n += 1

    # ---------------------------------------------------------------- structs
    s_items = []
    nfields = 0
    for name, sd in STRUCTS.items():
        ctx.count(1)
        if sd.name != name:
            V("struct %s: name mismatch" % name, "STRUCTS[%r].name is %r" % (name, sd.name), {"struct": name})
        declname = hdr.struct_typedefs.get(name)
        if declname is None:
            V("struct %s: not in header" % name,
              "metadata describes struct %r but no header reachable from mujoco/mujoco.h declares such a struct typedef"
              % name, {"struct": name})
            continue
        s_items.append((sassert("__builtin_types_compatible_p(%s, %s)" % (name, sd.declname), "struct %s declname" % name),
                        "struct %s: typedef/declname mismatch" % name,
                        "metadata says typedef %s is %r, header says %r" % (name, sd.declname, declname),
                        {"struct": name, "metadata_declname": sd.declname, "header": declname}))
        rec = hdr.records.get(declname)
        if rec is None:
            if sd.fields:
                V("struct %s: not defined in header" % name, "metadata lists %d fields for opaque %s"
                  % (len(sd.fields), declname), {"struct": name})
            continue
        # reverse direction / order: shape of the field tree
        ms, hs = meta_shape(an, sd.fields), hdr_shape(rec)
        ctx.count(1)
        if ms != hs:
            hl = [p for p, _ in hdr_leaves(rec)]
            ml = [l.path for l in meta_leaves(an, sd.fields)]
            for p in hl:
                if p not in ml:
                    V("struct %s field %s: missing from metadata" % (name, p),
                      "header %s declares field %r (type %r) which structs.py does not list; fix: add "
                      "StructFieldDecl(name=%r, type=parse_type(%r)) at header position %d"
                      % (declname, p, dict(hdr_leaves(rec))[p], p.split(".")[-1], dict(hdr_leaves(rec))[p], hl.index(p)),
                      {"struct": name, "field": p})
            for p in ml:
                if p not in hl:
                    V("struct %s field %s: not in header" % (name, p),
                      "structs.py lists field %r of %s which the header does not declare" % (p, name),
                      {"struct": name, "field": p})
            if sorted(hl) == sorted(ml) and hl != ml:
                k = next(i for i in range(len(hl)) if hl[i] != ml[i])
                V("struct %s: field order differs" % name,
                  "first difference at position %d: header has %r, metadata has %r" % (k, hl[k], ml[k]),
                  {"struct": name, "position": k, "header": hl[k], "metadata": ml[k]})
            elif hl == ml:
                V("struct %s: nesting differs" % name, "same leaf fields but different struct/union nesting: header %r "
                  "metadata %r" % (hs, ms), {"struct": name})
        if any(f.bitfield for f in rec):
            raise H.HarnessError("bit-field in %s: offsetof oracle not applicable" % declname)
        hq = dict(hdr_leaves(rec))
        # replica struct declared from the metadata: same size/alignment, same offset for every field
        rname = "c49r_" + name
        replicas[rname] = "struct %s { %s };" % (rname, replica_body(an, sd.fields))
        s_items.append((sassert("sizeof(struct %s) == sizeof(%s) && _Alignof(struct %s) == _Alignof(%s)"
                                % (rname, name, rname, name), "struct %s layout" % name),
                        "struct %s: layout (size) mismatch" % name,
                        "a struct declared from the metadata fields of %s does not have the size/alignment of the header's "
                        "struct (missing, extra or differently typed member)" % name,
                        {"struct": name, "replica": True, "needs_replica": rname}))
        for lf in meta_leaves(an, sd.fields):
            nfields += 1
            f = lf.field
            mdecl = f.type.decl()
            nontriv = is_nonscalar(an, f.type, struct_names)
            ctx.count(0, key=("field", name, lf.path) if nontriv else None,
                      sample={"struct": name, "field": lf.path, "metadata_type": mdecl, "header_type": hq.get(lf.path)}
                      if (name, lf.path) in (("mjContact", "frame"), ("mjvScene", "geoms")) else None)
            acc = "((%s *)0)->%s" % (name, lf.path)
            s_items.append((sassert(compat(acc, mdecl), "field %s.%s type" % (name, lf.path)),
                            "struct %s field %s: type mismatch" % (name, lf.path),
                            "header declares %s.%s as %r, structs.py says %r; fix: type=parse_type(%r)"
                            % (name, lf.path, hq.get(lf.path), mdecl, hq.get(lf.path)),
                            {"struct": name, "field": lf.path, "metadata": mdecl, "header": hq.get(lf.path)}))
            s_items.append((sassert("offsetof(%s, %s) == offsetof(struct %s, %s)" % (name, lf.path, rname, lf.path),
                                    "field %s.%s offset" % (name, lf.path)),
                            "struct %s field %s: offset mismatch" % (name, lf.path),
                            "offset of %s.%s in the header differs from its offset in a struct declared from the metadata "
                            "(order / preceding member types differ)" % (name, lf.path),
                            {"struct": name, "field": lf.path, "needs_replica": rname}))
            if lf.prev is not None:
                if lf.in_union:
                    cond = "offsetof(%s, %s) == offsetof(%s, %s)" % (name, lf.path, name, lf.first)
                else:
                    cond = "offsetof(%s, %s) >= offsetof(%s, %s) + sizeof(((%s *)0)->%s)" % (
                        name, lf.path, name, lf.prev, name, lf.prev)
                s_items.append((sassert(cond, "field %s.%s order" % (name, lf.path)),
                                "struct %s field %s: order mismatch" % (name, lf.path),
                                "%s.%s does not start after the end of the member the metadata lists before it (%s)"
                                % (name, lf.path, lf.prev), {"struct": name, "field": lf.path, "prev": lf.prev}))
    for tname, q in hdr.struct_typedefs.items():
        ctx.count(1)
        if tname not in STRUCTS and tname not in EXCLUDED_STRUCTS:
            V("struct %s: missing from metadata" % tname,
              "header declares typedef %s %s but structs.py has no entry (not in the generator's exclusion list)"
              % (q, tname), {"struct": tname})
    add_job("structs", s_items)

    # ---------------------------------------------------------------- xmacro extents
    for sname in ("mjModel", "mjData"):
        xm = hdr.xmacro[sname]
        sd = STRUCTS.get(sname)
        if sd is None:
            continue
        mf = {f.name: f for f in sd.fields if isinstance(f, an.StructFieldDecl)}
        for fname, (typ, nr, nc) in xm.items():
            ctx.count(1, key=("extent", sname, fname))
            f = mf.get(fname)
            if f is None:
                V("struct %s field %s: missing from metadata" % (sname, fname),
                  "mjxmacro.h lists X(%s, %s, %s, %s) but structs.py has no such field" % (typ, fname, nr, nc),
                  {"struct": sname, "field": fname})
                continue
            exp = (nr,) if nc == "1" else (nr, int(nc) if nc.isdigit() else nc)
            got = f.array_extent
            gotn = None if got is None else tuple(re.sub(r"\s+", "", x) if isinstance(x, str) else x for x in got)
            if gotn != exp:
                V("struct %s field %s: array_extent mismatch" % (sname, fname),
                  "mjxmacro.h says %s is (%s x %s), structs.py array_extent=%r; fix: array_extent=%r"
                  % (fname, nr, nc, got, exp), {"struct": sname, "field": fname, "header": [nr, nc], "metadata": got})
        for fname, f in mf.items():
            if f.array_extent is not None:
                ctx.count(1)
                if fname not in xm:
                    V("struct %s field %s: array_extent without X-macro" % (sname, fname),
                      "structs.py gives array_extent=%r but mjxmacro.h has no pointer entry for it" % (f.array_extent,),
                      {"struct": sname, "field": fname})

    # ---------------------------------------------------------------- enums
    e_items = []
    for name, ed in ENUMS.items():
        ctx.count(1)
        declname = hdr.enum_typedefs.get(name)
        if declname is None:
            V("enum %s: not in header" % name, "enums.py describes %r, no such enum typedef in the headers" % name,
              {"enum": name})
            continue
        if ed.name != name:
            V("enum %s: name mismatch" % name, "ENUMS[%r].name is %r" % (name, ed.name), {"enum": name})
        e_items.append((sassert("__builtin_types_compatible_p(%s, %s)" % (name, ed.declname), "enum %s declname" % name),
                        "enum %s: typedef/declname mismatch" % name,
                        "metadata says typedef %s is %r, header says %r" % (name, ed.declname, declname),
                        {"enum": name, "metadata_declname": ed.declname, "header": declname}))
        hc = hdr.enums.get(declname, [])
        mc = list(ed.values)
        ctx.count(1)
        if hc != mc:
            for c in hc:
                if c not in mc:
                    V("enum %s constant %s: missing from metadata" % (name, c),
                      "header %s declares %s, enums.py does not list it (position %d)" % (declname, c, hc.index(c)),
                      {"enum": name, "constant": c})
            for c in mc:
                if c not in hc:
                    V("enum %s constant %s: not in header" % (name, c),
                      "enums.py lists %s in %s, the header enum has no such constant" % (c, name),
                      {"enum": name, "constant": c})
            if sorted(hc) == sorted(mc):
                V("enum %s: constant order differs" % name, "header order %r, metadata order %r" % (hc, mc), {"enum": name})
        prevv = -1
        for c, v in ed.values.items():
            explicit = (v != prevv + 1)
            prevv = v
            ctx.count(0, key=("enum", name, c) if explicit else None,
                      sample={"enum": name, "constant": c, "metadata_value": v} if explicit and c.endswith("_ALL") else None)
            e_items.append((sassert("(long long)(%s) == (%dLL)" % (c, v), "enum %s.%s" % (name, c)),
                            "enum %s constant %s: value mismatch" % (name, c),
                            "enums.py says %s = %d, the compiler evaluates the header's %s to a different value" % (c, v, c), {"enum": name, "constant": c, "metadata": v}))
    for tname, q in hdr.enum_typedefs.items():
        ctx.count(1)
        if tname not in ENUMS:
            V("enum %s: missing from metadata" % tname, "header declares typedef %s %s, enums.py has no entry" % (q, tname),
              {"enum": tname})
    for q in hdr.enums:
        if q not in hdr.enum_typedefs.values():
            ctx.count(1)
            V("enum %s: missing from metadata" % q, "header declares %s without typedef; not in enums.py" % q, {"enum": q})
    for consts in hdr.anon_enums:
        ctx.count(1)
        V("enum <unnamed> %s: missing from metadata" % consts[:1], "unnamed enum %r is not representable in enums.py"
          % (consts,), {"constants": consts})
    add_job("enums", e_items)

    # ---------------------------------------------------------------- functions
    f_items = []
    for name, fd in FUNCS.items():
        ctx.count(1)
        hf = hdr.functions.get(name)
        if hf is None:
            V("function %s: not in header" % name, "functions.py describes %s which no header declares" % name,
              {"function": name})
            continue
        if fd.name != name:
            V("function %s: name mismatch" % name, "FUNCTIONS[%r].name is %r" % (name, fd.name), {"function": name})
        mp = [p.name for p in fd.parameters]
        hp = [p[0] for p in hf["params"]]
        ctx.count(1)
        if mp != hp:
            V("function %s: parameter names/count differ" % name,
              "header %s:%s declares parameters %r, functions.py lists %r" % (hf["file"], hf["line"], hp, mp),
              {"function": name, "header": hp, "metadata": mp})
        variadic = hf["variadic"]
        if variadic and name not in DOCUMENTED_VARIADIC:
            V("function %s: variadic not representable" % name,
              "header declares %s as variadic (%s); FunctionDecl cannot express '...' and %s is not among the documented "
              "variadic functions %r" % (name, hf["qual"], name, DOCUMENTED_VARIADIC), {"function": name})
        tail = ", ..." if variadic else ""
        params = ", ".join(p.type.decl(p.name) for p in fd.parameters) or "void"
        sig = "%s (%s%s)" % (fd.return_type.decl(), params, tail)
        nontriv = any(is_nonscalar(an, p.type, ()) for p in fd.parameters) or is_nonscalar(an, fd.return_type, ())
        ctx.count(0, key=("fn", name) if nontriv else None,
                  sample={"function": name, "metadata_signature": sig, "header_type": hf["qual"]}
                  if name in ("mju_rotVecQuat", "mjs_addBody") else None)
        f_items.append((sassert("__builtin_types_compatible_p(__typeof__(%s), %s)" % (name, sig), "function %s" % name),
                        "function %s: signature mismatch" % name,
                        "header declares %s as %r, functions.py prints %r%s" % (
                            name, hf["qual"], sig, " (variadic tail added by the check, documented limitation)" if tail else ""),
                        {"function": name, "header": hf["qual"], "metadata": sig}))
        texts = [p[2] for p in hf["params"]]
        if all(t is not None for t in texts):
            hsig = "%s (%s%s)" % (fd.return_type.decl(), ", ".join(texts) or "void", tail)
            f_items.append((sassert("__builtin_types_compatible_p(__typeof__(%s), %s)" % (name, hsig), "function %s return" % name),
                            "function %s: return type mismatch" % name,
                            "header declares %s as %r, functions.py says it returns %r" % (name, hf["qual"], fd.return_type.decl()),
                            {"function": name, "header": hf["qual"], "metadata_return": fd.return_type.decl()}))
        else:
            ctx.extra["param_text_unavailable"] = ctx.extra.get("param_text_unavailable", 0) + 1
        for i, p in enumerate(fd.parameters):
            if i >= len(hf["params"]):
                break
            hname, hqual, htext = hf["params"][i]
            ref = htext if htext is not None else hqual
            md = p.type.decl()
            ctx.count(0, key=("param", name, i) if isinstance(p.type, an.ArrayType) else None)
            f_items.append((sassert(compat(ref, md), "function %s param %d" % (name, i)),
                            "function %s param %d %s: type mismatch" % (name, i, p.name),
                            "header declares parameter %d of %s as %r (%s), functions.py says %r; fix: type=parse_type(%r)"
                            % (i, name, ref, hname, md, ref),
                            {"function": name, "param": i, "header": ref, "metadata": md}))
    for fname, hf in hdr.functions.items():
        ctx.count(1)
        if fname not in FUNCS and fname not in EXCLUDED_FUNCTIONS:
            V("function %s: missing from metadata" % fname,
              "header %s:%s declares %s : %s; functions.py has no entry and it is not in the generator's exclusion list"
              % (hf["file"], hf["line"], fname, hf["qual"]), {"function": fname, "header": hf["qual"]})
    for x in EXCLUDED_FUNCTIONS:
        if x in FUNCS:
            ctx.extra["excluded_but_present"] = ctx.extra.get("excluded_but_present", 0) + 1
    add_job("functions", f_items)

    # ---------------------------------------------------------------- parse_type: declared strings, metadata nodes, grammar
    declared = {}
    excl_decl = {hdr.struct_typedefs.get(x) for x in EXCLUDED_STRUCTS}
    for q, rec in hdr.records.items():
        if q in excl_decl:
            continue
        for p, qual in hdr_leaves(rec):
            declared.setdefault(qual, "field %s.%s" % (q, p))
    for fname, hf in hdr.functions.items():
        if fname in EXCLUDED_FUNCTIONS:
            continue
        declared.setdefault(hf["qual"][:hf["qual"].find("(")].strip(), "return type of %s" % fname)
        for pn, pq_, pt in hf["params"]:
            declared.setdefault(pq_, "parameter %s of %s" % (pn, fname))
            if pt is not None:
                declared.setdefault(pt, "parameter %s of %s" % (pn, fname))
    ctx.extra["declared_type_strings"] = len(declared)

    def declared_entries():
        for s, origin in declared.items():
            ctx.count(2, key=("ty", s) if ("*" in s or "[" in s) else None)
            yield s, None, "declared in the headers: " + origin
    type_checks(an, tp, ctx, declared_entries(), "declared", ())

    # every type node stored in the metadata prints and re-parses to itself
    nodes = {}
    for sd in STRUCTS.values():
        for lf in meta_leaves(an, sd.fields):
            nodes.setdefault(lf.field.type.decl(), lf.field.type)
    for fd in FUNCS.values():
        nodes.setdefault(fd.return_type.decl(), fd.return_type)
        for p in fd.parameters:
            nodes.setdefault(p.type.decl(), p.type)
    ctx.extra["metadata_type_nodes"] = len(nodes)
    for s, node in nodes.items():
        ctx.count(1)
        try:
            back = tp.parse_type(s)
        except Exception as e:  # noqa: BLE001
            back = "%s: %s" % (type(e).__name__, e)
        if back != node:
            V("parse_type %r: metadata node does not round-trip" % s,
              "metadata type %r prints as %r which parses to %r" % (node, s, back), {"type": s})

    bases, bq, pq, exts = grammar_axes(ctx.thorough)
    _G.update(declared=set(declared), pq=pq, exts=exts)
    core.pmap(ctx, _grammar_chunk, [(b_, q_) for b_ in bases for q_ in bq], nchunks=len(bases) * len(bq))
    ng = ctx.extra.get("grammar_strings", 0)

    # ---------------------------------------------------------------- compile everything
    res = run_jobs(ctx, jobs)
    nassert = 0
    nprobe = 0
    for tag, (cname, part) in index.items():
        nassert += len(part)
        for i, diag in sorted(res.get(tag, {}).items()):
            code, key, what, replay = part[i]
            if diag.startswith("context does not compile") and not replay.get("replica"):
                continue    # the replica struct itself did not compile: reported once, at struct level
            r = dict(replay)
            r.update(config=cname, clang=diag, assertion=code[-400:])
            if "constant" in replay and nprobe < 24:
                nprobe += 1
                hv = eval_constant(replay["constant"], dict(CONFIGS)[cname])
                r["header"] = hv
                what += "; the header's value is %r -> fix: ('%s', %r)" % (hv, replay["constant"], hv)
            V(key, "%s [config %s; clang: %s]" % (what, cname, diag[:200]), r)
    ctx.count(nassert)
    ctx.extra.update(structs=len(STRUCTS), struct_fields=nfields, enums=len(ENUMS),
                     enum_constants=sum(len(e.values) for e in ENUMS.values()), functions=len(FUNCS),
                     function_parameters=sum(len(f.parameters) for f in FUNCS.values()),
                     compile_assertions=nassert, translation_units=len(jobs),
                     xmacro_pointer_fields=sum(len(v) for v in hdr.xmacro.values()),
                     headers_reached=len(hdr.reached),
                     header_extern_variables_not_in_scope=len(hdr.variables))
    unreached = sorted(f for f in os.listdir(os.path.join(build.REPO, "include", "mujoco"))
                       if f.endswith(".h") and f not in hdr.reached)
    ctx.extra["headers_without_declarations_or_unreached"] = ",".join(unreached)
    ctx.rule = (
        "every struct (%d) / leaf field (%d) / enum (%d) / constant (%d) / function (%d) / parameter (%d) of the tree's "
        "introspect metadata -> one compile-time assertion each for type, offset vs. a replica struct declared from the "
        "metadata, increasing offset, constant value, whole signature, return type, parameter type incl. array extent "
        "(pointer-wrapped __builtin_types_compatible_p, so top-level qualifiers and extents count), compiled for "
        "mjtNum=double and -DmjUSESINGLE; reverse: every struct typedef / field tree / enum constant list / function / "
        "parameter name that clang's AST of <mujoco/mujoco.h> shows in a file under include/mujoco must be in the metadata "
        "in the same order (documented exclusions: structs %s, function %s; the documented variadic functions %s are "
        "compared with ', ...' appended; extern variables and headers not reachable from mujoco.h (mjrfilament.h, "
        "experimental/) are outside the metadata's scope); array_extent of all %d mjModel/mjData pointer fields vs. "
        "mjxmacro.h; parse_type on all %d declared type strings + %d metadata type nodes + the whole grammar "
        "{%s bases} x cv(prefix/postfix) x pointer chains depth<=3 over {none,const,volatile,restrict%s} x extents "
        "(none, 1-D, 2-D with unequal sizes) in clang and header spacing, plus pointer-to-array and "
        "array-of-pointer-to-array forms (%d strings). non-trivial = field/parameter/return of pointer, array or struct "
        "type, array parameter, enum constant whose value is not predecessor+1, type string that is not a bare base type"
        % (len(STRUCTS), nfields, len(ENUMS), sum(len(e.values) for e in ENUMS.values()), len(FUNCS),
           sum(len(f.parameters) for f in FUNCS.values()), list(EXCLUDED_STRUCTS), list(EXCLUDED_FUNCTIONS),
           list(DOCUMENTED_VARIADIC), sum(len(v) for v in hdr.xmacro.values()), len(declared), len(nodes),
           len(bases), ctx.q("", ",const volatile,const restrict"), ng))
    ctx.assumptions = [
        "clang 14 C11 semantics for type compatibility, offsetof and enum constant evaluation on x86-64 Linux (LP64)",
        "the generator's input is <mujoco/mujoco.h>; a declaration belongs to the public surface iff clang locates it in "
        "a file directly under include/mujoco",
        "comments are not part of what the compiler sees: doc strings and 'Nullable:' annotations are not compared; a "
        "'nullable' token printed by PointerType.decl is defined away",
        "enum-typed vs int-typed declarations are distinguished only as far as C type compatibility does",
    ]
