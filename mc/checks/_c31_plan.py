"""C31 helpers: model compilation, MJB image, file layout (derived + self-checked), fault plans."""
from __future__ import annotations

import ctypes
import subprocess

import numpy as np

from mc import mj
from mc.checks import _c31_bounds as B
from mc.checks import _c31_models as M

INT_MAX = 2 ** 31 - 1
INT_MIN = -2 ** 31
NHEADER = 5
mjOBJ_MESH = 10


class HarnessError(Exception):
    pass


def offsets(exe):
    r = subprocess.run([exe, "offsets"], capture_output=True, text=True)
    if r.returncode:
        raise HarnessError("offsets: " + r.stderr[-300:])
    return {k: int(v) for k, v in (line.split() for line in r.stdout.splitlines())}


def _vfs(lib, files):
    vfs = ctypes.create_string_buffer(lib.c.vg_sizeof(b"mjVFS"))
    lib.mj_defaultVFS(vfs)
    for n, b in files.items():
        if lib.mj_addBufferVFS(vfs, n.encode(), b, len(b)) != 0:
            raise HarnessError("mj_addBufferVFS " + n)
    return vfs


def compile_kitchen(lib, offs):
    """KITCHEN with the octree of the sdf mesh limited to depth 2 (mjsMesh.octree_maxdepth is not exposed in MJCF;
    the default depth 6 gives an 8 MB image).  The field is poked through the offset printed by the driver."""
    vfs = _vfs(lib, M.KITCHEN_FILES)
    spec = lib.parse_xml(M.KITCHEN, vfs)
    el = lib.mjs_findElement(spec, mjOBJ_MESH, b"m1")
    mesh = lib.mjs_asMesh(el) if el else 0
    if not mesh:
        raise HarnessError("mesh m1 not found in spec")
    depth = ctypes.c_int.from_address(mesh + offs["mesh_octree_maxdepth"])
    if depth.value != 6:
        raise HarnessError("mjsMesh.octree_maxdepth self-check failed (found %d)" % depth.value)
    depth.value = 2
    m = lib.compile(spec, vfs)
    lib.mj_deleteSpec(spec)
    lib.mj_deleteVFS(vfs)
    return m


def models(lib, offs, want_small=True):
    out = [("kitchen", compile_kitchen(lib, offs))]
    if want_small:
        for name, xml in M.small_models():
            out.append((name, lib.load_xml(xml)))
    return out


def save(lib, m, cap=None, fill=0xA5):
    """mj_saveModel into a buffer of `cap` bytes pre-filled with `fill`; returns the whole buffer."""
    sz = int(lib.mj_sizeModel(m))
    cap = sz if cap is None else cap
    buf = np.full(cap, fill, dtype=np.uint8)
    lib.mj_saveModel(m, None, buf, cap)
    return buf


def field_info(lib, m, name):
    i, kind = m._f[name]
    f = mj.VgField()
    lib.c.vg_model_field(m.ptr, i, ctypes.byref(f))
    return f


class Layout:
    """File offsets of every serialized scalar / array, derived from mj_saveModel's documented order (header ints,
    MJMODEL_SIZES, mjOption, mjVisual, mjStatistic, two flag bytes, MJMODEL_POINTERS arrays without padding) through
    the compiler-generated reflection, and self-checked against the image."""

    def __init__(self, lib, m, offs, img):
        self.img = img
        self._adr = {}
        self.sizes = []      # (name, off, width, value)
        self.optints = []    # (name, off, width, value)
        self.arrays = []     # (name, off, elsize, count, ctype)
        off = NHEADER * 4
        for name in m.fields():
            if m._f[name][1] == 0:
                f = field_info(lib, m, name)
                self.sizes.append((name, off, f.elsize, int(getattr(m, name))))
                off += f.elsize
        self.off_opt = off
        base = m.ptr + offs["offsetof_opt"]
        for name in m.fields():
            if m._f[name][1] == 2:
                f = field_info(lib, m, name)
                if f.ctype.decode() == "int":
                    for k in range(int(f.nrow * f.ncol)):
                        o = self.off_opt + (f.ptr - base) + 4 * k
                        self.optints.append((name if f.nrow * f.ncol == 1 else "%s[%d]" % (name, k), o, 4,
                                             int(ctypes.c_int.from_address(f.ptr + 4 * k).value)))
        off += offs["sizeof_mjOption"]
        self.off_vis = off
        off += offs["sizeof_mjVisual"]
        self.off_stat = off
        off += offs["sizeof_mjStatistic"]
        self.off_flags = off
        off += 2
        self.off_arrays = off
        for name in m.fields():
            if m._f[name][1] == 1:
                f = field_info(lib, m, name)
                cnt = int(f.nrow * f.ncol)
                self.arrays.append((name, off, int(f.elsize), cnt, f.ctype.decode()))
                if cnt:
                    raw = ctypes.string_at(f.ptr, cnt * f.elsize)
                    if bytes(img[off:off + cnt * f.elsize]) != raw:
                        raise HarnessError("layout self-check: array %s is not at file offset %d" % (name, off))
                off += cnt * f.elsize
        self.total = off
        if off != len(img):
            raise HarnessError("layout self-check: derived size %d != image size %d" % (off, len(img)))
        for name, o, w, v in self.sizes + self.optints:
            got = int.from_bytes(bytes(img[o:o + w]), "little", signed=True)
            if got != v:
                raise HarnessError("layout self-check: %s at %d holds %d, model says %d" % (name, o, got, v))

    def value(self, name, k):
        if not self._adr:
            self._adr = {a[0]: a for a in self.arrays}
        _, off, elsize, cnt, ctype = self._adr[name]
        o = off + k * elsize
        return int.from_bytes(bytes(self.img[o:o + elsize]), "little", signed=True)

    def differential_check(self, lib, m, img):
        """Poke one element per int array / every size-after-construction / every option int in the live model,
        save again and require that exactly the predicted bytes change."""
        n = 0
        for name, off, elsize, cnt, ctype in self.arrays:
            if not cnt or ctype not in ("int", "mjtSize"):
                continue
            v = m.field(name).reshape(-1)
            k = cnt - 1
            old = int(v[k])
            v[k] = old ^ 0x5A5A
            img2 = save(lib, m)
            v[k] = old
            diff = np.nonzero(img2 != img)[0]
            lo, hi = off + k * elsize, off + (k + 1) * elsize
            if len(diff) == 0 or diff.min() < lo or diff.max() >= hi:
                raise HarnessError("differential layout check failed for %s[%d]" % (name, k))
            n += 1
        for name, off, w, val in self.optints:
            base = name.split("[")[0]
            v = m.field(base).reshape(-1)
            k = int(name.split("[")[1][:-1]) if "[" in name else 0
            old = int(v[k])
            v[k] = old ^ 0x55
            img2 = save(lib, m)
            v[k] = old
            diff = np.nonzero(img2 != img)[0]
            if len(diff) == 0 or diff.min() < off or diff.max() >= off + w:
                raise HarnessError("differential layout check failed for %s" % name)
            n += 1
        return n


# ------------------------------------------------------------------ fault plans
def _values32(orig, n):
    vals = [-2, -1, 0, 1, n, n + 1, INT_MAX, INT_MIN]
    out = []
    for v in vals:
        if INT_MIN <= v <= INT_MAX and v != orig and v not in out:
            out.append(v)
    return out


def _values64(orig, n):
    vals = [-1, 0, 1, n - 1, n + 1, INT_MAX, INT_MIN, 2 ** 32 + n, 2 ** 63 - 1, -2 ** 63]
    out = []
    for v in vals:
        if v != orig and v not in out:
            out.append(v)
    return out


def plan_identity():
    return ["identity I"]


def plan_truncation(size, lengths=None):
    return ["trunc T %d" % L for L in (range(size) if lengths is None else lengths)]


def plan_ints(lay, sizes_dict, header, max_elems_per_array=None):
    """every header int, every size, every option int, every element of every int / mjtSize array x hostile values.
    Returns (lines, stats)."""
    lines = []
    st = dict(header=0, size=0, opt=0, array=0, elements=0, capped_arrays=0)
    for k in range(NHEADER):
        for v in _values32(header[k], header[k]):
            lines.append("header[%d] P %d 4 %d" % (k, 4 * k, v))
            st["header"] += 1
    for name, off, w, val in lay.sizes:
        for v in _values64(val, val):
            lines.append("%s P %d %d %d" % (name, off, w, v))
            st["size"] += 1
    for name, off, w, val in lay.optints:
        for v in _values32(val, val):
            lines.append("%s P %d 4 %d" % (name.replace("[", "_").replace("]", ""), off, v))
            st["opt"] += 1
    for name, off, elsize, cnt, ctype in lay.arrays:
        if ctype not in ("int", "mjtSize") or cnt == 0:
            continue
        tn = B.target_n(name, sizes_dict)
        idx = range(cnt)
        if max_elems_per_array is not None and cnt > max_elems_per_array:
            # first / last elements and an even spread in between (cap stated by the caller)
            step = cnt / float(max_elems_per_array)
            idx = sorted(set([0, cnt - 1] + [int(i * step) for i in range(max_elems_per_array)]))
            st["capped_arrays"] += 1
        for k in idx:
            orig = lay.value(name, k)
            n = tn if tn is not None else orig
            vals = _values32(orig, n) if elsize == 4 else _values64(orig, n)
            for v in vals:
                lines.append("%s P %d %d %d" % (name, off + k * elsize, elsize, v))
                st["array"] += 1
            st["elements"] += 1
    return lines, st


def plan_size_pairs(lay):
    """all unordered pairs of size-block fields x {0, n+1}^2."""
    lines = []
    S = lay.sizes
    for i in range(len(S)):
        for j in range(i + 1, len(S)):
            a, b = S[i], S[j]
            for va in (0, a[3] + 1):
                for vb in (0, b[3] + 1):
                    if va == a[3] and vb == b[3]:
                        continue
                    lines.append("%s+%s P %d %d %d %d %d %d" % (a[0], b[0], a[1], a[2], va, b[1], b[2], vb))
    return lines


def plan_bytes(size):
    lines = []
    for off in range(size):
        lines.append("byte P %d 1 0" % off)
        lines.append("byte P %d 1 255" % off)
        lines.append("byte X %d 128" % off)
    return lines
