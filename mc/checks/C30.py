"""C30 Numerical blow-ups are contained.

Fault enumeration: every element of every user-writable input of mj_step (qpos, qvel, act, ctrl,
qfrc_applied, xfrc_applied, mocap_pos, mocap_quat, qacc_warmstart) x every value of a bad/edge value
alphabet x autoreset on/off x a model family (4 integrators x actuators none / stateful+limited /
with a disabled group x sleep off/on, mocap body welded to a free body, resting contact, joint limit) x
pre-state {initial, warmed-up with non-zero inputs and non-zero warning counters}.

Oracles (all decided per point, nothing sampled):
 R  differential against a documentation-derived reference of mj_step in which the three check stages,
    the predicate and the warning bookkeeping are Python (see _c30_model.Ref) -- bit-exact on mjData;
 S1 after the step qpos, qvel, act and time are finite (autoreset enabled);
 S3 if a BADQPOS/BADQVEL/BADQACC counter changed (autoreset enabled) mjData equals a fresh mjData stepped once
    (everything, including inputs), and the warning array is all-zero except the raised counter == 1;
 C  controls: BADCTRL is raised iff a control is bad after clamping to ctrlrange, d->ctrl is left alone, there is
    no reset and the step equals the step of the same data with all controls zero.
"""
import numpy as np

from .. import core, mj
from . import _c30_model as M

LEVEL = "fault_enumeration"
META = dict(
    category=LEVEL,
    technique="exhaustive fault injection: every element of every mj_step input array x bad-value alphabet x autoreset "
              "on/off x model family x pre-state; bit-exact differential against a documentation-derived reference of "
              "the check stages + finiteness / reset-state invariants",
    text="Every (model, pre-state, site element, value, autoreset) point is executed once through the tree-built mj_step "
         "and once through a reference pipeline whose checks (mj_checkPos/Vel/Acc, mju_isBad, warning counters, reset) "
         "are re-implemented in Python from the documentation; the two mjData are compared bit-exactly, and the "
         "statement's invariants (finite state, warning raised, data == reset state advanced by the step) are evaluated "
         "directly.  Exhaustive over the stated lattice, so a check that skips one element, one sign, one site or one "
         "option combination cannot hide.",
    note="Trusted: mj_forward / mj_resetData / integrators as building blocks of the reference (the property is about "
         "containment, not dynamics); ctypes reflection binding.  Not decided: models outside the family (flex, plugins, "
         "delays, user callbacks), multi-fault injections, mj_step1/mj_step2 split, histories longer than one step after "
         "the injection (a second step is only used to classify how a non-finite state is eventually contained). "
         "'counter increases' is read as the docs define the counters (cleared upon reset): == 1 after an automatic reset, "
         "> previous value without reset.",
    design_ref="DESIGN.md §3 C30")

# arena arrays of the unused (dense/sparse) layout hold stale bytes: compare buffer, scalars, vectors, solver stats
MASK_NOWARN = mj.CMP_ALL & ~mj.CMP_WARNING & ~mj.CMP_ARENA
BADSTATE = (M.W_BADQPOS, M.W_BADQVEL, M.W_BADQACC)

# one canonical key per root cause found on the unchanged tree (see final report / known findings)
K_SLEEP = "checkVel-skips-sleeping-dofs"
K_RK4 = "rk4-substage-unchecked"
K_ACT = "act-never-checked"
K_INTEG = "integrator-velocity-solve-unchecked"
K_LU = "implicit-LU-singular-mju_error"
WHY = {
    K_SLEEP: "mj_checkVel skips sleeping dofs: a bad qvel written into a sleeping tree is not flagged by the velocity check "
             "although the tree is woken later in the same mj_step",
    K_RK4: "RK4 sub-stages are unchecked: a non-finite acceleration that first appears in a Runge-Kutta sub-stage is "
           "integrated into qpos/qvel without warning or reset",
    K_INTEG: "the velocity update actually integrated (Euler implicit-damping solve / implicit integrators) is recomputed "
             "after mj_checkAcc from a separate factorisation and is not checked: an ill-conditioned legal state yields "
             "non-finite qpos/qvel after mj_step without warning",
    K_LU: "mju_factorLUSparse calls mju_error (fatal by default) when M - h*dqfrc/dqvel is numerically singular: a legal "
          "but ill-conditioned state aborts mj_step with the implicit integrator instead of being contained",
    K_ACT: "act is never checked: a non-finite activation that does not reach qacc at the checked stage (disabled group, "
           "force-limited actuator) stays in / spreads from act without warning",
}


def _nonfinite_fields(d):
    out = []
    for f in ("qpos", "qvel", "act"):
        a = np.asarray(getattr(d, f))
        if a.size and not np.isfinite(a).all():
            out.append(f)
    if not np.isfinite(d.time):
        out.append("time")
    return out


def _wnum(d):
    return np.array(d.warning["number"], dtype=np.int64), np.array(d.warning["lastinfo"], dtype=np.int64)


def _names(ws):
    return "+".join(M.WARN_NAMES[w] for w in ws) or "none"


def run_item(lib, part, ref, item, vals, sites_filter=None):
    ci, cfg, autoreset, pi, pre = item
    xml = M.model_xml(cfg, autoreset)
    m = lib.load_xml(xml)
    integ = cfg["integrator"]
    tag = M.config_tag(cfg)
    clamp = "clampctrl" not in cfg.get("flags", "")
    d_pre = lib.make_data(m)
    M.make_prestate(lib, m, d_pre, pre)
    d_e = lib.make_data(m)
    d_r = lib.make_data(m)
    d_z = lib.make_data(m)
    d_fs = lib.make_data(m)
    lib.mj_step(m, d_fs)                      # the reset state advanced by one step
    pre_num, _ = _wnum(d_pre)
    pre_time = d_pre.time
    asleep_dofs = set()
    if cfg["sleep"]:
        ta = np.asarray(d_pre.tree_asleep)
        asleep_dofs = {i for i in range(m.nv) if ta[m.dof_treeid[i]] >= 0}
        part.add("sleeping_dofs_in_prestate", len(asleep_dofs))
    elems = M.site_elements(d_pre)
    if sites_filter:
        elems = [e for e in elems if e[0] in sites_filter]
    part.add("models_x_prestates", 1)
    seen = set()

    cnt = {}

    def add(name, n=1):
        cnt[name] = cnt.get(name, 0) + n

    for ei, (site, idx) in enumerate(elems):
        for vi, (label, val, kind) in enumerate(vals):
            def mkreplay():
                return {"xml": xml, "config": tag, "autoreset": autoreset, "prestate": pre, "warm_steps": M.WARM_STEPS,
                        "site": site, "index": idx, "value": label, "rank": [int(not autoreset), pi, ci, vi, ei]}

            def mkpt():
                return "%s[%d]=%s %s autoreset=%d pre=%s" % (site, idx, label, tag, int(autoreset), pre)

            def viol(key, what):
                add("violating_points|" + key)
                if key not in seen:
                    seen.add(key)
                    part.violation(key, (WHY[key] + ": " if key in WHY else "") + what + " at " + mkpt(), mkreplay())

            add("points")
            add("points_autoreset_on" if autoreset else "points_autoreset_off")
            add("site_" + site)
            add("kind_" + kind)

            # ---------------- engine
            lib.mj_copyData(d_e, m, d_pre)
            M.inject(d_e, site, idx, val)
            try:
                lib.mj_step(m, d_e)
            except mj.MjError as e:
                if autoreset:
                    if integ == "implicit" and "diagonal element too small" in str(e) and kind == "legal":
                        viol(K_LU, "mj_step raised mju_error: %s" % e)
                    else:
                        viol("mju_error|site=%s|%s" % (site, integ), "mj_step raised mju_error: %s" % e)
                else:
                    add("mju_error_autoreset_off")
                    part["extra"]["mju_error_autoreset_off_example"] = "%s: %s" % (mkpt(), e)
                d_e.free()
                d_e = lib.make_data(m)
                part.count(1)
                continue
            num_e, info_e = _wnum(d_e)
            if autoreset and d_e.time < pre_time:
                # time went back: the data was reset; counters were cleared, only raised state counters are non-zero
                raised_e = [w for w in BADSTATE if num_e[w] != 0]
                reset_e = True
            else:
                raised_e = [w for w in range(M.W_BADQPOS, len(num_e)) if num_e[w] != pre_num[w]]
                reset_e = autoreset and pre == "initial" and any(w in BADSTATE for w in raised_e)

            # ---------------- reference
            lib.mj_copyData(d_r, m, d_pre)
            M.inject(d_r, site, idx, val)
            try:
                log = ref.step(m, d_r, integ, autoreset)
            except mj.MjError:
                add("reference_mju_error")
                d_r.free()
                d_r = lib.make_data(m)
                part.count(1)
                continue
            raised_r = [w for w, _ in log]
            num_r, info_r = _wnum(d_r)

            trig = bool(raised_e)
            part.count(1, sample=dict(mkreplay(), xml="<omitted>", engine_warnings=_names(raised_e))
                       if trig and idx == 1 and vi < 3 and len(part["samples"]) < 3 else None)
            if trig:
                part["nontrivial_count"] += 1
                for w in raised_e:
                    part.add("triggered_" + M.WARN_NAMES[w], 1)
            else:
                add("no_warning_points")

            sleepy = site == "qvel" and idx in asleep_dofs

            # ---------------- R: differential against the documented pipeline
            diff = lib.data_diff(m, d_e, d_r, MASK_NOWARN)
            agree = diff is None and [w for w in raised_e if w != M.W_BADCTRL] == raised_r
            if not agree:
                if sleepy and kind == "bad" and raised_r[:1] == [M.W_BADQVEL] and M.W_BADQVEL not in raised_e:
                    viol(K_SLEEP, "documented pipeline raises %s, engine raises %s (first differing field %s)"
                         % (_names(raised_r), _names(raised_e), diff))
                else:
                    viol("R|site=%s%s|documented=%s|engine=%s|autoreset=%d" % (
                        site, "(sleeping dof)" if sleepy else "", _names(raised_r), _names(raised_e), int(autoreset)),
                        "engine mj_step differs from the documented check pipeline (first differing field: %s); documented "
                        "warnings %s, engine warnings %s" % (diff, _names(raised_r), _names(raised_e)))
            else:
                # warning bookkeeping
                for w, info in log:
                    if info_e[w] != info:
                        viol("R|lastinfo|%s" % M.WARN_NAMES[w], "warning %s lastinfo=%d, documented index %d"
                             % (M.WARN_NAMES[w], info_e[w], info))
                if autoreset:
                    for w in range(len(num_e)):
                        if w != M.W_BADCTRL and num_e[w] != num_r[w]:
                            viol("R|counter|%s|autoreset=1" % M.WARN_NAMES[w],
                                 "warning counter %s = %d, documented %d" % (M.WARN_NAMES[w], num_e[w], num_r[w]))
                else:
                    for w in BADSTATE:
                        inc_e, inc_r = num_e[w] - pre_num[w], num_r[w] - pre_num[w]
                        if (inc_e > 0) != (inc_r > 0):
                            viol("R|counter|%s|autoreset=0" % M.WARN_NAMES[w],
                                 "warning counter %s changed by %d, documented %d" % (M.WARN_NAMES[w], inc_e, inc_r))
                        elif inc_e != inc_r:
                            part.add("observation_counter_increment_%d_instead_of_%d_autoreset_off" % (inc_e, inc_r), 1)

            # ---------------- S1: finite state
            if autoreset:
                nf = _nonfinite_fields(d_e)
                if nf:
                    add("nonfinite_after_step")
                    lib.mj_copyData(d_z, m, d_e)          # classify: contained by the next step?
                    try:
                        lib.mj_step(m, d_z)
                        nf2 = _nonfinite_fields(d_z)
                    except mj.MjError:
                        nf2 = ["mju_error"]
                    what = ("state not finite after mj_step (%s); engine warnings %s; after one more step: %s"
                            % ("+".join(nf), _names(raised_e), "+".join(nf2) or "finite"))
                    if sleepy and kind == "bad" and not raised_e:
                        viol(K_SLEEP, what)
                    elif site == "act" and "act" in nf and agree and not raised_e:
                        viol(K_ACT, what)
                    elif integ == "RK4" and agree and not raised_e and not nf2:
                        viol(K_RK4, what)
                    elif agree and not raised_e and not nf2 and site != "act":
                        viol(K_INTEG, what)
                    else:
                        viol("S1|nonfinite %s|site=%s|%s|engine=%s|%s" % (
                            "+".join(nf), site, integ, _names(raised_e), "persists" if nf2 else "contained by next step"), what)

            # ---------------- S3: reset state
            if reset_e:
                diff = lib.data_diff(m, d_e, d_fs, MASK_NOWARN)
                if diff is not None:
                    viol("S3|not reset|%s|%s" % (_names(raised_e), diff),
                         "after %s with autoreset the data differs from a fresh mjData stepped once in field %s"
                         % (_names(raised_e), diff))
                exp = np.zeros_like(num_e)
                if raised_e:
                    exp[raised_e[0]] = 1
                if len(raised_e) != 1 or (num_e != exp).any():
                    viol("S3|counters|%s" % _names(raised_e),
                         "after a reset the warning counters are %s, expected all zero except one raised counter == 1"
                         % (num_e.tolist(),))

            # ---------------- C: controls
            if site == "ctrl":
                lib.mj_copyData(d_z, m, d_pre)
                M.inject(d_z, site, idx, val)
                cb = ref.ctrl_bad(m, d_z.ctrl, clamp)
                inc = num_e[M.W_BADCTRL] - pre_num[M.W_BADCTRL]
                if cb is None:
                    add("ctrl_legal_or_clamped")
                    if inc > 0:
                        viol("C|spurious BADCTRL", "BADCTRL raised for a control that is legal after clamping")
                else:
                    add("ctrl_bad")
                    if inc <= 0 or reset_e:
                        viol("C|bad ctrl not flagged|engine=%s" % _names(raised_e),
                             "bad control: BADCTRL changed by %d, engine warnings %s" % (inc, _names(raised_e)))
                    elif info_e[M.W_BADCTRL] != cb:
                        viol("C|lastinfo", "BADCTRL lastinfo=%d, expected %d" % (info_e[M.W_BADCTRL], cb))
                    else:
                        bits_e = np.asarray(d_e.ctrl).view(np.uint64)
                        bits_z = np.asarray(d_z.ctrl).view(np.uint64)
                        if (bits_e != bits_z).any():
                            viol("C|ctrl modified", "d->ctrl was modified by mj_step")
                        d_z.ctrl[:] = 0
                        lib.mj_step(m, d_z)
                        d_z.ctrl[:] = d_e.ctrl
                        diff = lib.data_diff(m, d_e, d_z, MASK_NOWARN)
                        if diff is not None:
                            viol("C|bad ctrl not neutralised|%s" % diff,
                                 "step with a bad control differs from the step with all controls zero in %s" % diff)
    for k, v in cnt.items():
        part.add(k, v)
    for x in (d_pre, d_e, d_r, d_z, d_fs):
        x.free()
    m.free()


_VALS = None
_MAXVAL = None


def _chunk(chunk):
    lib = mj.load()
    part = core.Part()
    ref = M.Ref(lib, _MAXVAL)
    for item in chunk:
        run_item(lib, part, ref, item, _VALS)
    return part


class _Collector:
    """pmap sink: forwards counts to ctx, holds violations back so that the replay kept per key is the minimal one
    (rank order), independent of the seed-rotated dispatch order."""

    def __init__(self, ctx):
        self.ctx = ctx
        self.seed = ctx.seed
        self.viol = []

    def merge(self, part):
        self.viol += part.get("violations", [])
        part["violations"] = []
        self.ctx.merge(part)

    def violation(self, key, what, replay=None):
        self.ctx.violation(key, what, replay)

    def flush(self):
        self.viol.sort(key=lambda v: (v["key"], (v.get("replay") or {}).get("rank", [])))
        for v in self.viol:
            self.ctx.violation(v["key"], v["what"], v.get("replay"))


def _quick_selected(c, autoreset, pre):
    """quick tier: the warm pre-state with autoreset for every configuration; the initial pre-state where it differs in kind
    (sleeping tree still asleep, contacts about to become active inside RK4 sub-stages, no actuators); autoreset off for
    the stateful-actuator and sleeping configurations."""
    if autoreset and pre == "warm":
        return True
    if autoreset:
        return bool(c["sleep"]) or c["integrator"] == "RK4" or c["acts"] == "none"
    if pre == "warm":
        return c["acts"] == "std"
    return c["acts"] == "std" and c["integrator"] in ("Euler", "implicit")


def run(ctx):
    global _VALS, _MAXVAL
    lib = mj.load()
    _MAXVAL = M.documented_maxval()
    _VALS = M.values(_MAXVAL, ctx.thorough)
    # harness self-check: enum positions of the four warnings (text from the tree)
    for w, word in M.W_TEXT.items():
        txt = lib.cstr(lib.mju_warningText(w, 0)) or ""
        if word not in txt:
            raise RuntimeError("warning enum layout changed: %d -> %r" % (w, txt))
    cfgs = M.model_configs(ctx.thorough) + M.tree_configs(ctx.thorough)
    items = [(ci, c, ar, pi, pre) for ci, c in enumerate(cfgs) for ar in (True, False) for pi, pre in enumerate(M.PRESTATES)
             if (ctx.thorough and (c.get("kind") != "tree" or ar or pre == "warm")) or (not ctx.thorough and _quick_selected(c, ar, pre))]
    sink = _Collector(ctx)
    core.pmap(sink, _chunk, items, nchunks=len(items))
    sink.flush()
    ctx.extra["model_configs"] = len(cfgs)
    ctx.extra["items_config_x_autoreset_x_prestate"] = len(items)
    ctx.extra["items_of_full_product"] = len(cfgs) * 2 * len(M.PRESTATES)
    ctx.extra["values"] = [v[0] for v in _VALS]
    ctx.extra["mjMAXVAL_documented"] = _MAXVAL
    ctx.rule = ("points = model config (%d: %s) x autoreset{on,off} x pre-state{initial, warm(%d steps, non-zero inputs and "
                "counters)} (thorough: full product; quick: the %d of %d (config,autoreset,pre-state) triples picked by "
                "_quick_selected) x EVERY element of {%s} x %d values {%s}; each point = one engine mj_step + one reference step, all "
                "executed and counted. non-trivial = points where the injected value made a BADQPOS/BADQVEL/BADQACC/BADCTRL "
                "counter change in the engine"
                % (len(cfgs), "; ".join(M.config_tag(c) for c in cfgs if c.get("kind") != "tree")
                   + ("; + %d alphabet models: %s" % (sum(c.get("kind") == "tree" for c in cfgs),
                      "all forests <= 2 bodies x full joint menu x {4 integrators damped, Euler undamped} (autoreset off only from the warm "
                      "pre-state)" if ctx.thorough else "chain ball->slide+hinge, damped, Euler and implicit")), M.WARM_STEPS, len(items), len(cfgs) * 4,
                   ", ".join(M.SITES), len(_VALS),
                   ", ".join(v[0] for v in _VALS)))
    ctx.assumptions = [
        "reference check stages written from doc/programming/simulation.rst, doc/computation (stages 1, 24), APIreference "
        "(mju_isBad, mjMAXVAL=%g read from APIglobals.rst); mj_forward, mj_resetData and the integrators are used as trusted "
        "building blocks of the reference" % _MAXVAL,
        "with autoreset disabled only the warning clause is required (counter increases, documented index); the increment size is "
        "recorded as an observation",
        "single-fault injections, one step after the injection",
    ]
