"""Independent table of bounds relations between mjModel fields (C31 oracle).

Written from the comments in include/mujoco/mjmodel.h (struct mjModel), NOT from mj_validateReferences:
every *id must be an index of the array family it names, every (adr, num) pair must stay inside its
target array, `-1` is admitted only where the header documents it ("-1: none / no ... / not in use") or
where a compiled model shows it (marked `observed`, found by the self-check on the unmodified models).
Indices that are local to a sub-object (mesh faces, skin faces, bvh children, ...) get the loose global
bound of their target array: still a relation that a valid model always satisfies.

Rows are interpreted by native/drivers/c31_mjb.cc (grammar documented there).  The table is self-checked
on every unmodified model in every run: a row that fails on a valid model is a harness error, not a
violation.
"""
from __future__ import annotations

ROWS = []


def ID(field, lo, hi):
    ROWS.append(("ID", field, lo, hi))


def LT(field, lo, strict):
    ROWS.append(("LT", field, lo, int(strict)))


def ADR(field, lo, hi, num, mulfield=None, add=0):
    ROWS.append(("ADR", field, lo, hi, num) + ((mulfield, add) if mulfield else ()))


def WHEN(field, stride, col, cond, lo, hi):
    ROWS.append(("WHEN", field, stride, col, cond, lo, hi))


def OBJ(field, typefield, lo):
    ROWS.append(("OBJ", field, typefield, lo))


def SPECIAL(name):
    ROWS.append(("SPECIAL", name))


SPECIAL("arrays_in_buffer")

# ---- bodies
LT("body_parentid", 0, True)            # id of body's parent (a body's parent precedes it; world is its own parent)
LT("body_rootid", 0, False)             # ancestor that is direct child of world
LT("body_weldid", 0, False)             # top dof-less ancestor
ID("body_mocapid", -1, "nmocap")        # -1: none
ADR("body_jntadr", -1, "njnt", "body_jntnum")      # -1: no joints
ADR("body_dofadr", -1, "nv", "body_dofnum")        # -1: no dofs
ID("body_treeid", -1, "ntree")          # -1: static
ADR("body_geomadr", -1, "ngeom", "body_geomnum")   # -1: no geoms
ID("body_plugin", -1, "nplugin")        # -1: not in use
ADR("body_bvhadr", -1, "nbvh", "body_bvhnum")      # observed: -1 for bodies without bvh
# ---- bounding volume hierarchy / octree (children are local to the root address: loose global bound)
ID("bvh_child", -1, "nbvh")
ID("bvh_nodeid", -1, "max(ngeom,nflexelem,nmeshface)")   # geom or elem id of node; -1: non-leaf
ID("oct_child", -1, "noct")
# ---- joints
SPECIAL("jnt_qposadr")
SPECIAL("jnt_dofadr")
ID("jnt_bodyid", 0, "nbody")
ID("jnt_actuatorid", -1, "nactuator")   # observed: -1 = no actuator contributes
# ---- dofs
ID("dof_bodyid", 0, "nbody")
ID("dof_jntid", 0, "njnt")
LT("dof_parentid", -1, True)            # -1: none; a parent dof precedes the dof
ID("dof_treeid", 0, "ntree")
ID("dof_Madr", 0, "nM")
SPECIAL("dof_simplenum")
# ---- trees
ADR("tree_bodyadr", 0, "nbody", "tree_bodynum")
ADR("tree_dofadr", 0, "nv", "tree_dofnum")
# ---- geoms
ID("geom_bodyid", 0, "nbody")
WHEN("geom_dataid", 1, 0, "geom_type=mjGEOM_HFIELD", -1, "nhfield")
WHEN("geom_dataid", 1, 0, "geom_type=mjGEOM_MESH,mjGEOM_SDF", -1, "nmesh")
ID("geom_matid", -1, "nmat")
ID("geom_plugin", -1, "nplugin")
# ---- sites, cameras, lights
ID("site_bodyid", 0, "nbody")
ID("site_matid", -1, "nmat")
ID("cam_bodyid", 0, "nbody")
ID("cam_targetbodyid", -1, "nbody")
ID("light_bodyid", 0, "nbody")
ID("light_targetbodyid", -1, "nbody")
ID("light_texid", -1, "ntex")           # observed: -1 = no texture
# ---- flexes
ID("flex_matid", -1, "nmat")            # observed: -1 = none
ADR("flex_nodeadr", -1, "nflexnode", "flex_nodenum")        # observed: -1 when no nodes
ADR("flex_vertadr", 0, "nflexvert", "flex_vertnum")
ADR("flex_edgeadr", 0, "nflexedge", "flex_edgenum")
ADR("flex_elemadr", 0, "nflexelem", "flex_elemnum")
ADR("flex_elemdataadr", 0, "nflexelemdata", "flex_elemnum", "flex_dim", 1)   # dim+1 vertex ids per element
ADR("flex_shelldataadr", 0, "nflexshelldata", "flex_shellnum", "flex_dim", 0)  # dim vertex ids per fragment
ADR("flex_evpairadr", -1, "nflexevpair", "flex_evpairnum")   # observed: -1 when no pairs
ID("flex_texcoordadr", -1, "max(nflextexcoord,1)")      # -1: none
ID("flex_elemedgeadr", 0, "max(nflexelemedge,1)")
ID("flex_stiffnessadr", -1, "max(nflexstiffness,1)")
ID("flex_bendingadr", -1, "max(nflexbending,1)")
ID("flex_nodebodyid", 0, "nbody")
ID("flex_vertbodyid", -1, "nbody")      # observed: -1 for interpolated (node driven) vertices
ADR("flex_vertedgeadr", 0, "2*nflexedge", "flex_vertedgenum")
ID("flex_vertedge", 0, "max(nflexedge,nflexvert)")
ID("flex_edge", 0, "nflexvert")
ID("flex_edgeflap", -1, "nflexvert")
ID("flex_elem", 0, "nflexvert")
ID("flex_elemedge", 0, "nflexedge")
ID("flex_shell", 0, "nflexvert")
ID("flex_evpair", 0, "max(nflexelem,nflexvert)")
ID("efm0_dofid", 0, "nv")
ADR("efm0_L_rowadr", 0, "nefm0L", "efm0_L_rownnz")
ID("efm0_L_colind", 0, "nefm0dof")
ADR("flex_bvhadr", -1, "nbvh", "flex_bvhnum")          # -1: no bvh
ADR("flexedge_J_rowadr", 0, "nJfe", "flexedge_J_rownnz")
ID("flexedge_J_colind", 0, "nv")
ADR("flexvert_J_rowadr", 0, "2*nJfv", "flexvert_J_rownnz")
ID("flexvert_J_colind", 0, "nv")
# ---- meshes
ADR("mesh_vertadr", 0, "nmeshvert", "mesh_vertnum")
ADR("mesh_faceadr", 0, "nmeshface", "mesh_facenum")
ADR("mesh_bvhadr", -1, "nbvh", "mesh_bvhnum")           # observed: -1 = none
ADR("mesh_octadr", -1, "noct", "mesh_octnum")           # observed: -1 = none
ADR("mesh_normaladr", 0, "nmeshnormal", "mesh_normalnum")
ADR("mesh_texcoordadr", -1, "nmeshtexcoord", "mesh_texcoordnum")   # -1: no texcoord
ID("mesh_graphadr", -1, "nmeshgraph")                   # -1: no graph
ID("mesh_extrema", 0, "nmeshvert")
ID("mesh_face", 0, "nmeshvert")
ID("mesh_facenormal", 0, "nmeshnormal")
ID("mesh_facetexcoord", 0, "max(nmeshtexcoord,1)")
ID("mesh_pathadr", -1, "npaths")                        # -1: none
ADR("mesh_polyadr", 0, "nmeshpoly", "mesh_polynum")
ADR("mesh_polyvertadr", 0, "nmeshpolyvert", "mesh_polyvertnum")
ID("mesh_polyvert", 0, "nmeshvert")
ADR("mesh_polymapadr", 0, "nmeshpolymap", "mesh_polymapnum")
ID("mesh_polymap", 0, "nmeshpoly")
# ---- skins
ID("skin_matid", -1, "nmat")
ADR("skin_vertadr", 0, "nskinvert", "skin_vertnum")
ID("skin_texcoordadr", -1, "nskintexvert")              # -1: no texcoord
ADR("skin_faceadr", 0, "nskinface", "skin_facenum")
ADR("skin_boneadr", 0, "nskinbone", "skin_bonenum")
ID("skin_face", 0, "nskinvert")
ADR("skin_bonevertadr", 0, "nskinbonevert", "skin_bonevertnum")
ID("skin_bonebodyid", 0, "nbody")
ID("skin_bonevertid", 0, "nskinvert")
ID("skin_pathadr", -1, "npaths")
# ---- height fields, textures, materials
SPECIAL("hfield_adr")
ID("hfield_pathadr", -1, "npaths")
SPECIAL("tex_adr")
ID("tex_pathadr", -1, "npaths")
ID("mat_texid", -1, "ntex")
# ---- contact pairs / excludes
ID("pair_geom1", 0, "ngeom")
ID("pair_geom2", 0, "ngeom")
SPECIAL("pair_signature")
SPECIAL("exclude_signature")
# ---- equality constraints (object family depends on eq_type / eq_objtype)
for k, col in (("eq_obj1id", 0), ("eq_obj2id", -1)):
    WHEN(k, 1, 0, "eq_type=mjEQ_JOINT", 0 if k == "eq_obj1id" else -1, "njnt")
    WHEN(k, 1, 0, "eq_type=mjEQ_TENDON", 0 if k == "eq_obj1id" else -1, "ntendon")
    WHEN(k, 1, 0, "eq_type=mjEQ_CONNECT,mjEQ_WELD;eq_objtype=mjOBJ_BODY", 0, "nbody")
    WHEN(k, 1, 0, "eq_type=mjEQ_CONNECT,mjEQ_WELD;eq_objtype=mjOBJ_SITE", 0, "nsite")
WHEN("eq_obj1id", 1, 0, "eq_type=mjEQ_FLEX,mjEQ_FLEXVERT,mjEQ_FLEXSTRAIN", 0, "nflex")
# ---- tendons
ADR("tendon_adr", 0, "nwrap", "tendon_num")
ID("tendon_matid", -1, "nmat")          # observed: -1 = none
ID("tendon_actuatorid", -1, "nactuator")
ID("tendon_treeid", -1, "ntree")        # observed: -1 = unused slot
ADR("ten_J_rowadr", 0, "nJten", "ten_J_rownnz")
ID("ten_J_colind", 0, "nv")
WHEN("wrap_objid", 1, 0, "wrap_type=mjWRAP_JOINT", 0, "njnt")
WHEN("wrap_objid", 1, 0, "wrap_type=mjWRAP_SITE", 0, "nsite")
WHEN("wrap_objid", 1, 0, "wrap_type=mjWRAP_SPHERE,mjWRAP_CYLINDER", 0, "ngeom")
# ---- actuators
ADR("actuator_ctrladr", -1, "nu", "actuator_ctrlnum")   # observed: -1 when ctrlnum == 0
ADR("actuator_outadr", 0, "nout", "actuator_outnum")
ADR("actuator_actadr", -1, "na", "actuator_actnum")     # -1: stateless
WHEN("actuator_trnid", 2, 0, "actuator_trntype=mjTRN_JOINT,mjTRN_JOINTINPARENT", 0, "njnt")
WHEN("actuator_trnid", 2, 0, "actuator_trntype=mjTRN_TENDON", 0, "ntendon")
WHEN("actuator_trnid", 2, 0, "actuator_trntype=mjTRN_SITE,mjTRN_SLIDERCRANK", 0, "nsite")
WHEN("actuator_trnid", 2, 1, "actuator_trntype=mjTRN_SLIDERCRANK", 0, "nsite")
WHEN("actuator_trnid", 2, 1, "actuator_trntype=mjTRN_SITE", -1, "nsite")      # refsite; -1: none
WHEN("actuator_trnid", 2, 0, "actuator_trntype=mjTRN_BODY", 0, "nbody")
ID("actuator_historyadr", -1, "max(nhistory,1)")        # -1: none
ID("actuator_plugin", -1, "nplugin")                    # -1: not a plugin
# ---- sensors
OBJ("sensor_objid", "sensor_objtype", 0)
OBJ("sensor_refid", "sensor_reftype", -1)               # -1: global frame
SPECIAL("sensor_adr")
ID("sensor_historyadr", -1, "max(nhistory,1)")          # -1: none
ID("sensor_plugin", -1, "nplugin")                      # -1: not a plugin
# ---- plugins, custom fields
ADR("plugin_stateadr", 0, "npluginstate", "plugin_statenum")
ID("plugin_attradr", 0, "max(npluginattr,1)")
ADR("numeric_adr", 0, "nnumericdata", "numeric_size")
ADR("text_adr", 0, "ntextdata", "text_size")
ADR("tuple_adr", 0, "ntupledata", "tuple_size")
SPECIAL("tuple_objid")
# ---- names
for obj, n in (("body", "nbody"), ("jnt", "njnt"), ("geom", "ngeom"), ("site", "nsite"), ("cam", "ncam"),
               ("light", "nlight"), ("flex", "nflex"), ("mesh", "nmesh"), ("skin", "nskin"), ("hfield", "nhfield"),
               ("tex", "ntex"), ("mat", "nmat"), ("pair", "npair"), ("exclude", "nexclude"), ("eq", "neq"),
               ("tendon", "ntendon"), ("actuator", "nactuator"), ("sensor", "nsensor"), ("numeric", "nnumeric"),
               ("text", "ntext"), ("tuple", "ntuple"), ("key", "nkey"), ("plugin", "nplugin")):
    ID("name_%sadr" % obj, 0, "nnames")
ID("names_map", -1, "max(nbody,njnt,ngeom,nsite,ncam,nlight,nflex,nmesh,nskin,nhfield,ntex,nmat,npair,nexclude,neq,"
                    "ntendon,nactuator,nsensor,nnumeric,ntext,ntuple,nkey,nplugin)")
# ---- sparse structures
ADR("B_rowadr", 0, "nB", "B_rownnz")
ID("B_colind", 0, "nv")
ADR("M_rowadr", 0, "nC", "M_rownnz")
ID("M_colind", 0, "nv")
ID("mapM2M", 0, "nM")
ADR("D_rowadr", 0, "nD", "D_rownnz")
ID("D_diag", 0, "nD")
ID("D_colind", 0, "nv")
ID("mapM2D", -1, "nC")                  # observed / loose: index into M (nC); -1 tolerated
ID("mapD2M", 0, "nD")


def render() -> str:
    return "\n".join(" ".join(str(x) for x in r) for r in ROWS) + "\n"


def fields_with_rows():
    out = set()
    for r in ROWS:
        out.add(r[1])
    return out


def _eval(expr, sizes):
    expr = str(expr)
    if expr.startswith("max(") and expr.endswith(")"):
        return max(_eval(e, sizes) for e in expr[4:-1].split(","))
    if "*" in expr:
        a, b = expr.split("*", 1)
        return _eval(a, sizes) * _eval(b, sizes)
    try:
        return int(expr)
    except ValueError:
        return int(sizes[expr])


def target_n(field, sizes):
    """Size of the target array named by the first row of `field` (None if the field has no such row)."""
    for r in ROWS:
        if r[1] != field:
            continue
        if r[0] in ("ID", "ADR"):
            return _eval(r[3], sizes)
        if r[0] == "WHEN":
            return _eval(r[6], sizes)
    special = {"jnt_qposadr": "nq", "jnt_dofadr": "nv", "hfield_adr": "nhfielddata", "tex_adr": "ntexdata",
               "sensor_adr": "nsensordata", "dof_simplenum": "nv", "body_parentid": "nbody", "body_rootid": "nbody",
               "body_weldid": "nbody", "dof_parentid": "nv", "pair_signature": "nbody", "exclude_signature": "nbody"}
    if field in special:
        return int(sizes[special[field]])
    return None
