"""C15 Convex narrow-phase distances are correct and swap-symmetric (native GJK/EPA path).

Every pair that mjCOLLISIONFUNC routes to mjc_Convex out of {capsule, ellipsoid, cylinder, box, tetra-/octa-/icosahedron
mesh} (thorough: + sphere, 2 size sets, both file orders, all mesh choices), plus box-box through mj_geomDistance (which
uses the native pipeline for it), each in its own two-free-body model, on a relative pose lattice (5x5x5 positions scaled
to the sizes x rotations incl. 90/45 degree turns, generic and a 3 degree tilt; separated, touching, penetrating,
contained).  Observed: mj_geomDistance(g1,g2) and (g2,g1) with fromto, and the contacts of mj_collision for margin 0
and 0.05.  Reference: signed distance = max over unit directions of the support-function gap (see _c15_ref.py).
"""
import itertools
import math

import numpy as np

from .. import alphabet as A
from .. import core, mj
from ..mjutil import quat2mat, quat_mul
from . import _c15_ref as R
from ._c13_ref import K_EPADEG, K_EPAW, K_GJK0
from ._c16_ref import hull_faces

LEVEL = "exploration"
META = dict(
    category=LEVEL,
    technique="exhaustive relative-pose lattice per convex pair; reference = certified support-function bounds (global direction "
              "lattice + kink-aware maximisation), differential swap test",
    text="Every convex pair the engine sends to the native GJK/EPA collider is evaluated on a full product lattice of poses "
         "through the public entry points (mj_collision contacts with margin 0 / 0.05 and mj_geomDistance in both argument "
         "orders).  The oracle never runs GJK/EPA: it maximises the support gap g(n) over directions.  Two certified facts "
         "decide: g at the engine's own normal must equal the reported distance (so the report is achievable), and the report "
         "must not be below the certified lower bound found by the oracle.  Swap symmetry is compared directly.",
    note="libccd path (nativeccd disabled) is NOT decidable here: the sandbox has only an inert libccd stub, so that path "
         "always reports 'no collision'; the agreement native-vs-libccd clause is therefore not checked.  Meshes are inline "
         "convex meshes (tetra-, octa-, icosahedron; hull by the qhull double).  ccd_tolerance 1e-6, ccd_iterations 200; a "
         "failing pose is re-run with 5000 iterations and skipped (counted) if that alone cures it.",
    design_ref="DESIGN.md §3 C15")

S, C, E, Y, B, M = R.SPHERE, R.CAPSULE, R.ELLIPSOID, R.CYLINDER, R.BOX, R.MESH
CCD_TOL = 1e-6      # the documented default; EPA stops within it, GJK is ~1e-7 off at this setting (measured)
TOL_SMOOTH = 1e-4   # x (1+|d|): 100 x ccd_tolerance for pairs with a curved geom (observed max error 1.0e-6)
TOL_POLY = 1e-7     # x (1+|d|): box / mesh pairs converge finitely (observed max error 2e-15)
K_GJKTIGHT = ("mjc_ccd/GJK: for curved geoms a ccd_tolerance below the default 1e-6 makes the separation distance WORSE "
              "(under-estimated below the true distance, witness points leave the surfaces) instead of better")
TOL_W = 1e-4        # witness / pos off the surface (certified)
TOL_N = 1e-3        # swapped normals
MARGIN = 0.05
LEVELS = [-2.0, -1.0, 0.0, 0.87, 1.93]


def nq(q):
    q = np.array(q, float)
    return q / np.linalg.norm(q)


def axq(axis, deg):
    a = math.radians(deg) / 2
    v = np.array(axis, float)
    v = v / np.linalg.norm(v)
    return np.concatenate([[math.cos(a)], math.sin(a) * v])


ROTS = [
    ("id", np.array([1.0, 0, 0, 0])), ("x90", axq((1, 0, 0), 90)), ("y45", axq((0, 1, 0), 45)),
    ("generic", nq((0.8, 0.2, -0.4, 0.4))), ("tilt3", axq((1, 1, 0), 3)),
    ("y90", axq((0, 1, 0), 90)), ("z90", axq((0, 0, 1), 90)), ("x45", axq((1, 0, 0), 45)), ("z45", axq((0, 0, 1), 45)),
    ("x90z45", quat_mul(axq((1, 0, 0), 90), axq((0, 0, 1), 45))),
]
T1S = [("id", np.zeros(3), np.array([1.0, 0, 0, 0])), ("generic", np.array([0.3, -0.2, 0.4]), nq((0.7, -0.1, 0.5, 0.3)))]


def shapes():
    ico0 = A.icosphere(0, 0.15)
    ico1 = A.icosphere(1, 0.2)
    tet = np.array(A.TETRA)
    octa = np.array(A.OCTA)
    def big(t):     # size set 2: set 0 at metre scale (x12): centre distances > 1 length unit (scale-dependent early exits)
        return tuple(12.0 * x for x in t)
    return {
        "sphere": (S, [(0.1, 0, 0), (0.25, 0, 0), big((0.1, 0, 0))], None),
        "capsule": (C, [(0.06, 0.2, 0), (0.15, 0.05, 0), big((0.06, 0.2, 0))], None),
        "ellipsoid": (E, [(0.1, 0.15, 0.2), (0.25, 0.08, 0.12), big((0.1, 0.15, 0.2))], None),
        "cylinder": (Y, [(0.12, 0.18, 0), (0.25, 0.04, 0), big((0.12, 0.18, 0))], None),
        "box": (B, [(0.1, 0.15, 0.2), (0.3, 0.05, 0.12), big((0.1, 0.15, 0.2))], None),
        "tetra": (M, [(0, 0, 0)] * 3, (tet, hull_faces(tet))),
        "octa": (M, [(0, 0, 0)] * 3, (octa, hull_faces(octa))),
        "ico": (M, [(0, 0, 0)] * 3, ico0),
        "ico42": (M, [(0, 0, 0)] * 3, ico1),
    }


QUICK_PAIRS = [("capsule", "ellipsoid"), ("capsule", "cylinder"), ("capsule", "tetra"), ("ellipsoid", "ellipsoid"),
               ("ellipsoid", "cylinder"), ("ellipsoid", "box"), ("ellipsoid", "octa"), ("cylinder", "cylinder"),
               ("cylinder", "box"), ("cylinder", "ico"), ("box", "tetra"), ("box", "ico"), ("tetra", "octa"), ("ico", "ico"),
               ("box", "box")]
MESHES = ["tetra", "octa", "ico", "ico42"]
BIG_QUICK = [("capsule", "ellipsoid"), ("capsule", "cylinder"), ("ellipsoid", "box")]


def all_pairs():
    prim = ["capsule", "ellipsoid", "cylinder", "box"]
    out = [("sphere", "ellipsoid"), ("sphere", "octa"), ("sphere", "ico")]
    out += [("capsule", "ellipsoid"), ("capsule", "cylinder"), ("ellipsoid", "ellipsoid"), ("ellipsoid", "cylinder"),
            ("ellipsoid", "box"), ("cylinder", "cylinder"), ("cylinder", "box"), ("box", "box")]
    out += [(p, mname) for p in prim for mname in MESHES]
    out += [(a, b) for i, a in enumerate(MESHES) for b in MESHES[i:]]
    return out


def fmt(v):
    return " ".join("%.17g" % x for x in v)


def geom_xml(name, sh, si):
    t, sizes, mesh = sh
    if t == M:
        v, f = mesh
        return A.mesh_asset("mesh_" + name, v, f), 'type="mesh" mesh="mesh_%s"' % name
    tn = {S: "sphere", C: "capsule", E: "ellipsoid", Y: "cylinder", B: "box"}[t]
    n = {S: 1, C: 2, E: 3, Y: 2, B: 3}[t]
    return "", 'type="%s" size="%s"' % (tn, fmt(sizes[si][:n]))


def make_shape(sh, si):
    t, sizes, mesh = sh
    if t == M:
        v, f = mesh
        v = np.asarray(v, np.float32).astype(float)
        return R.Shape(M, (0, 0, 0), np.zeros(3), np.eye(3), v, np.asarray(f))
    return R.Shape(t, sizes[si], np.zeros(3), np.eye(3))


def ext(shape):
    if shape.t == M:
        return np.abs(shape.verts).max(axis=0)
    s = shape.size
    return {S: np.array([s[0]] * 3), C: np.array([s[0], s[0], s[0] + s[1]]), E: s[:3].copy(), Y: np.array([s[0], s[0], s[1]]),
            B: s[:3].copy()}[shape.t]


def unit(v):
    n = np.linalg.norm(v)
    return v / n if n > 0 else v


class DPart(core.Part):
    def violation(self, key, what, replay=None):
        self.add("violating_cases")
        if any(v["key"] == key for v in self["violations"]):
            return
        core.Part.violation(self, key, what, replay)


K_MULTI = ("mjc_ccd multicontact (box/mesh pairs, margin 0): the multi-contact stage (face/edge alignment within mjFACE_TOL/mjEDGE_TOL "
           "~5 deg, snapped face normal, per-vertex depths) changes the deepest contact dist / normal although the single-contact EPA "
           "answer for the same pose (mj_geomDistance) is right")


def face_snapped(g0, g1, nrm, nref):
    """contact normal is a face normal of one of the polytopes and within 6 degrees of the true optimal direction"""
    fn = np.concatenate([g0.face_normals(), g1.face_normals()])
    return bool(np.max(np.abs(fn @ nrm)) > 1 - 1e-6 and float(nrm @ nref) > math.cos(math.radians(6.0)))


def eval_pose(lib, m, d, SA, SB, ida, idb, ref, do_contacts):
    """Returns list of (key-class, message, kind) failures for the current pose."""
    lower, upper, nref, second = ref
    fails = []
    ft = np.zeros(6)
    ft2 = np.zeros(6)
    DM = 1.0
    d12 = lib.mj_geomDistance(m, d, ida, idb, DM, ft)
    d21 = lib.mj_geomDistance(m, d, idb, ida, DM, ft2)
    x1, x2 = ft[:3].copy(), ft[3:].copy()
    sep = np.linalg.norm(x2 - x1)
    # direction from geom1 to geom2 implied by the witness segment
    n12 = unit(x2 - x1) * (1.0 if d12 >= 0 else -1.0)
    n21 = unit(ft2[3:] - ft2[:3]) * (1.0 if d21 >= 0 else -1.0)
    g12 = float(R.gap(SA, SB, n12[None])[0]) if sep > 1e-12 else None
    dref = lower if g12 is None else max(lower, g12)      # both are certified lower bounds of the true signed distance
    tol = (TOL_POLY if (SA.polytope() and SB.polytope()) else TOL_SMOOTH) * (1 + abs(dref))
    info = {"d12": d12, "d21": d21, "reference_lower": lower, "gap_at_engine_normal": g12, "fromto": ft.tolist()}
    if dref < DM - 1e-3:
        if abs(d12 - d21) > tol:
            fails.append(("mj_geomDistance(g1,g2) != mj_geomDistance(g2,g1)", "d12=%.12g d21=%.12g ref=%.12g" % (d12, d21, dref), "dist"))
        if d12 < dref - tol:
            fails.append(("reported distance is below a certified lower bound (too small separation / too deep)",
                          "d12=%.12g certified lower bound=%.12g" % (d12, dref), "dist"))
        if g12 is not None and abs(g12 - d12) > tol and d12 > dref + tol:
            fails.append(("reported distance is not attained along the reported direction (too large separation / too shallow)",
                          "d12=%.12g but support gap along (x2-x1) is %.12g; reference=%.12g" % (d12, g12, lower), "dist"))
        if g12 is None and abs(d12 - dref) > tol:
            fails.append(("reported distance differs from the reference (no witness direction)", "d12=%.12g ref=%.12g" % (d12, dref), "dist"))
        if abs(d12 - dref) <= tol:
            if abs(sep - abs(d12)) > 10 * tol:
                fails.append(("|fromto| != |distance|", "|x2-x1|=%.12g d=%.12g" % (sep, d12), "witness"))
            if SA.off_surface(x1, TOL_W) or SB.off_surface(x2, TOL_W):
                fails.append(("fromto endpoints are not on the geoms' surfaces", "fromto=%s d=%.12g" % (ft, d12), "witness"))
            if np.abs(ft[:3] - ft2[3:]).max() > 1e-3 or np.abs(ft[3:] - ft2[:3]).max() > 1e-3:
                # witness pairs are not unique for parallel features; require at least a reversed direction
                g21 = float(R.gap(SA, SB, -n21[None])[0]) if np.linalg.norm(n21) > 0 else None
                if abs(d12 - d21) <= tol and abs(d12) > 1e-6 and g21 is not None and abs(g21 - d21) > 50 * tol:
                    fails.append(("swapped call: the reversed direction is not a direction of minimal separation/penetration",
                                  "n12=%s n21=%s gap(-n21)=%.12g d21=%.12g" % (n12, n21, g21, d21), "dist"))
    else:
        if abs(d12 - DM) > 1e-12 or abs(d21 - DM) > 1e-12:
            if d12 < dref - tol:
                fails.append(("distance beyond distmax is not clamped / too small", "d12=%.12g d21=%.12g ref>=%.12g" % (d12, d21, dref), "dist"))
    if not do_contacts:
        return fails, dref, info
    poly = SA.polytope() and SB.polytope()
    for margin in (0.0, MARGIN):
        m.geom_margin[:] = margin / 2
        if margin > 0:      # margin-inflated geoms are curved: EPA stops within ccd_tolerance
            tol = TOL_SMOOTH * (1 + abs(dref))
        lib.mj_collision(m, d)
        n = d.ncon
        con = d.contact[:n] if n else None
        tag = "margin=%g " % margin
        if abs(dref - margin) > 1e-5:
            expect = dref < margin
            if expect != (n > 0):
                fails.append((tag + ("contact missing although the signed distance is below the margin" if expect else
                                     "contact although the signed distance exceeds the margin"),
                              "ref=%.12g ncon=%d%s" % (dref, n, "" if not n else " dist=%s" % con["dist"].tolist()), "contact"))
        if n:
            shapes_ = {ida: SA, idb: SB}
            kmin = int(np.argmin(con["dist"]))
            for k in range(n):
                c = con[k]
                F = np.array(c["frame"]).reshape(3, 3)
                if abs(np.linalg.norm(F[0]) - 1) > 1e-9 or np.abs(F @ F.T - np.eye(3)).max() > 1e-9:
                    fails.append((tag + "contact frame not orthonormal / normal not unit", "frame=%s" % F.tolist(), "contact"))
                if c["dist"] > margin + 1e-9:
                    fails.append((tag + "contact dist > margin", "dist=%.12g" % c["dist"], "contact"))
                if c["dist"] < dref - tol:
                    sn = poly and margin == 0 and face_snapped(shapes_[int(c["geom"][0])], shapes_[int(c["geom"][1])], F[0],
                                                               nref if int(c["geom"][0]) == ida else -nref)
                    fails.append((tag + "a contact reports less than the certified lower bound", "dist[%d]=%.12g ref=%.12g" % (k, c["dist"], dref),
                                  "multi" if sn else "contact"))
                g0, g1 = shapes_[int(c["geom"][0])], shapes_[int(c["geom"][1])]
                if k == kmin:
                    gg = float(R.gap(g0, g1, F[0][None])[0])
                    snapped = poly and margin == 0 and face_snapped(g0, g1, F[0], nref if int(c["geom"][0]) == ida else -nref)
                    if abs(c["dist"] - dref) > tol and not (c["dist"] < dref - tol):
                        fails.append((tag + "deepest contact dist is larger than the signed distance (too shallow)",
                                      "dist=%.12g ref=%.12g gap along contact normal=%.12g" % (c["dist"], dref, gg),
                                      "multi" if snapped else "contact"))
                    elif abs(gg - c["dist"]) > 50 * tol:
                        fails.append((tag + "contact normal (geom[0]->geom[1]) is not a direction of minimal separation/penetration",
                                      "dist=%.12g gap along normal=%.12g normal=%s geom=%s" % (c["dist"], gg, F[0], c["geom"]),
                                      "multi" if snapped else "contact"))
                    lim = abs(float(c["dist"])) / 2 + TOL_W
                    if abs(c["dist"] - dref) <= tol and (g0.off_surface(np.array(c["pos"]), lim) or g1.off_surface(np.array(c["pos"]), lim)):
                        fails.append((tag + "pos of the deepest contact is not midway between the surfaces",
                                      "pos=%s dist=%.12g" % (c["pos"], c["dist"]), "witness"))
    m.geom_margin[:] = 0
    return fails, dref, info


def run_item(lib, part, item):
    (na, nb), si, order, t1list, rot_idx, SH = item
    sha, shb = SH[na], SH[nb]
    sia, sib = si, (si if na != nb else 1 - si)
    aa, ga = geom_xml("A", sha, sia)
    ab, gb = geom_xml("B", shb, sib)
    bodyA = '<body name="bA"><freejoint/><geom name="gA" %s/></body>' % ga
    bodyB = '<body name="bB"><freejoint/><geom name="gB" %s/></body>' % gb
    body = (bodyA + "\n" + bodyB) if order == 0 else (bodyB + "\n" + bodyA)
    xml = A.mjcf(body, asset="\n".join(x for x in (aa, ab) if x),
                 option_elem='  <option ccd_tolerance="%g" ccd_iterations="200"/>' % CCD_TOL)
    m = lib.load_xml(xml)
    d = lib.make_data(m)
    ida = lib.mj_name2id(m, 5, b"gA")
    idb = lib.mj_name2id(m, 5, b"gB")
    adrA, adrB = (0, 7) if order == 0 else (7, 0)
    SA0, SB0 = make_shape(sha, sia), make_shape(shb, sib)
    eA = ext(SA0)
    pname = "%s-%s" % (na, nb)
    do_contacts = (na, nb) != ("box", "box")
    sampled = False
    for t1i in t1list:
        _, p1, q1 = T1S[t1i]
        R1 = quat2mat(q1)
        for ri in rot_idx:
            rname, qrel = ROTS[ri]
            Rrel = quat2mat(qrel)
            SBl = SB0.moved(np.zeros(3), Rrel)
            hB = SBl.h(np.eye(3))
            step = 0.515 * (eA + hB)
            for lv in itertools.product(LEVELS, repeat=3):
                prel = np.array(lv) * step
                cB = p1 + R1 @ prel
                qpos = np.zeros(14)
                qpos[adrA:adrA + 3] = p1
                qpos[adrA + 3:adrA + 7] = q1
                qpos[adrB:adrB + 3] = cB
                qpos[adrB + 3:adrB + 7] = quat_mul(q1, qrel)
                d.qpos[:] = qpos
                lib.mj_kinematics(m, d)
                SA = SA0.moved(p1, R1)
                SB = SB0.moved(cB, R1 @ Rrel)
                ref = R.signed_distance(SA, SB)
                label = "size%d order%d T1=%s rot=%s lv=%s" % (si, order, T1S[t1i][0], rname, lv)
                fails, dref, info = eval_pose(lib, m, d, SA, SB, ida, idb, ref, do_contacts)
                part.count(1, key=(pname, label) if dref < MARGIN else None,
                           sample={"pair": pname, "pose": label, "signed_distance": dref} if (dref < 0 and not sampled) else None)
                if dref < 0:
                    sampled = True
                    part.add("penetrating")
                elif dref < MARGIN:
                    part.add("within_margin")
                if dref - ref[0] > TOL_POLY * (1 + abs(dref)):
                    part.add("oracle_improved_by_engine_direction")
                if not fails and dref > 1e-3 and dref < 0.9 and not (SA.polytope() and SB.polytope()):
                    # monotonicity probe: a tighter tolerance must not give a worse separation distance
                    m.opt.ccd_tolerance = 1e-8
                    dt_ = lib.mj_geomDistance(m, d, ida, idb, 1.0, None)
                    m.opt.ccd_tolerance = CCD_TOL
                    part.count(1)
                    if abs(dt_ - dref) > TOL_SMOOTH * (1 + abs(dref)):
                        part.violation(K_GJKTIGHT, "%s [%s]: distance %.12g at ccd_tolerance 1e-8 but %.12g at 1e-6; reference %.12g"
                                       % (pname, label, dt_, info["d12"], dref), dict(info, xml=xml, qpos=qpos, pose=label, d_tight=dt_))
                if not fails:
                    continue
                # iterative solver: does a much larger iteration budget alone cure it?
                m.opt.ccd_iterations = 5000
                f2, _, _ = eval_pose(lib, m, d, SA, SB, ida, idb, ref, do_contacts)
                m.opt.ccd_iterations = 200
                if not f2:
                    part.add("not_converged_in_200_iterations_skipped")
                    continue
                coincide = np.linalg.norm(np.array(d.geom_xpos[ida]) - np.array(d.geom_xpos[idb])) < 1e-12
                degenerate = False
                if not coincide and any(kind in ("dist", "contact") for _, _, kind in fails):
                    # does an imperceptible perturbation of the pose cure it?  (measure-zero degeneracy of GJK/EPA)
                    q2 = qpos.copy()
                    q2[adrB:adrB + 3] += 1e-7 * np.array([1.0, 2.0, -1.0])
                    d.qpos[:] = q2
                    lib.mj_kinematics(m, d)
                    SB2 = SB0.moved(q2[adrB:adrB + 3], R1 @ Rrel)
                    f3, _, _ = eval_pose(lib, m, d, SA, SB2, ida, idb, R.signed_distance(SA, SB2), do_contacts)
                    degenerate = not any(kind in ("dist", "contact") for _, _, kind in f3)
                    d.qpos[:] = qpos
                    lib.mj_kinematics(m, d)
                tolp = (TOL_POLY if (SA.polytope() and SB.polytope()) else TOL_SMOOTH) * (1 + abs(dref))
                for (key, msg, kind) in fails:
                    rp = dict(info, xml=xml, qpos=qpos, pose=label)
                    if coincide:
                        k = K_GJK0
                    elif kind == "witness" and dref < 0:
                        k = K_EPAW
                    elif kind == "multi" or (kind == "contact" and key.startswith("margin=0 ") and SA.polytope() and SB.polytope()
                                             and abs(info["d12"] - dref) <= TOL_POLY * (1 + abs(dref))):
                        # same pose, same EPA: mj_geomDistance (single contact) is right, only the multi-contact stage deviates
                        k = K_MULTI
                    elif kind in ("dist", "contact") and degenerate:
                        k = K_EPADEG
                    elif kind in ("dist", "contact") and dref < 0 and info["d12"] > dref + tolp and abs(info["d12"] - info["d21"]) <= tolp:
                        k = "%s: mjc_ccd/EPA reports a too shallow penetration depth in an open set of poses (not a measure-zero degeneracy)" % pname
                    else:
                        k = "%s: %s" % (pname, key)
                    part.violation(k, "%s: %s [%s] %s" % (pname, key, label, msg), rp)
    d.free()
    m.free()


def _chunk(chunk):
    lib = mj.load()
    part = DPart()
    SH = shapes()
    for item in chunk:
        try:
            run_item(lib, part, item + (SH,))
        except mj.MjError as e:
            part.violation("engine error", "unexpected mju_error / compile error: %s on %r" % (e, item[:4]), {"item": repr(item[:4])})
    return part


def self_test():
    """Oracle against the closed forms of C13 on pairs that have them."""
    from . import _c13_ref as G
    worst = 0.0
    T5 = {G.SPHERE: S, G.CAPSULE: C, G.CYLINDER: Y, G.BOX: B}
    sizes = {G.SPHERE: (0.1,), G.CAPSULE: (0.06, 0.2), G.CYLINDER: (0.12, 0.18), G.BOX: (0.1, 0.15, 0.2)}
    sizes2 = {G.SPHERE: (0.25,), G.CAPSULE: (0.15, 0.05), G.CYLINDER: (0.25, 0.04), G.BOX: (0.3, 0.05, 0.12)}
    for (tA, tB) in ((G.BOX, G.BOX), (G.CAPSULE, G.BOX), (G.CAPSULE, G.CAPSULE), (G.SPHERE, G.CYLINDER), (G.SPHERE, G.BOX)):
        for ri in (0, 2, 3, 4):
            R2 = quat2mat(ROTS[ri][1])
            for prel in ((0.05, 0.02, 0.3), (0.3, 0.25, 0.1), (0.01, 0.0, 0.02), (0.5, 0.4, 0.45), (0.21, 0.0, 0.0)):
                gA = (tA, sizes[tA], np.zeros(3), np.eye(3))
                gB = (tB, sizes2[tB], np.array(prel), R2)
                dt = G.pair_distance(gA, gB)
                SA = R.Shape(T5[tA], list(sizes[tA]) + [0, 0], np.zeros(3), np.eye(3))
                SB = R.Shape(T5[tB], list(sizes2[tB]) + [0, 0], np.array(prel), R2)
                lo = R.signed_distance(SA, SB)[0]
                worst = max(worst, abs(lo - dt))
    return worst


def run(ctx):
    mj.load()
    w = self_test()
    if w > 1e-9:
        raise RuntimeError("oracle self-test failed: support-function maximiser deviates from closed forms by %.3g" % w)
    ctx.extra["oracle_vs_closed_forms_max_err"] = w
    items = []
    if ctx.thorough:
        pairs, sis, t1, rots = all_pairs(), (0, 1), [0, 1], list(range(10))
    else:
        pairs, sis, t1, rots = QUICK_PAIRS, (0,), [0], list(range(5))
    SHm = shapes()
    for pr in pairs:
        both_mesh = SHm[pr[0]][0] == M and SHm[pr[1]][0] == M
        for si in sis:
            if si and both_mesh:
                continue        # meshes have no size variants
            orders = (0, 1) if (ctx.thorough or pr[0] == pr[1]) else (0,)
            for order in orders:
                tt = t1[:1] if order == 0 else t1[-1:]
                for r in rots:
                    items.append((pr, si, order, tt, [r]))
        # metre-scale size set for the primitive pairs (no mesh variants): quick 3 pairs x 2 rotations, thorough all x 5
        if not (SHm[pr[0]][0] == M or SHm[pr[1]][0] == M) and (ctx.thorough or pr in BIG_QUICK):
            for r in (rots[:5] if ctx.thorough else (0, 3)):
                items.append((pr, 2, 0, t1[:1], [r]))
    core.pmap(ctx, _chunk, items, nchunks=min(len(items), 160))
    ctx.extra["models"] = len(items)
    ctx.rule = ("pairs %s x %d size set(s) x file order(s) (order 0 with the first placement, order 1 with the last) x first-geom placement %s x rotations %s x 5x5x5 relative positions "
                "(levels {-2,-1,0,.87,1.93} x 0.515 x (extent1+support2) per axis); per pose mj_geomDistance in both argument orders "
                "(distmax 1) and mj_collision with pair margin 0 and 0.05.  non-trivial = signed distance below 0.05 (contact expected "
                "for one of the margins)" % (["%s-%s" % p for p in pairs], len(sis), [T1S[i][0] for i in t1], [ROTS[i][0] for i in rots]))
    ctx.assumptions = [
        "libccd path not decidable (inert stub): only nativeccd (default) is checked; native-vs-libccd agreement not checked",
        "reference lower bound = support gap at an explicit direction (certified); it is the exact signed distance whenever the "
        "global 5120-direction lattice + kink-aware polish finds the optimal basin (validated against C13's closed forms at start-up)",
        "ccd_tolerance 1e-6 (default), ccd_iterations 200; distance tolerance 1e-4*(1+|d|) when a curved geom is involved, "
        "1e-7*(1+|d|) for box/mesh pairs; witness/pos certified off-surface beyond 1e-4; separated curved pairs are also "
        "evaluated at ccd_tolerance 1e-8 (must not get worse)",
        "a failing pose that passes with ccd_iterations=5000 is counted as not converged and skipped",
        "normals of swapped calls compared only when the optimum is unique (second-best basin below the best by > 1e-6)"]
