"""C49 helper: the public API surface as clang sees it (independent of the tree's own generator).

`load(repo)` runs `clang -Xclang -ast-dump=json -fsyntax-only` on a one-line TU that includes
<mujoco/mujoco.h> and returns a `Hdr` with, for every declaration located in a file under
include/mujoco:  struct typedefs -> record field trees, enums -> constant lists, functions -> parameters
(with the parameter's source text, name token removed, so array extents that decay in the function type are kept),
plus the X-macro tables of mjxmacro.h expanded by the preprocessor.
"""
from __future__ import annotations

import json
import os
import re
import subprocess

CLANG = "clang"


class HarnessError(RuntimeError):
    pass


def _run(cmd, **kw):
    r = subprocess.run(cmd, capture_output=True, text=True, **kw)
    return r


class Field:
    """A member of a record: leaf (`sub is None`) or (possibly unnamed) nested struct/union."""
    __slots__ = ("name", "qual", "sub", "tag", "bitfield")

    def __init__(self, name, qual, sub=None, tag=None, bitfield=False):
        self.name, self.qual, self.sub, self.tag, self.bitfield = name, qual, sub, tag, bitfield


class Hdr:
    def __init__(self):
        self.files = {}          # path -> text (bytes decoded latin-1 so that offsets are byte offsets)
        self.struct_typedefs = {}  # typedef name -> 'struct X_'
        self.enum_typedefs = {}    # typedef name -> 'enum X_'
        self.other_typedefs = {}   # typedef name -> qualType
        self.records = {}        # 'struct X_' -> list[Field] (only complete definitions)
        self.enums = {}          # 'enum X_' -> list[str] constant names in order
        self.anon_enums = []     # unnamed enums declared in mujoco headers: list[list[str]]
        self.functions = {}      # name -> dict(qual, variadic, params=[(name, qual, text|None)], file, line)
        self.variables = []      # extern variables (not part of the metadata)
        self.reached = set()     # files under include/mujoco that were reached
        self.xmacro = {}         # 'mjModel'/'mjData' -> {field: (type, nr, nc)}


def _is_mj_file(path, incdir):
    return path is not None and os.path.dirname(os.path.abspath(path)) == incdir


def load(repo: str, workdir: str, defines=()) -> Hdr:
    inc = os.path.join(repo, "include")
    incdir = os.path.join(os.path.abspath(inc), "mujoco")
    os.makedirs(workdir, exist_ok=True)
    tu = os.path.join(workdir, "astdump_%d.c" % os.getpid())
    with open(tu, "w") as fh:
        fh.write("#include <mujoco/mujoco.h>\n")
    cmd = [CLANG, "-x", "c", "-std=c11", "-Xclang", "-ast-dump=json", "-fsyntax-only", "-I" + inc] + list(defines) + [tu]
    r = _run(cmd)
    os.unlink(tu)
    if r.returncode != 0:
        raise HarnessError("clang cannot parse mujoco.h: " + r.stderr[-2000:])
    root = json.loads(r.stdout)
    h = Hdr()

    # --- file tracking: clang elides "file" while it is unchanged w.r.t. the previously *printed* location,
    # so locations are replayed in document order (dict order is preserved by json).
    state = {"file": None}

    def see_loc(loc):
        if not isinstance(loc, dict):
            return
        if "spellingLoc" in loc or "expansionLoc" in loc:
            see_loc(loc.get("spellingLoc"))
            see_loc(loc.get("expansionLoc"))
            return
        if "file" in loc:
            state["file"] = loc["file"]

    def walk_locs(node):
        """Replay every location below `node` (used for subtrees that are not otherwise interpreted)."""
        see_loc(node.get("loc"))
        rg = node.get("range")
        if rg:
            see_loc(rg.get("begin"))
            see_loc(rg.get("end"))
        for c in node.get("inner", ()):
            if isinstance(c, dict):
                walk_locs(c)

    def text_of(path):
        if path not in h.files:
            with open(path, "rb") as fh:
                h.files[path] = fh.read().decode("latin-1")
        return h.files[path]

    def plain(loc):
        return isinstance(loc, dict) and "offset" in loc and "spellingLoc" not in loc

    def record_fields(node):
        """Field tree of a RecordDecl node; nested unnamed records are attached to the member that uses them
        (or kept as an anonymous member when no declarator follows)."""
        out = []
        pending = None   # nested RecordDecl waiting for its FieldDecl
        for c in node.get("inner", ()):
            k = c.get("kind")
            if k == "RecordDecl":
                see_loc(c.get("loc"))
                rg = c.get("range") or {}
                see_loc(rg.get("begin")); see_loc(rg.get("end"))
                pending = (c.get("tagUsed"), record_fields(c), c.get("name"))
            elif k == "FieldDecl":
                walk_locs(c)
                q = c["type"]["qualType"]
                if pending is not None and ("unnamed " in q or "anonymous " in q):
                    out.append(Field(c.get("name"), q, sub=pending[1], tag=pending[0], bitfield=bool(c.get("isBitfield"))))
                    pending = None
                else:
                    out.append(Field(c.get("name"), q, bitfield=bool(c.get("isBitfield"))))
            elif k == "IndirectFieldDecl":
                walk_locs(c)
            else:
                walk_locs(c)
        return out

    for n in root.get("inner", ()):
        kind = n.get("kind")
        see_loc(n.get("loc"))
        here = state["file"]
        loc = n.get("loc") or {}
        rg = n.get("range") or {}
        see_loc(rg.get("begin")); see_loc(rg.get("end"))
        mj = _is_mj_file(here, incdir)
        if mj:
            h.reached.add(os.path.basename(here))
        name = n.get("name")
        if not mj:
            walk_locs({"inner": n.get("inner", ())})
            continue
        if kind == "RecordDecl":
            if n.get("completeDefinition"):
                h.records["%s %s" % (n.get("tagUsed"), name)] = record_fields(n)
            else:
                walk_locs({"inner": n.get("inner", ())})
        elif kind == "EnumDecl":
            consts = []
            for c in n.get("inner", ()):
                walk_locs(c)
                if c.get("kind") == "EnumConstantDecl":
                    consts.append(c["name"])
            if name:
                h.enums["enum " + name] = consts
            else:
                h.anon_enums.append(consts)
        elif kind == "TypedefDecl":
            walk_locs({"inner": n.get("inner", ())})
            q = n["type"]["qualType"]
            if re.fullmatch(r"struct [A-Za-z_]\w*", q):
                h.struct_typedefs[name] = q
            elif re.fullmatch(r"union [A-Za-z_]\w*", q):
                h.struct_typedefs[name] = q
            elif re.fullmatch(r"enum [A-Za-z_]\w*", q):
                h.enum_typedefs[name] = q
            else:
                h.other_typedefs[name] = q
        elif kind == "FunctionDecl":
            params = []
            for c in n.get("inner", ()):
                if c.get("kind") == "ParmVarDecl":
                    see_loc(c.get("loc"))
                    pfile = state["file"]
                    cl, cr = c.get("loc") or {}, c.get("range") or {}
                    see_loc(cr.get("begin")); see_loc(cr.get("end"))
                    text = None
                    b, e = cr.get("begin"), cr.get("end")
                    if plain(cl) and plain(b) and plain(e) and "name" in c and _is_mj_file(pfile, incdir):
                        src = text_of(pfile)
                        lo, hi = b["offset"], e["offset"] + e["tokLen"]
                        no, nl = cl["offset"], cl["tokLen"]
                        if lo <= no and no + nl <= hi and src[no:no + nl] == c["name"]:
                            text = (src[lo:no] + " " + src[no + nl:hi]).strip()
                            text = re.sub(r"\s+", " ", text)
                    params.append((c.get("name"), c["type"]["qualType"], text))
                    walk_locs({"inner": c.get("inner", ())})
                else:
                    walk_locs(c)
            h.functions[name] = dict(qual=n["type"]["qualType"], variadic=bool(n.get("variadic")), params=params,
                                     file=os.path.basename(here), line=loc.get("line"),
                                     storage=n.get("storageClass"), inline=bool(n.get("inline")))
        elif kind == "VarDecl":
            walk_locs({"inner": n.get("inner", ())})
            h.variables.append(name)
        else:
            walk_locs({"inner": n.get("inner", ())})

    h.xmacro = _xmacro(inc, workdir)
    return h


_XM_SRC = r"""
#include <mujoco/mjxmacro.h>
#undef MJ_M
#define MJ_M(n) n
#undef MJ_D
#define MJ_D(n) n
#define XNV X
#define XMJV X
#define X(type, name, nr, nc) @C49M|type|name|nr|nc@
MJMODEL_POINTERS
#undef X
#define X(type, name, nr, nc) @C49D|type|name|nr|nc@
MJDATA_POINTERS
MJDATA_ARENA_POINTERS
"""


def _xmacro(inc, workdir):
    tu = os.path.join(workdir, "xmacro_%d.c" % os.getpid())
    with open(tu, "w") as fh:
        fh.write(_XM_SRC)
    r = _run([CLANG, "-x", "c", "-E", "-P", "-I" + inc, tu])
    os.unlink(tu)
    if r.returncode != 0:
        raise HarnessError("cannot expand mjxmacro.h: " + r.stderr[-1000:])
    out = {"mjModel": {}, "mjData": {}}
    for m in re.finditer(r"@C49([MD])\|([^@]*)@", r.stdout):
        p = [re.sub(r"\s+", "", x) if i else x for i, x in enumerate(m.group(2).split("|"))]
        if len(p) != 4:
            raise HarnessError("unexpected X-macro expansion %r" % m.group(0))
        typ = re.sub(r"\s+", " ", p[0].strip())
        out["mjModel" if m.group(1) == "M" else "mjData"][p[1]] = (typ, p[2], p[3])
    return out
