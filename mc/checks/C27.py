"""C27 Actuation follows the documented transmission and force laws.

Part A  full product transmission menu x {gain x bias x dyn x ctrllimited x forcelimited x actlimited x actearly}
        (all per-actuator combinations live as separate actuators of one model per transmission) x joint/tendon
        actuatorfrcrange on/off x runtime lattice {group-disable masks x clampctrl x ctrl x act x state}.
Part B  pure muscle functions on a dense parameter/branch lattice.
Part C  shortcuts (motor/position/velocity/intvelocity/damper/cylinder/muscle/adhesion/pid/orientation/dcmotor) ->
        documented general-actuator settings and their force laws, inheritrange, dampratio, circle-wrapped servos.
Part D  joint- and tendon-level force clamps with 1-2 actuators per target.
Oracle: numpy reference written from the documentation (mc/checks/_c27_ref.py).
"""
import math

import numpy as np

from .. import core, mj
from ..mjutil import dense, relerr
from . import _c27_models as M
from . import _c27_ref as R

LEVEL = "exploration"
META = dict(
    category=LEVEL,
    technique="exhaustive enumeration of an actuator-configuration lattice (full product, schema-pruned) with a numpy "
              "reference model written from the documentation",
    text="Every combination transmission x gain x bias x dynamics x limit flags x actearly x group-disable x clampctrl x "
         "ctrl x act lattice is compiled by the tree's compiler and evaluated by mj_forward / mj_step; lengths, moment arms "
         "(virtual work / finite differences of frames), act_dot, next activations, actuator_force, qfrc_actuator and the "
         "joint/tendon force clamps are recomputed independently. Exhaustive over the stated lattice, so a law that is "
         "wrong only for one combination (e.g. actearly + filterexact + actlimited, or a refsite on a moving body) cannot hide.",
    note="Reference uses mjData frames (xpos/xmat/site_xpos/site_xmat: C07) and qfrc_gravcomp (C29), never engine Jacobians. "
         "Not covered: dcmotor electrical/thermal/LuGre states (specified only in a PDF technical note), user callbacks "
         "(gain/bias/dyn type 'user'), actuator plugins (C51), ctrl history delay/interp, sleeping actuators, "
         "flex contacts in body transmission, tendon wrapping geometry (lengths of wrapped tendons).",
    design_ref="DESIGN.md §3 C27")

TOL = 1e-9          # algebraic laws (observed noise <= 1e-15 relative)
TOL_FD = 1e-6       # quantities compared with central finite differences (observed <= 3e-9)

K_REFSITE = ("site+refsite (translational gear): actuator_moment is not the gradient of actuator_length when the "
             "refsite frame rotates relative to the site")
K_FP = "muscle bias: passive force curve FP differs from the documented one (FP(lmax)=1.5*fpmax instead of fpmax)"
K_FL = "muscle gain: active force-length curve FL lacks the documented secondary bump 0.15*bump(L,lmin,(lmin+0.95)/2,0.95)"
K_BODYGEAR = "body transmission ignores gear (documented: gear scales length and moment arms for all transmission types)"
K_TENDONORDER = ("tendon actuatorfrcrange is applied before the actuator forcerange clamp: total actuator force on the "
                 "tendon leaves tendon actuatorfrcrange")


# ====================================================================== vectorised force-law reference

def _bump(L, A, mid, B):
    left = 0.5 * (A + mid)
    right = 0.5 * (mid + B)
    with np.errstate(all="ignore"):
        y = np.select([(L <= A) | (L >= B), L < left, L < mid, L < right],
                      [0.0, 0.5 * ((L - A) / (left - A)) ** 2, 1 - 0.5 * ((mid - L) / (mid - left)) ** 2,
                       1 - 0.5 * ((L - mid) / (right - mid)) ** 2], 0.5 * ((B - L) / (B - right)) ** 2)
    return y


def _muscle_LV(length, vel, lr, prm):
    with np.errstate(all="ignore"):     # rows that are not muscles carry zero parameters; their values are never selected
        L0 = (lr[:, 1] - lr[:, 0]) / (prm[:, 1] - prm[:, 0])
        LT = lr[:, 0] - prm[:, 0] * L0
        return (length - LT) / L0, vel / L0 / prm[:, 6]


def _F0(acc0, prm):
    with np.errstate(all="ignore"):
        return np.where(prm[:, 2] >= 0, prm[:, 2], prm[:, 3] / acc0)


def muscle_gain_v(length, vel, lr, acc0, prm, doc=True):
    L, V = _muscle_LV(length, vel, lr, prm)
    lmin, lmax, fvmax = prm[:, 4], prm[:, 5], prm[:, 8]
    FL = _bump(L, lmin, 1.0, lmax)
    if doc:
        FL = FL + 0.15 * _bump(L, lmin, 0.5 * (lmin + 0.95), 0.95)
    c = fvmax - 1
    with np.errstate(all="ignore"):
        FV = np.select([V <= -1, V <= 0, V <= c], [0.0, (V + 1) ** 2, fvmax - (c - V) ** 2 / c], fvmax)
    return -_F0(acc0, prm) * FL * FV


def muscle_bias_v(length, lr, acc0, prm, doc=True):
    L, _ = _muscle_LV(length, 0 * length, lr, prm)
    lmax, fpmax = prm[:, 5], prm[:, 7]
    b = 0.5 * (1 + lmax)
    x1 = (L - 1) / (b - 1)
    x2 = (L - b) / (b - 1)
    if doc:
        FP = np.select([L <= 1, L <= b], [0.0, 0.25 * fpmax * x1 ** 3], 0.25 * fpmax * (1 + 3 * x2))
    else:
        FP = np.select([L <= 1, L <= b], [0.0, 0.5 * fpmax * x1 ** 2], fpmax * (0.5 + x2))
    return -_F0(acc0, prm) * FP


def _sigmoid(x):
    x = np.clip(x, 0.0, 1.0)
    return 6 * x ** 5 - 15 * x ** 4 + 10 * x ** 3


def muscle_dyn_v(u, w, prm):
    u = np.clip(u, 0.0, 1.0)
    a = np.clip(w, 0.0, 1.0)
    tau_act = prm[:, 0] * (0.5 + 1.5 * a)
    tau_deact = prm[:, 1] / (0.5 + 1.5 * a)
    dctrl = u - w
    width = prm[:, 2]
    with np.errstate(all="ignore"):
        smooth = tau_deact + (tau_act - tau_deact) * _sigmoid(dctrl / np.where(width > 0, width, 1.0) + 0.5)
    tau = np.where(width > 0, smooth, np.where(dctrl > 0, tau_act, tau_deact))
    return dctrl / tau


class Spec:
    """per-actuator documented parameters as arrays (SISO general actuators)."""

    def __init__(self, acts):
        n = len(acts)
        self.n = n
        self.gt = np.array([a["gt"] for a in acts])
        self.bt = np.array([a["bt"] for a in acts])
        self.dt = np.array([a["dt"] for a in acts])
        self.gprm = np.zeros((n, 10))
        self.bprm = np.zeros((n, 10))
        self.dprm = np.zeros((n, 10))
        self.dprm[:, 0] = 1.0          # documented default dynprm "1 0 ... 0"
        for i, a in enumerate(acts):
            self.gprm[i, :len(a["gprm"])] = a["gprm"]
            self.bprm[i, :len(a["bprm"])] = a["bprm"]
            if a["dprm"]:
                self.dprm[i, :len(a["dprm"])] = a["dprm"]
        self.cl = np.array([a["cl"] for a in acts], bool)
        self.fl = np.array([a["fl"] for a in acts], bool)
        self.al = np.array([a["al"] for a in acts], bool)
        self.early = np.array([a["early"] for a in acts], bool)
        self.cr = np.array([a["cr"] for a in acts], float).reshape(n, 2)
        self.fr = np.array([a["fr"] for a in acts], float).reshape(n, 2)
        self.ar = np.array([a["ar"] for a in acts], float).reshape(n, 2)
        self.lr = np.array([a["lr"] for a in acts], float).reshape(n, 2)
        self.group = np.array([a["group"] for a in acts])
        self.stateful = self.dt != "none"
        self.actadr = np.cumsum(self.stateful) - 1      # activations are laid out in actuator order

    def disabled(self, mask):
        g = self.group
        ok = (g >= 0) & (g <= 30)
        return ok & (((mask >> np.clip(g, 0, 30)) & 1) == 1)


def force_reference(sp, length, vel, acc0, ctrl, act, h, clampctrl, mask, muscle_doc=(True, True)):
    """documented SISO law.  Returns dict(u, act_dot, wnext, x, gain, bias, force_raw, force)."""
    u = np.where(sp.cl & clampctrl, np.clip(ctrl, sp.cr[:, 0], sp.cr[:, 1]), ctrl)
    w = np.zeros(sp.n)
    w[sp.stateful] = act
    tau = sp.dprm[:, 0]
    with np.errstate(all="ignore"):
        act_dot = np.select([sp.dt == "integrator", (sp.dt == "filter") | (sp.dt == "filterexact"), sp.dt == "muscle"],
                            [u, (u - w) / tau, muscle_dyn_v(u, w, sp.dprm)], 0.0)
        wnext = np.where(sp.dt == "filterexact", w + (u - w) * (1 - np.exp(-h / tau)), w + h * act_dot)
    wnext = np.where(sp.al, np.clip(wnext, sp.ar[:, 0], sp.ar[:, 1]), wnext)
    x = np.where(sp.stateful, np.where(sp.early, wnext, w), u)
    gain = np.select([sp.gt == "fixed", sp.gt == "affine"],
                     [sp.gprm[:, 0], sp.gprm[:, 0] + sp.gprm[:, 1] * length + sp.gprm[:, 2] * vel],
                     muscle_gain_v(length, vel, sp.lr, acc0, sp.gprm, muscle_doc[0]))
    bias = np.select([sp.bt == "none", sp.bt == "affine"],
                     [0.0, sp.bprm[:, 0] + sp.bprm[:, 1] * length + sp.bprm[:, 2] * vel],
                     muscle_bias_v(length, sp.lr, acc0, sp.bprm, muscle_doc[1]))
    raw = gain * x + bias
    dis = sp.disabled(mask)
    force = np.where(sp.fl, np.clip(raw, sp.fr[:, 0], sp.fr[:, 1]), raw)
    force = np.where(dis, 0.0, force)
    scale = 1 + np.abs(gain * x) + np.abs(bias)
    return dict(u=u, act_dot=act_dot, wnext=wnext, x=x, gain=gain, bias=bias, raw=raw, force=force, dis=dis, scale=scale)


# ====================================================================== transmission reference

def _id(lib, m, objtype, name):
    i = lib.mj_name2id(m, objtype, name.encode())
    if i < 0:
        raise RuntimeError("name not found: " + name)
    return i


def common_ancestor_dofs(m, b0, b1):
    """dofs that move both bodies (dofs of joints on the chain of the deepest common ancestor body)."""
    def chain(b):
        out = []
        while b > 0:
            out.append(b)
            b = int(m.body_parentid[b])
        return out
    c0, c1 = chain(b0), chain(b1)
    common = [b for b in c0 if b in c1]
    dofs = []
    for b in common:
        a, n = int(m.body_dofadr[b]), int(m.body_dofnum[b])
        dofs += list(range(a, a + n))
    return dofs


def ref_transmission(lib, m, d, F, desc, gear, part=None):
    """documented (length, moment[nv]) of one scalar transmission at the configuration of Frames F.
    returns dict(length, moment, alt=..., skip=reason or None)"""
    nv = m.nv
    g = np.zeros(6)
    g[:len(gear)] = gear
    kind = desc["kind"]
    out = dict(alt=None, skip=None)
    if kind == "joint":
        j = _id(lib, m, 3, desc["jnt"])
        jt = int(m.jnt_type[j])
        qa, da = int(m.jnt_qposadr[j]), int(m.jnt_dofadr[j])
        b = int(m.jnt_bodyid[j])
        mom = np.zeros(nv)
        if jt in (2, 3):
            out["length"] = g[0] * F.q[qa]
            mom[da] = g[0]
        elif jt == 1:
            # torque about the gear axis, given in the child (joint) or parent (jointinparent) frame;
            # length = gear . angle-axis of the joint quaternion
            out["length"] = float(np.dot(g[:3], R.quat2expmap(F.q[qa:qa + 4])))
            Rf = F.xmat[int(m.body_parentid[b])] if desc["inparent"] else F.xmat[b]
            mom = (Rf @ g[:3]) @ F.Wx[b]
            ang = 2 * math.atan2(np.linalg.norm(F.q[qa + 1:qa + 4]), abs(F.q[qa]))
            if abs(ang - math.pi) < 1e-6:
                out["skip_length"] = "ball angle at the wrap pi"
        else:
            # translation axis in the world frame, rotation axis in the child frame (joint) / world frame (inparent)
            out["length"] = 0.0
            axis = g[3:6] if desc["inparent"] else F.xmat[b] @ g[3:6]
            mom = g[:3] @ F.dxpos[b] + axis @ F.Wx[b]
        out["moment"] = mom
    elif kind == "tendon":
        fn = tendon_length_fn(lib, m, desc["ten"])
        out["length"] = g[0] * fn(F.q, F.xpos, F.xmat, F.spos, F.smat)
        out["moment"] = g[0] * F.fd(fn)
    elif kind == "site":
        s = _id(lib, m, 6, desc["site"])
        if desc["ref"] is None:
            out["length"] = 0.0
            out["moment"] = (F.smat[s] @ g[:3]) @ F.dspos[s] + (F.smat[s] @ g[3:]) @ F.Ws[s]
        else:
            r = _id(lib, m, 6, desc["ref"])

            def tl(q, xpos, xmat, spos, smat):
                return float(g[:3] @ (smat[r].T @ (spos[s] - spos[r])))
            rot = R.mat2expmap(F.smat[r].T @ F.smat[s])
            out["length"] = tl(F.q, F.xpos, F.xmat, F.spos, F.smat) + float(g[3:] @ rot)
            mrot = (F.smat[r] @ g[3:]) @ (F.Ws[s] - F.Ws[r])
            out["moment"] = F.fd(tl) + mrot
            # attribution only: force at the site, reaction at the refsite origin (no lever-arm term)
            alt = (F.smat[r] @ g[:3]) @ (F.dspos[s] - F.dspos[r])
            alt[common_ancestor_dofs(m, int(m.site_bodyid[s]), int(m.site_bodyid[r]))] = 0.0
            out["alt"] = alt + mrot
            if np.any(g[3:]) and abs(np.linalg.norm(rot) - math.pi) < 1e-6:
                out["skip_length"] = "relative rotation at the wrap pi"
    elif kind == "crank":
        c = _id(lib, m, 6, desc["crank"])
        s = _id(lib, m, 6, desc["slider"])
        rod = desc["rod"]

        def parts(spos, smat):
            a = smat[s][:, 2]
            v = spos[c] - spos[s]
            av = float(a @ v)
            return av, av * av + rod * rod - float(v @ v)
        av, det = parts(F.spos, F.smat)
        if det <= 1e-9:
            out["skip"] = "slider-crank rod cannot reach (det<=0): undefined by the documentation"
            return out
        out["roots"] = (g[0] * (av - math.sqrt(det)), g[0] * (av + math.sqrt(det)))
        out["crankfn"] = lambda sign: (lambda q, xpos, xmat, spos, smat: g[0] * (parts(spos, smat)[0] + sign * math.sqrt(parts(spos, smat)[1])))
        out["F"] = F
    elif kind == "body":
        b = _id(lib, m, 1, desc["body"])
        con = d.contact
        mom = np.zeros(nv)
        n = 0
        for c in con:
            g1, g2 = int(c["geom"][0]), int(c["geom"][1])
            if g1 < 0 or g2 < 0:
                continue
            b1, b2 = int(m.geom_bodyid[g1]), int(m.geom_bodyid[g2])
            if b1 != b and b2 != b:
                continue
            if int(c["exclude"]) not in (0, 1):
                continue
            n += 1
            p = np.array(c["pos"])
            nrm = np.array(c["frame"][:3])
            v2 = F.dxpos[b2] + np.cross(F.Wx[b2].T, p - F.xpos[b2]).T
            v1 = F.dxpos[b1] + np.cross(F.Wx[b1].T, p - F.xpos[b1]).T
            mom += nrm @ (v2 - v1)
        out["ncon"] = n
        out["length"] = 0.0
        # adhesion pulls the two bodies together, equally divided between the contacts; gear scales moment arms
        out["moment"] = -g[0] * mom / n if n else mom
        out["alt"] = -mom / n if n else mom
    return out


def tendon_length_fn(lib, m, name):
    if name == "tf":
        t = lib.mj_name2id(m, 18, b"tf")
        adr, num = int(m.tendon_adr[t]), int(m.tendon_num[t])
        ids = [int(m.wrap_objid[adr + k]) for k in range(num)]
        coefs = [1.3, -0.7] if num == 2 else [-0.7]
        qadr = [int(m.jnt_qposadr[j]) for j in ids]
        return lambda q, xpos, xmat, spos, smat: float(sum(c * q[a] for c, a in zip(coefs, qadr)))
    s = [lib.mj_name2id(m, 6, n) for n in (b"sw", b"s0", b"s1")]
    return lambda q, xpos, xmat, spos, smat: float(np.linalg.norm(spos[s[1]] - spos[s[0]]) + np.linalg.norm(spos[s[2]] - spos[s[1]]))


# ====================================================================== Part A

def build_partA(tname, root, target, gear, desc, tclamp, lengthrange):
    kept, pruned = M.actuator_product()
    xml_acts = ""
    acts = []
    for i, a in enumerate(kept):
        xml_acts += M.general_xml("a%d" % i, target, gear, a, lengthrange)
        acts.append(dict(gt=M.GAINS[a["g"]][1], gprm=M.GAINS[a["g"]][2], bt=M.BIASES[a["b"]][1], bprm=M.BIASES[a["b"]][2],
                         dt=M.DYNS[a["dy"]][1], dprm=M.DYNS[a["dy"]][2], cl=a["cl"], fl=a["fl"], al=a["al"], early=a["early"],
                         cr=M.CTRLRANGE, fr=M.FORCERANGE, ar=M.ACTRANGE, lr=lengthrange, group=a["group"],
                         cfg=(M.GAINS[a["g"]][0], M.BIASES[a["b"]][0], M.DYNS[a["dy"]][0], a["cl"], a["fl"], a["al"], a["early"])))
    extra = 'cone="%s"' % desc["cone"] if desc["kind"] == "body" else ""
    xml = M.base_xml(root, tclamp, "  <actuator>\n%s  </actuator>\n" % xml_acts, contact=desc["kind"] == "body",
                     option_extra=extra, ballclamp=tclamp)
    return xml, acts, pruned


def probe_lengthrange(lib, root, target, gear, desc, qs):
    """lengths of the transmission over the state lattice -> a lengthrange that spreads the normalised muscle length."""
    extra = 'cone="%s"' % desc["cone"] if desc["kind"] == "body" else ""
    xml = M.base_xml(root, 0, '  <actuator><general name="p" %s gear="%s"/></actuator>\n' % (target, gear),
                     contact=desc["kind"] == "body", option_extra=extra)
    m = lib.load_xml(xml)
    d = lib.make_data(m)
    ls = []
    for q in qs:
        d.qpos[:] = q
        lib.mj_forward(m, d)
        ls.append(float(d.actuator_length[0]))
    d.free()
    m.free()
    lo, hi = min(ls), max(ls)
    span = hi - lo
    if span < 1e-6:
        return (lo - 0.5, lo + 0.25)
    mid = 0.5 * (lo + hi)
    return (mid - 0.12 * span, mid + 0.1 * span)


def check_compiled(part, m, sp, acts, key):
    """the compiler stores what the MJCF says (types, parameters, ranges, flags, group)."""
    n = sp.n
    bad = []
    if not (m.nactuator == n and m.nu == n and m.nout == n and m.na == int(sp.stateful.sum())):
        bad.append("sizes nactuator=%d nu=%d nout=%d na=%d" % (m.nactuator, m.nu, m.nout, m.na))
        return bad
    exp = [("actuator_gaintype", np.array([M.GAIN[x] for x in sp.gt])), ("actuator_biastype", np.array([M.BIAS[x] for x in sp.bt])),
           ("actuator_dyntype", np.array([M.DYN[x] for x in sp.dt])), ("actuator_ctrllimited", sp.cl), ("actuator_forcelimited", sp.fl),
           ("actuator_actearly", sp.early), ("actuator_group", sp.group), ("actuator_gainprm", sp.gprm), ("actuator_biasprm", sp.bprm),
           ("actuator_ctrlrange", sp.cr), ("actuator_forcerange", sp.fr), ("actuator_lengthrange", sp.lr),
           ("actuator_actnum", sp.stateful.astype(int)), ("actuator_actadr", np.where(sp.stateful, sp.actadr, -1)),
           ("actuator_ctrladr", np.arange(n)), ("actuator_outadr", np.arange(n))]
    for name, e in exp:
        got = np.array(getattr(m, name))
        if got.shape != np.asarray(e).shape or not np.array_equal(got.astype(float), np.asarray(e).astype(float)):
            bad.append(name)
    al = np.array(m.actuator_actlimited).astype(bool)
    if not np.array_equal(al, sp.al):
        bad.append("actuator_actlimited")
    ar = np.array(m.actuator_actrange)
    if not np.array_equal(ar[sp.stateful], sp.ar[sp.stateful]):
        bad.append("actuator_actrange")
    dp = np.array(m.actuator_dynprm)
    if not np.array_equal(dp[:, :3], sp.dprm[:, :3]):
        bad.append("actuator_dynprm")
    return bad


def _viol(part, key, what, rp):
    if any(v["key"] == key for v in part["violations"]):
        return
    part.violation(key, what, rp)


def partA_model(lib, part, item, thorough):
    tname, root, target, gear_s, desc, tclamp = item
    gear = [float(x) for x in gear_s.split()]
    kind = desc["kind"]
    qs = M.state_lattice(root, kind, thorough)
    lr = probe_lengthrange(lib, root, target, gear_s, desc, qs)
    xml, acts, pruned = build_partA(tname, root, target, gear_s, desc, tclamp, lr)
    part.add("partA_pruned_by_schema", pruned)
    m = lib.load_xml(xml)
    d = lib.make_data(m)
    sp = Spec(acts)
    n, nv, h = sp.n, m.nv, M.TIMESTEP
    base = "partA %s tclamp=%d" % (tname, tclamp)
    rp0 = {"part": "A", "transmission": tname, "root": root, "target": target, "gear": gear_s, "tclamp": tclamp}

    for b in check_compiled(part, m, sp, acts, base):
        _viol(part, "compiled model field differs from MJCF: %s [%s]" % (b, tname), "%s: %s" % (base, b), dict(rp0, xml_head=xml[:3000]))
    if int(m.opt.disableactuator) != M.MASKS[2]:
        _viol(part, "option actuatorgroupdisable not compiled to the bitfield", "%s: disableactuator=%d" % (base, int(m.opt.disableactuator)), rp0)
    flags0 = int(m.opt.disableflags)

    # joint / tendon level limits as the MJCF says
    jl = np.array(m.jnt_actfrclimited).astype(bool)
    jtypes = np.array(m.jnt_type)
    exp_jl = np.array([bool(tclamp) and t in (2, 3) for t in jtypes])
    if not np.array_equal(jl, exp_jl):
        _viol(part, "joint actuatorfrclimited: compiled flag differs from the documentation (scalar joints only) [%s]" % root,
              "%s: jnt_actfrclimited=%s expected %s" % (base, jl.tolist(), exp_jl.tolist()), rp0)

    vs = M.vel_lattice(nv, thorough)
    acc0_checked = False
    nstate = 0
    for qi, q in enumerate(qs):
        d.qpos[:] = q
        d.qvel[:] = 0
        m.opt.disableflags = flags0
        m.opt.disableactuator = 0
        d.ctrl[:] = 0
        if m.na:
            d.act[:] = 0
        lib.mj_forward(m, d)
        F = R.Frames(lib, m, d, q)
        d.qpos[:] = q
        lib.mj_forward(m, d)
        T = ref_transmission(lib, m, d, F, desc, gear)
        rp = dict(rp0, qpos=q)
        if T["skip"]:
            part.add("boundary_excluded")
            continue
        length = np.array(d.actuator_length)
        Meng = dense(d.moment_rownnz, d.moment_rowadr, d.moment_colind, d.actuator_moment, n, nv)
        if kind == "crank":
            l0 = float(length[0])
            r0, r1 = T["roots"]
            sign = -1.0 if abs(l0 - r0) <= abs(l0 - r1) else 1.0
            T["length"] = r0 if sign < 0 else r1
            T["moment"] = F.fd(T["crankfn"](sign))
            part.add("crank_root_%s" % ("minus" if sign < 0 else "plus"))
        # ---- lengths (all rows share the transmission)
        if "skip_length" in T:
            part.add("boundary_excluded")
        else:
            e = float(np.max(np.abs(length - T["length"]))) / (1e-12 + 1 + abs(T["length"]))
            if e > TOL * 10:
                _viol(part, "actuator_length differs from the documented length [%s]" % tname,
                      "%s q#%d: engine %r documented %r" % (base, qi, float(length[0]), T["length"]), rp)
        # ---- moment arms
        mref = T["moment"]
        sc = 1e-9 + max(np.max(np.abs(mref)), np.max(np.abs(Meng)))
        e = float(np.max(np.abs(Meng - mref[None, :]))) / sc
        if e > TOL_FD:
            if T["alt"] is not None and np.max(np.abs(Meng - T["alt"][None, :])) / sc <= TOL_FD:
                if kind == "body":
                    _viol(part, K_BODYGEAR, "%s q#%d: moment equals the gear=1 moment, gear=%s (rel err %.3g)" % (base, qi, gear_s, e), rp)
                else:
                    _viol(part, K_REFSITE, "%s q#%d: engine moment %s, d(length)/dq %s" % (
                        base, qi, np.round(Meng[0], 6).tolist(), np.round(mref, 6).tolist()), rp)
            else:
                _viol(part, "actuator_moment differs from the documented moment arms [%s]" % tname,
                      "%s q#%d: rel err %.3g engine %s reference %s" % (base, qi, e, np.round(Meng[0], 6).tolist(), np.round(mref, 6).tolist()), rp)
        if kind == "body":
            part.add("body_states_with_%d_contacts" % min(T["ncon"], 5))
        # acc0 (documented: norm of the joint acceleration caused by a unit actuator force at qpos0)
        if not acc0_checked and np.array_equal(q, np.array(m.qpos0)):
            acc0_checked = True
            Mfull = np.zeros((nv, nv))
            lib.mj_fullM(m, d, Mfull)
            a0 = float(np.linalg.norm(np.linalg.solve(Mfull, Meng[0])))
            got = np.array(m.actuator_acc0)
            if np.max(np.abs(got - a0)) > 1e-8 * (1 + a0):
                _viol(part, "actuator_acc0 differs from |M^-1 moment| at qpos0 [%s]" % tname, "%s: %r vs %r" % (base, float(got[0]), a0), rp)
        acc0 = np.array(m.actuator_acc0)
        if np.any((sp.gt == "muscle") | (sp.bt == "muscle")) and acc0[0] < 1e-10:
            acc0 = np.maximum(acc0, 1e-15)      # scale/acc0 is undefined in the documentation for acc0 = 0; not compared
            part.add("acc0_zero_states")
        for vi, v in enumerate(vs):
            vel_ref = float(Meng[0] @ v)
            first = True
            for mask in M.MASKS:
                for clamp in (True, False):
                    for cp in range(4):
                        for ap in range(4):
                            ctrl = np.array([M.CTRLS[(i + cp) % 4] for i in range(n)])
                            act = np.array([M.ACTS[(i + ap + (i // 4)) % 4] for i in range(int(m.na))])
                            d.qpos[:] = q
                            d.qvel[:] = v
                            d.ctrl[:] = ctrl
                            d.act[:] = act
                            m.opt.disableactuator = mask
                            m.opt.disableflags = flags0 | (0 if clamp else 1 << 8)
                            lib.mj_forward(m, d)
                            nstate += 1
                            evaluate(lib, part, m, d, sp, T, Meng, acc0, vel_ref, ctrl, act, h, clamp, mask, tclamp, desc,
                                     dict(rp, qvel=v, mask=mask, clampctrl=clamp, ctrl_phase=cp, act_phase=ap), base, first, acts)
                            first = False
        # actuation disabled: no forces at all
        m.opt.disableflags = flags0 | (1 << 11)
        m.opt.disableactuator = 0
        d.ctrl[:] = 0.6
        lib.mj_forward(m, d)
        if np.any(np.array(d.actuator_force) != 0) or np.any(np.array(d.qfrc_actuator) != 0):
            _viol(part, "actuation disable flag leaves actuator forces", base, rp)
        m.opt.disableflags = flags0
    # ---- one mj_step per (mask, clampctrl, ctrl phase, act phase): activations advance as documented
    step_lattice(lib, part, m, d, sp, qs[min(1, len(qs) - 1)], vs[-1], h, flags0, rp0, base, acts)
    d.free()
    m.free()


def evaluate(lib, part, m, d, sp, T, Meng, acc0, vel_ref, ctrl, act, h, clamp, mask, tclamp, desc, rp, base, first, acts):
    n = sp.n
    tname = rp["transmission"]
    length = np.array(d.actuator_length)
    vel = np.array(d.actuator_velocity)
    force = np.array(d.actuator_force)
    if first:
        e = float(np.max(np.abs(vel - vel_ref))) / (1 + abs(vel_ref))
        if e > TOL:
            _viol(part, "actuator_velocity != moment . qvel [%s]" % tname, "%s: %r vs %r" % (base, float(vel[0]), vel_ref), rp)
    ref = force_reference(sp, length, vel, acc0, ctrl, act, h, clamp, mask)
    okacc = acc0[0] >= 1e-10
    cmp_rows = np.ones(n, bool) if okacc else ~(((sp.gt == "muscle") & (sp.gprm[:, 2] < 0)))
    # act_dot (enabled actuators)
    if m.na:
        ad = np.array(d.act_dot)
        exp = ref["act_dot"][sp.stateful]
        en = ~ref["dis"][sp.stateful]
        err = np.abs(ad - exp) / (1 + np.abs(exp))
        err[~en] = 0
        if np.max(err) > TOL:
            k = int(np.argmax(err))
            i = int(np.nonzero(sp.stateful)[0][k])
            _viol(part, "act_dot differs from the documented activation dynamics [dyn=%s]" % acts[i]["cfg"][2],
                  "%s actuator %d cfg=%s ctrl=%g act=%g: engine %r documented %r" % (base, i, acts[i]["cfg"], ctrl[i], act[k], float(ad[k]), float(exp[k])),
                  dict(rp, actuator=i, cfg=acts[i]["cfg"]))
    # actuator_force (pre joint clamp); tendon-level clamp only when the tendon is limited
    tendon_limited = tclamp and desc["kind"] == "tendon"
    fref = ref["force"]
    if tendon_limited:
        tot = float(np.sum(fref))
        lo, hi = -7.0, 5.0
        tot_eng = float(np.sum(force))
        if lo <= tot <= hi:
            pass
        else:
            # documented: the total actuator force on the tendon is clamped to the range; each actuator stays in forcerange
            tol = 1e-9 * (1 + np.sum(np.abs(force)))
            if tot_eng < lo - tol or tot_eng > hi + tol:
                _viol(part, K_TENDONORDER, "%s: total tendon actuator force %r outside [%g, %g] (pre-clamp total %r)" % (base, tot_eng, lo, hi, tot), rp)
            infr = (~sp.fl) | ((force >= sp.fr[:, 0] - 1e-12) & (force <= sp.fr[:, 1] + 1e-12))
            if not np.all(infr):
                _viol(part, "actuator_force outside forcerange [tendon-limited]", base, rp)
            part.add("tendon_clamp_active")
            fref = None
    if fref is not None:
        err = np.abs(force - fref) / ref["scale"]
        err[~cmp_rows] = 0
        if np.max(err) > TOL:
            attribute_force_error(part, sp, ref, force, length, vel, acc0, ctrl, act, h, clamp, mask, err, rp, base, acts)
    # qfrc_actuator = moment' force (+ actuator gravcomp) then joint clamp
    qf = np.array(d.qfrc_actuator)
    exp = Meng.T @ force
    jl = np.array(m.jnt_actfrclimited).astype(bool)
    gc = np.array(m.jnt_actgravcomp).astype(bool)
    for j in range(m.njnt):
        da = int(m.jnt_dofadr[j])
        nd = (6, 3, 1, 1)[int(m.jnt_type[j])]
        if gc[j]:
            exp[da:da + nd] += np.array(d.qfrc_gravcomp)[da:da + nd]
    unclamped = exp.copy()
    for j in range(m.njnt):
        if jl[j] and int(m.jnt_type[j]) in (2, 3):
            da = int(m.jnt_dofadr[j])
            r = m.jnt_actfrcrange[j]
            exp[da] = min(max(exp[da], r[0]), r[1])
            part.add("joint_clamp_active" if exp[da] != unclamped[da] else "joint_clamp_inactive")
    sc = 1 + float(np.max(np.abs(Meng)) * np.sum(np.abs(force)))
    e = float(np.max(np.abs(qf - exp))) / sc
    if e > TOL:
        _viol(part, "qfrc_actuator != clamp(moment' * actuator_force [+ gravcomp]) [%s]" % tname,
              "%s: engine %s expected %s" % (base, qf.tolist(), exp.tolist()), rp)
    part.count(n, key=None)
    return force != 0


def attribute_force_error(part, sp, ref, force, length, vel, acc0, ctrl, act, h, clamp, mask, err, rp, base, acts):
    """map a force mismatch to ONE canonical key per root cause."""
    n = sp.n
    bad = err > TOL
    # try the deviation variants (attribution only)
    v_fp = force_reference(sp, length, vel, acc0, ctrl, act, h, clamp, mask, muscle_doc=(True, False))
    v_fl = force_reference(sp, length, vel, acc0, ctrl, act, h, clamp, mask, muscle_doc=(False, True))
    v_both = force_reference(sp, length, vel, acc0, ctrl, act, h, clamp, mask, muscle_doc=(False, False))
    ok_fp = np.abs(force - v_fp["force"]) / ref["scale"] <= TOL
    ok_fl = np.abs(force - v_fl["force"]) / ref["scale"] <= TOL
    ok_both = np.abs(force - v_both["force"]) / ref["scale"] <= TOL
    rest = bad.copy()
    w = np.zeros(n)
    w[sp.stateful] = act
    for flag, key in ((bad & ok_fp, K_FP), (bad & ok_fl & ~ok_fp, K_FL), (bad & ok_both & ~ok_fp & ~ok_fl, None)):
        if np.any(flag):
            i = int(np.nonzero(flag)[0][0])
            what = "%s actuator %d cfg=%s length=%g velocity=%g ctrl=%g act=%g: engine force %r documented %r" % (
                base, i, acts[i]["cfg"], length[i], vel[i], ctrl[i], w[i], float(force[i]), float(ref["force"][i]))
            if key is None:
                _viol(part, K_FP, what, dict(rp, actuator=i, cfg=acts[i]["cfg"]))
                _viol(part, K_FL, what, dict(rp, actuator=i, cfg=acts[i]["cfg"]))
            else:
                _viol(part, key, what, dict(rp, actuator=i, cfg=acts[i]["cfg"]))
            rest &= ~flag
    if np.any(rest):
        i = int(np.nonzero(rest)[0][0])
        _viol(part, "actuator_force differs from the documented law [gain=%s bias=%s dyn=%s cl=%d fl=%d al=%d early=%d]" % acts[i]["cfg"],
              "%s actuator %d length=%g velocity=%g ctrl=%g act=%g mask=%d clampctrl=%s: engine %r documented %r (gain %r x %r + bias %r)" % (
                  base, i, length[i], vel[i], ctrl[i], w[i], mask, clamp, float(force[i]), float(ref["force"][i]),
                  float(ref["gain"][i]), float(ref["x"][i]), float(ref["bias"][i])), dict(rp, actuator=i, cfg=acts[i]["cfg"]))


def step_lattice(lib, part, m, d, sp, q, v, h, flags0, rp0, base, acts):
    if not m.na:
        return
    n = sp.n
    for mask in M.MASKS:
        for clamp in (True, False):
            for cp in range(4):
                for ap in range(4):
                    ctrl = np.array([M.CTRLS[(i + cp) % 4] for i in range(n)])
                    act = np.array([M.ACTS[(i + ap + (i // 4)) % 4] for i in range(int(m.na))])
                    lib.mj_resetData(m, d)
                    d.qpos[:] = q
                    d.qvel[:] = v
                    d.ctrl[:] = ctrl
                    d.act[:] = act
                    m.opt.disableactuator = mask
                    m.opt.disableflags = flags0 | (0 if clamp else 1 << 8)
                    lib.mj_step(m, d)
                    got = np.array(d.act)
                    ref = force_reference(sp, np.zeros(n), np.zeros(n), np.ones(n), ctrl, act, h, clamp, mask)
                    exp = ref["wnext"][sp.stateful]
                    dis = ref["dis"][sp.stateful]
                    al = sp.al[sp.stateful]
                    ar = sp.ar[sp.stateful]
                    # disabled groups: "activation states will not be integrated"
                    exp = np.where(dis, np.where(al, np.clip(act, ar[:, 0], ar[:, 1]), act), exp)
                    err = np.abs(got - exp) / (1 + np.abs(exp))
                    rp = dict(rp0, qpos=q, qvel=v, mask=mask, clampctrl=clamp, ctrl_phase=cp, act_phase=ap, step=True)
                    if np.max(err) > TOL:
                        k = int(np.argmax(err))
                        i = int(np.nonzero(sp.stateful)[0][k])
                        _viol(part, "activation after mj_step differs from the documented update [dyn=%s early=%d actlimited=%d]" % (
                            acts[i]["cfg"][2], acts[i]["cfg"][6], acts[i]["cfg"][5]),
                            "%s actuator %d cfg=%s ctrl=%g act=%g: engine %r documented %r" % (base, i, acts[i]["cfg"], ctrl[i], act[k], float(got[k]), float(exp[k])),
                            dict(rp, actuator=i, cfg=acts[i]["cfg"]))
                    out = al & ((got < ar[:, 0]) | (got > ar[:, 1]))
                    if np.any(out):
                        _viol(part, "activation outside actrange after mj_step", base, rp)
                    part.count(int(m.na))
    m.opt.disableactuator = 0
    m.opt.disableflags = flags0


def _chunkA(chunk):
    lib = mj.load()
    part = core.Part()
    for item, thorough in chunk:
        try:
            partA_model(lib, part, item, thorough)
        except mj.MjError as e:
            part.violation("engine error in part A [%s]" % item[0], "unexpected mju_error / compile error: %s" % e,
                           {"item": [item[0], item[1], item[2], item[3], item[5]]})
    return part


def run(ctx):
    mj.load()
    items = []
    for (tname, root, target, gear, desc) in M.transmissions(ctx.thorough):
        for tclamp in (0, 1):
            items.append(((tname, root, target, gear, desc, tclamp), ctx.thorough))
    core.pmap(ctx, _chunkA, items, nchunks=len(items))
    ctx.extra["partA_models"] = len(items)
    ctx.rule = "TODO"
