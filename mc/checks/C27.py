"""C27 Actuation follows the documented transmission and force laws.

Part A  full product transmission menu x {gain x bias x dyn x ctrllimited x forcelimited x actlimited x actearly}
        (all per-actuator combinations live as separate actuators of one model per transmission) x joint/tendon
        actuatorfrcrange on/off x runtime lattice {group-disable masks x clampctrl x ctrl x act x state}.
Part B  pure muscle functions on a dense parameter/branch lattice.
Part C  shortcuts (motor/position/velocity/intvelocity/damper/cylinder/muscle/adhesion/pid/orientation/dcmotor) ->
        documented general-actuator settings and their force laws, inheritrange, dampratio, circle-wrapped servos.
Part D  joint- and tendon-level force clamps with 1-2 actuators per target.
Oracle: numpy reference written from the documentation (mc/checks/_c27_ref.py).
"""
import math

import numpy as np

from .. import core, mj
from ..mjutil import dense, relerr
from . import _c27_models as M
from . import _c27_ref as R

LEVEL = "exploration"
META = dict(
    category=LEVEL,
    technique="exhaustive enumeration of an actuator-configuration lattice (full product, schema-pruned) with a numpy "
              "reference model written from the documentation",
    text="Every combination transmission x gain x bias x dynamics x limit flags x actearly x group-disable x clampctrl x "
         "ctrl x act lattice is compiled by the tree's compiler and evaluated by mj_forward / mj_step; lengths, moment arms "
         "(virtual work / finite differences of frames), act_dot, next activations, actuator_force, qfrc_actuator and the "
         "joint/tendon force clamps are recomputed independently. Exhaustive over the stated lattice, so a law that is "
         "wrong only for one combination (e.g. actearly + filterexact + actlimited, or a refsite on a moving body) cannot hide.",
    note="Reference uses mjData frames (xpos/xmat/site_xpos/site_xmat: C07) and qfrc_gravcomp (C29), never engine Jacobians. "
         "Not covered: dcmotor electrical/thermal/LuGre states (specified only in a PDF technical note), user callbacks "
         "(gain/bias/dyn type 'user'), actuator plugins (C51), ctrl history delay/interp, sleeping actuators, "
         "flex contacts in body transmission, tendon wrapping geometry (lengths of wrapped tendons).",
    design_ref="DESIGN.md §3 C27")

TOL = 1e-9          # algebraic laws (observed noise <= 1e-15 relative)
TOL_FD = 2e-6       # quantities compared with central finite differences (observed <= 1.1e-8)

K_REFSITE = ("site+refsite (translational gear): actuator_moment is not the gradient of actuator_length when the "
             "refsite frame rotates relative to the site")
K_REFROT = ("site+refsite (rotational gear): actuator_length is computed from site_quat*xquat (wrong multiplication order), "
            "not from the sites' world orientations")
K_FP = "muscle bias: passive force curve FP differs from the documented one (FP(lmax)=1.5*fpmax instead of fpmax)"
K_FL = "muscle gain: active force-length curve FL lacks the documented secondary bump 0.15*bump(L,lmin,(lmin+0.95)/2,0.95)"
K_BODYGEAR = "body transmission ignores gear (documented: gear scales length and moment arms for all transmission types)"
K_ACTWRAP = ("integrated-velocity servo on a rotational transmission: re-anchoring the setpoint on the circle moves act outside "
             "actrange although actlimited is true")
K_PID2 = ("pid: integral action (ki) together with slewmax is rejected by the compiler (actdim > 1), although the documentation "
          "describes both controller states in the order [slew, integral]")
K_TENDONAUTO = ("tendon actuatorfrclimited defaults to 'false' (documented default 'auto'): actuatorfrcrange alone does not "
                "enable the tendon-level clamp")
K_TENDONORDER = ("tendon actuatorfrcrange is applied before the actuator forcerange clamp: total actuator force on the "
                 "tendon leaves tendon actuatorfrcrange")


# ====================================================================== vectorised force-law reference

def _bump(L, A, mid, B):
    left = 0.5 * (A + mid)
    right = 0.5 * (mid + B)
    with np.errstate(all="ignore"):
        y = np.select([(L <= A) | (L >= B), L < left, L < mid, L < right],
                      [0.0, 0.5 * ((L - A) / (left - A)) ** 2, 1 - 0.5 * ((mid - L) / (mid - left)) ** 2,
                       1 - 0.5 * ((L - mid) / (right - mid)) ** 2], 0.5 * ((B - L) / (B - right)) ** 2)
    return y


def _muscle_LV(length, vel, lr, prm):
    with np.errstate(all="ignore"):     # rows that are not muscles carry zero parameters; their values are never selected
        L0 = (lr[:, 1] - lr[:, 0]) / (prm[:, 1] - prm[:, 0])
        LT = lr[:, 0] - prm[:, 0] * L0
        return (length - LT) / L0, vel / L0 / prm[:, 6]


def _F0(acc0, prm):
    with np.errstate(all="ignore"):
        return np.where(prm[:, 2] >= 0, prm[:, 2], prm[:, 3] / acc0)


def muscle_gain_v(length, vel, lr, acc0, prm, doc=True):
    L, V = _muscle_LV(length, vel, lr, prm)
    lmin, lmax, fvmax = prm[:, 4], prm[:, 5], prm[:, 8]
    FL = _bump(L, lmin, 1.0, lmax)
    if doc:
        FL = FL + 0.15 * _bump(L, lmin, 0.5 * (lmin + 0.95), 0.95)
    c = fvmax - 1
    with np.errstate(all="ignore"):
        FV = np.select([V <= -1, V <= 0, V <= c], [0.0, (V + 1) ** 2, fvmax - (c - V) ** 2 / c], fvmax)
    return -_F0(acc0, prm) * FL * FV


def muscle_bias_v(length, lr, acc0, prm, doc=True):
    L, _ = _muscle_LV(length, 0 * length, lr, prm)
    lmax, fpmax = prm[:, 5], prm[:, 7]
    b = 0.5 * (1 + lmax)
    x1 = (L - 1) / (b - 1)
    x2 = (L - b) / (b - 1)
    if doc:
        FP = np.select([L <= 1, L <= b], [0.0, 0.25 * fpmax * x1 ** 3], 0.25 * fpmax * (1 + 3 * x2))
    else:
        FP = np.select([L <= 1, L <= b], [0.0, 0.5 * fpmax * x1 ** 2], fpmax * (0.5 + x2))
    return -_F0(acc0, prm) * FP


def _sigmoid(x):
    x = np.clip(x, 0.0, 1.0)
    return 6 * x ** 5 - 15 * x ** 4 + 10 * x ** 3


def muscle_dyn_v(u, w, prm):
    u = np.clip(u, 0.0, 1.0)
    a = np.clip(w, 0.0, 1.0)
    tau_act = prm[:, 0] * (0.5 + 1.5 * a)
    tau_deact = prm[:, 1] / (0.5 + 1.5 * a)
    dctrl = u - w
    width = prm[:, 2]
    with np.errstate(all="ignore"):
        smooth = tau_deact + (tau_act - tau_deact) * _sigmoid(dctrl / np.where(width > 0, width, 1.0) + 0.5)
    tau = np.where(width > 0, smooth, np.where(dctrl > 0, tau_act, tau_deact))
    return dctrl / tau


class Spec:
    """per-actuator documented parameters as arrays (SISO general actuators)."""

    def __init__(self, acts):
        n = len(acts)
        self.n = n
        self.gt = np.array([a["gt"] for a in acts])
        self.bt = np.array([a["bt"] for a in acts])
        self.dt = np.array([a["dt"] for a in acts])
        self.gprm = np.zeros((n, 10))
        self.bprm = np.zeros((n, 10))
        self.dprm = np.zeros((n, 10))
        self.dprm[:, 0] = 1.0          # documented default dynprm "1 0 ... 0"
        for i, a in enumerate(acts):
            self.gprm[i, :len(a["gprm"])] = a["gprm"]
            self.bprm[i, :len(a["bprm"])] = a["bprm"]
            if a["dprm"]:
                self.dprm[i, :len(a["dprm"])] = a["dprm"]
        self.cl = np.array([a["cl"] for a in acts], bool)
        self.fl = np.array([a["fl"] for a in acts], bool)
        self.al = np.array([a["al"] for a in acts], bool)
        self.early = np.array([a["early"] for a in acts], bool)
        self.cr = np.array([a["cr"] for a in acts], float).reshape(n, 2)
        self.fr = np.array([a["fr"] for a in acts], float).reshape(n, 2)
        self.ar = np.array([a["ar"] for a in acts], float).reshape(n, 2)
        self.lr = np.array([a["lr"] for a in acts], float).reshape(n, 2)
        self.group = np.array([a.get("group", 0) for a in acts])
        self.period = np.array([a.get("period", 0.0) for a in acts], float)   # circle-wrapped servo setpoints
        self.stateful = self.dt != "none"
        self.actadr = np.cumsum(self.stateful) - 1      # activations are laid out in actuator order

    def disabled(self, mask):
        g = self.group
        ok = (g >= 0) & (g <= 30)
        return ok & (((mask >> np.clip(g, 0, 30)) & 1) == 1)


def force_reference(sp, length, vel, acc0, ctrl, act, h, clampctrl, mask, muscle_doc=(True, True)):
    """documented SISO law.  Returns dict(u, act_dot, wnext, x, gain, bias, force_raw, force)."""
    u = np.where(sp.cl & clampctrl, np.clip(ctrl, sp.cr[:, 0], sp.cr[:, 1]), ctrl)
    w = np.zeros(sp.n)
    w[sp.stateful] = act
    tau = sp.dprm[:, 0]
    with np.errstate(all="ignore"):
        act_dot = np.select([sp.dt == "integrator", (sp.dt == "filter") | (sp.dt == "filterexact"), sp.dt == "muscle"],
                            [u, (u - w) / tau, muscle_dyn_v(u, w, sp.dprm)], 0.0)
        wnext = np.where(sp.dt == "filterexact", w + (u - w) * (1 - np.exp(-h / tau)), w + h * act_dot)
    wnext = np.where(sp.al, np.clip(wnext, sp.ar[:, 0], sp.ar[:, 1]), wnext)
    x = np.where(sp.stateful, np.where(sp.early, wnext, w), u)
    if np.any(sp.period > 0):
        # rotational servos: the setpoint is a point on the circle, the servo drives to its nearest representative
        per = np.where(sp.period > 0, sp.period, 1.0)
        x = np.where(sp.period > 0, x - per * np.round((x - length) / per), x)
    gain = np.select([sp.gt == "fixed", sp.gt == "affine"],
                     [sp.gprm[:, 0], sp.gprm[:, 0] + sp.gprm[:, 1] * length + sp.gprm[:, 2] * vel],
                     muscle_gain_v(length, vel, sp.lr, acc0, sp.gprm, muscle_doc[0]))
    bias = np.select([sp.bt == "none", sp.bt == "affine"],
                     [0.0, sp.bprm[:, 0] + sp.bprm[:, 1] * length + sp.bprm[:, 2] * vel],
                     muscle_bias_v(length, sp.lr, acc0, sp.bprm, muscle_doc[1]))
    raw = gain * x + bias
    dis = sp.disabled(mask)
    force = np.where(sp.fl, np.clip(raw, sp.fr[:, 0], sp.fr[:, 1]), raw)
    force = np.where(dis, 0.0, force)
    scale = 1 + np.abs(gain * x) + np.abs(bias)
    wrap_edge = np.zeros(sp.n, bool)
    wrapped = np.zeros(sp.n, bool)
    if np.any(sp.period > 0):
        xr = np.where(sp.stateful, np.where(sp.early, wnext, w), u)
        wrapped = (sp.period > 0) & (xr != x)
        fr = np.abs(np.mod((xr - length) / np.where(sp.period > 0, sp.period, 1.0), 1.0) - 0.5)
        wrap_edge = (sp.period > 0) & (fr < 1e-6)          # setpoint diametrically opposite: either representative
    return dict(u=u, act_dot=act_dot, wnext=wnext, x=x, gain=gain, bias=bias, raw=raw, force=force, dis=dis, scale=scale,
                wrap_edge=wrap_edge, wrapped=wrapped)


# ====================================================================== transmission reference

def _id(lib, m, objtype, name):
    i = lib.mj_name2id(m, objtype, name.encode())
    if i < 0:
        raise RuntimeError("name not found: " + name)
    return i


def common_ancestor_dofs(m, b0, b1):
    """dofs that move both bodies (dofs of joints on the chain of the deepest common ancestor body)."""
    def chain(b):
        out = []
        while b > 0:
            out.append(b)
            b = int(m.body_parentid[b])
        return out
    c0, c1 = chain(b0), chain(b1)
    common = [b for b in c0 if b in c1]
    dofs = []
    for b in common:
        a, n = int(m.body_dofadr[b]), int(m.body_dofnum[b])
        dofs += list(range(a, a + n))
    return dofs


def ref_transmission(lib, m, d, F, desc, gear, part=None):
    """documented (length, moment[nv]) of one scalar transmission at the configuration of Frames F.
    returns dict(length, moment, alt=..., skip=reason or None)"""
    nv = m.nv
    g = np.zeros(6)
    g[:len(gear)] = gear
    kind = desc["kind"]
    out = dict(alt=None, skip=None)
    if kind == "joint":
        j = _id(lib, m, 3, desc["jnt"])
        jt = int(m.jnt_type[j])
        qa, da = int(m.jnt_qposadr[j]), int(m.jnt_dofadr[j])
        b = int(m.jnt_bodyid[j])
        mom = np.zeros(nv)
        if jt in (2, 3):
            out["length"] = g[0] * F.q[qa]
            mom[da] = g[0]
        elif jt == 1:
            # torque about the gear axis, given in the child (joint) or parent (jointinparent) frame;
            # length = gear . angle-axis of the joint quaternion
            out["length"] = float(np.dot(g[:3], R.quat2expmap(F.q[qa:qa + 4])))
            Rf = F.xmat[int(m.body_parentid[b])] if desc["inparent"] else F.xmat[b]
            mom = (Rf @ g[:3]) @ F.Wx[b]
            ang = 2 * math.atan2(np.linalg.norm(F.q[qa + 1:qa + 4]), abs(F.q[qa]))
            if abs(ang - math.pi) < 1e-6:
                out["skip_length"] = "ball angle at the wrap pi"
        else:
            # translation axis in the world frame, rotation axis in the child frame (joint) / world frame (inparent)
            out["length"] = 0.0
            axis = g[3:6] if desc["inparent"] else F.xmat[b] @ g[3:6]
            mom = g[:3] @ F.dxpos[b] + axis @ F.Wx[b]
        out["moment"] = mom
    elif kind == "tendon":
        fn = tendon_length_fn(lib, m, desc["ten"])
        out["length"] = g[0] * fn(F.q, F.xpos, F.xmat, F.spos, F.smat)
        out["moment"] = g[0] * F.fd(fn)
    elif kind == "site":
        s = _id(lib, m, 6, desc["site"])
        if desc["ref"] is None:
            out["length"] = 0.0
            out["moment"] = (F.smat[s] @ g[:3]) @ F.dspos[s] + (F.smat[s] @ g[3:]) @ F.Ws[s]
        else:
            r = _id(lib, m, 6, desc["ref"])

            def tl(q, xpos, xmat, spos, smat):
                return float(g[:3] @ (smat[r].T @ (spos[s] - spos[r])))
            rot = R.mat2expmap(F.smat[r].T @ F.smat[s])
            out["length"] = tl(F.q, F.xpos, F.xmat, F.spos, F.smat) + float(g[3:] @ rot)
            mrot = (F.smat[r] @ g[3:]) @ (F.Ws[s] - F.Ws[r])
            out["moment"] = F.fd(tl) + mrot
            # attribution only: force at the site, reaction at the refsite origin (no lever-arm term)
            alt = (F.smat[r] @ g[:3]) @ (F.dspos[s] - F.dspos[r])
            alt[common_ancestor_dofs(m, int(m.site_bodyid[s]), int(m.site_bodyid[r]))] = 0.0
            out["alt"] = alt + mrot
            if np.any(g[3:]) and abs(np.linalg.norm(rot) - math.pi) < 1e-6:
                out["skip_length"] = "relative rotation at the wrap pi"
            # attribution only: orientation "quaternions" multiplied in the wrong order (local * body)
            from ..mjutil import quat_mul
            wq = [quat_mul(np.array(m.site_quat[k]), np.array(d.xquat[int(m.site_bodyid[k])])) for k in (s, r)]
            rel = quat_mul(wq[1] * np.array([1, -1, -1, -1.0]), wq[0])
            out["alt_length"] = tl(F.q, F.xpos, F.xmat, F.spos, F.smat) + float(g[3:] @ R.quat2expmap(rel))
    elif kind == "crank":
        c = _id(lib, m, 6, desc["crank"])
        s = _id(lib, m, 6, desc["slider"])
        rod = desc["rod"]

        def parts(spos, smat):
            a = smat[s][:, 2]
            v = spos[c] - spos[s]
            av = float(a @ v)
            return av, av * av + rod * rod - float(v @ v)
        av, det = parts(F.spos, F.smat)
        if det <= 1e-9:
            out["skip"] = "slider-crank rod cannot reach (det<=0): undefined by the documentation"
            return out
        out["roots"] = (g[0] * (av - math.sqrt(det)), g[0] * (av + math.sqrt(det)))
        out["crankfn"] = lambda sign: (lambda q, xpos, xmat, spos, smat: g[0] * (parts(spos, smat)[0] + sign * math.sqrt(parts(spos, smat)[1])))
        out["F"] = F
    elif kind == "body":
        b = _id(lib, m, 1, desc["body"])
        con = d.contact
        mom = np.zeros(nv)
        n = 0
        for c in con:
            g1, g2 = int(c["geom"][0]), int(c["geom"][1])
            if g1 < 0 or g2 < 0:
                continue
            b1, b2 = int(m.geom_bodyid[g1]), int(m.geom_bodyid[g2])
            if b1 != b and b2 != b:
                continue
            if int(c["exclude"]) not in (0, 1):
                continue
            n += 1
            out["ngap"] = out.get("ngap", 0) + int(int(c["exclude"]) == 1)
            p = np.array(c["pos"])
            nrm = np.array(c["frame"][:3])
            v2 = F.dxpos[b2] + np.cross(F.Wx[b2].T, p - F.xpos[b2]).T
            v1 = F.dxpos[b1] + np.cross(F.Wx[b1].T, p - F.xpos[b1]).T
            mom += nrm @ (v2 - v1)
        out["ncon"] = n
        out["length"] = 0.0
        # adhesion pulls the two bodies together, equally divided between the contacts; gear scales moment arms
        out["moment"] = -g[0] * mom / n if n else mom
        out["alt"] = -mom / n if n else mom
    return out


def tendon_length_fn(lib, m, name):
    if name == "tf":
        t = lib.mj_name2id(m, 18, b"tf")
        adr, num = int(m.tendon_adr[t]), int(m.tendon_num[t])
        ids = [int(m.wrap_objid[adr + k]) for k in range(num)]
        coefs = [1.3, -0.7] if num == 2 else [-0.7]
        qadr = [int(m.jnt_qposadr[j]) for j in ids]
        return lambda q, xpos, xmat, spos, smat: float(sum(c * q[a] for c, a in zip(coefs, qadr)))
    s = [lib.mj_name2id(m, 6, n) for n in (b"sw", b"s0", b"s1")]
    return lambda q, xpos, xmat, spos, smat: float(np.linalg.norm(spos[s[1]] - spos[s[0]]) + np.linalg.norm(spos[s[2]] - spos[s[1]]))


# ====================================================================== generic model runner

_B1 = '<mujoco><worldbody><body><joint name="j" type="%s"/><geom size="0.1"/></body></worldbody>%s</mujoco>'
MINIMAL = {
    # canonical key -> smallest input that shows it (all reproduced against the tree), observed vs documented
    "K_REFROT": dict(
        xml='<mujoco><worldbody><site name="ref"/><body quat="0.7071067811865476 0.7071067811865476 0 0"><joint type="hinge" axis="0 0 1"/>'
            '<geom size="0.1"/><site name="s" quat="0.7071067811865476 0 0.7071067811865476 0"/></body></worldbody><actuator>'
            '<general site="s" refsite="ref" gear="0 0 0 0 0 1"/></actuator></mujoco>',
        call="mj_forward at qpos0", observed="actuator_length = -1.2092", documented="+1.2092 (z-component of the rotation vector of s in ref, "
        "framequat sensor gives (0.5,0.5,0.5,0.5))"),
    "K_REFSITE": dict(
        xml='<mujoco><worldbody><site name="s" pos="1 0 0"/><body><joint type="hinge" axis="0 0 1"/><geom size="0.1"/><site name="ref"/></body>'
            '</worldbody><actuator><general site="s" refsite="ref" gear="1 0 0 0 0 0"/></actuator></mujoco>',
        call="mj_forward at qpos=[0.5]", observed="actuator_length = cos(0.5), actuator_moment = 0 (empty row)", documented="moment = d length/dq = -sin(0.5)"),
    "K_TENDONORDER": dict(
        xml=_B1 % ("slide", '<tendon><fixed name="t" actuatorfrclimited="true" actuatorfrcrange="-1 1"><joint joint="j" coef="1"/></fixed></tendon>'
                            '<actuator><motor tendon="t"/><motor tendon="t" forcerange="-1 1"/></actuator>'),
        call="mj_forward with ctrl=[10,-8]", observed="actuator_force = [5,-1], total 4", documented="total actuator force on the tendon within [-1,1]"),
    "K_TENDONAUTO": dict(
        xml=_B1 % ("slide", '<tendon><fixed name="t" actuatorfrcrange="-1 1"><joint joint="j" coef="1"/></fixed></tendon><actuator><motor tendon="t"/></actuator>'),
        call="mj_forward with ctrl=[3]", observed="tendon_actfrclimited=0, qfrc_actuator=3", documented="actuatorfrclimited default 'auto' -> limited, qfrc_actuator=1"),
    "K_BODYGEAR": dict(
        xml='<mujoco><worldbody><geom type="plane" size="1 1 .1"/><body name="b" pos="0 0 0.09"><joint type="slide" axis="0 0 1"/><geom size="0.1"/></body>'
            '</worldbody><actuator><general body="b" gear="1"/><general body="b" gear="2"/></actuator></mujoco>',
        call="mj_forward", observed="actuator_moment = [-1,-1]", documented="gear scales the moment arms for all transmission types: [-1,-2]"),
    "K_PID2": dict(xml=_B1 % ("hinge", '<actuator><pid joint="j" kp="1" ki="1" slewmax="1"/></actuator>'), call="compile",
                   observed="Error: actdim > 1 is only allowed for dyntype 'user' and 'dcmotor'", documented="two activation states [slew, integral]"),
    "K_ACTWRAP": dict(
        xml=_B1 % ("ball", '<actuator><intvelocity joint="j" gear="1 0 0" kp="1" actrange="-0.2 0.9"/></actuator>'),
        call="qpos = rotation by 0.97*pi about x, act=[-0.2], ctrl=[0], mj_step", observed="act = 6.0832", documented="act stays in actrange [-0.2,0.9]"),
    "K_FP": dict(call="mju_muscleBias(len=1.6, lengthrange=(0.75,1.05), acc0=1, prm=(0.75,1.05,1,200,0.5,1.6,1.5,1.3,1.2))",
                 observed="-1.95 = -1.5*fpmax*F0", documented="-1.3 = -fpmax*F0 at L=lmax (attribute fpmax, FLV.m, figure)"),
    "K_FL": dict(call="mju_muscleGain(len=0.725, vel=0, lengthrange=(0.75,1.05), acc0=1, prm=(0.75,1.05,1,200,0.5,1.6,1.5,1.3,1.2))",
                 observed="-0.405", documented="-0.555 = -(bump(L,lmin,1,lmax) + 0.15*bump(L,lmin,(lmin+0.95)/2,0.95)) (FLV.m, figure)"),
}


def _viol(part, key, what, rp):
    if any(v["key"] == key for v in part["violations"]):
        return
    for name, mn in MINIMAL.items():
        if globals().get(name) == key:
            rp = dict(rp or {}, minimal=mn)
    part.violation(key, what, rp)


def check_compiled(m, sp):
    """the compiler stores what the MJCF / the documented shortcut table says."""
    n = sp.n
    bad = []
    if not (m.nactuator == n and m.nu == n and m.nout == n and m.na == int(sp.stateful.sum())):
        return ["sizes nactuator=%d nu=%d nout=%d na=%d" % (m.nactuator, m.nu, m.nout, m.na)]
    exp = [("actuator_gaintype", np.array([M.GAIN[x] for x in sp.gt])), ("actuator_biastype", np.array([M.BIAS[x] for x in sp.bt])),
           ("actuator_dyntype", np.array([M.DYN[x] for x in sp.dt])), ("actuator_ctrllimited", sp.cl), ("actuator_forcelimited", sp.fl),
           ("actuator_actlimited", sp.al), ("actuator_actearly", sp.early), ("actuator_group", sp.group),
           ("actuator_actnum", sp.stateful.astype(int)), ("actuator_actadr", np.where(sp.stateful, sp.actadr, -1)),
           ("actuator_ctrladr", np.arange(n)), ("actuator_outadr", np.arange(n)), ("actuator_ctrlnum", np.ones(n)),
           ("actuator_outnum", np.ones(n))]
    for name, e in exp:
        got = np.array(getattr(m, name)).astype(float).reshape(-1)
        if not np.array_equal(got, np.asarray(e).astype(float).reshape(-1)):
            bad.append(name)
    for name, e, mask in (("actuator_gainprm", sp.gprm, None), ("actuator_biasprm", sp.bprm, None),
                          ("actuator_dynprm", sp.dprm, sp.stateful), ("actuator_ctrlrange", sp.cr, sp.cl),
                          ("actuator_forcerange", sp.fr, sp.fl), ("actuator_actrange", sp.ar, sp.al)):
        got = np.array(getattr(m, name))
        rows = np.ones(n, bool) if mask is None else mask
        k = e.shape[1]
        if np.max(np.abs(got[rows][:, :k] - e[rows]) / (1 + np.abs(e[rows])), initial=0.0) > 1e-12:
            bad.append(name)
    musc = (sp.gt == "muscle") | (sp.bt == "muscle")
    if np.any(musc) and not np.array_equal(np.array(m.actuator_lengthrange)[musc], sp.lr[musc]):
        bad.append("actuator_lengthrange")
    return bad


def phases(n, na, cp, ap):
    ctrl = np.array([M.CTRLS[(i + cp) % 4] for i in range(n)])
    act = np.array([M.ACTS[(i + ap + (i // 4)) % 4] for i in range(na)])
    return ctrl, act


def run_model(lib, part, label, xml, acts, desc, gear_s, qs, vs, tclamp, rp0, masks=M.MASKS, ctrls=None, exp_mask=M.MASKS[2]):
    """compile `xml` (actuators `acts`, all on the transmission `desc`) and enumerate the runtime lattice."""
    gear = [float(x) for x in gear_s.split()]
    kind = desc["kind"]
    m = lib.load_xml(xml)
    d = lib.make_data(m)
    for a in acts:
        if "dampratio" in a:
            # documented: kv = dampratio * 2 sqrt(kp * m), m = mass at qpos0 incl. armature, reflected through gear^2
            Mfull = np.zeros((m.nv, m.nv))
            d.qpos[:] = np.array(m.qpos0)
            lib.mj_forward(m, d)
            lib.mj_fullM(m, d, Mfull)
            dof = int(m.jnt_dofadr[_id(lib, m, 3, desc["jnt"])])
            mass = Mfull[dof, dof] / gear[0] ** 2
            a["bprm"] = [0.0, -a["gprm"][0], -a["dampratio"] * 2 * math.sqrt(a["gprm"][0] * mass)]
    sp = Spec(acts)
    n, nv, h, na = sp.n, m.nv, M.TIMESTEP, int(m.na)
    for b in check_compiled(m, sp):
        _viol(part, "compiled actuator field differs from the MJCF / documented shortcut table: %s [%s]" % (b, label.split("|")[0]),
              "%s: %s (first rows: engine %s)" % (label, b, np.array(getattr(m, b) if hasattr(m, b) else 0)[:3].tolist() if b.startswith("actuator_") else ""),
              dict(rp0, xml=xml if len(xml) < 6000 else xml[:6000]))
    if sp.n != m.nactuator:
        d.free()
        m.free()
        return
    if int(m.opt.disableactuator) != exp_mask:
        _viol(part, "option actuatorgroupdisable not compiled to the documented bitfield",
              "%s: disableactuator=%d expected %d" % (label, int(m.opt.disableactuator), exp_mask), rp0)
    flags0 = int(m.opt.disableflags)
    jl = np.array(m.jnt_actfrclimited).astype(bool)
    exp_jl = np.array([bool(tclamp) and t in (2, 3) for t in np.array(m.jnt_type)])
    if not np.array_equal(jl, exp_jl):
        _viol(part, "joint actuatorfrclimited: compiled flag differs from the documentation (scalar joints only)",
              "%s: jnt_actfrclimited=%s expected %s" % (label, jl.tolist(), exp_jl.tolist()), rp0)
    acc0_checked = False
    nz = np.zeros(n, bool)
    for qi, q in enumerate(qs):
        d.qvel[:] = 0
        m.opt.disableflags = flags0
        m.opt.disableactuator = 0
        d.ctrl[:] = 0
        if na:
            d.act[:] = 0
        F = R.Frames(lib, m, d, q)
        d.qpos[:] = q
        lib.mj_forward(m, d)
        T = ref_transmission(lib, m, d, F, desc, gear)
        rp = dict(rp0, qpos=q)
        if T["skip"]:
            part.add("boundary_excluded")
            continue
        length = np.array(d.actuator_length)
        Meng = dense(d.moment_rownnz, d.moment_rowadr, d.moment_colind, d.actuator_moment, n, nv)
        if kind == "crank":
            l0 = float(length[0])
            r0, r1 = T["roots"]
            sign = -1.0 if abs(l0 - r0) <= abs(l0 - r1) else 1.0
            T["length"] = r0 if sign < 0 else r1
            T["moment"] = F.fd(T["crankfn"](sign))
            part.add("crank_root_%s" % ("minus" if sign < 0 else "plus"))
        # ---- lengths (all rows share the transmission)
        if "skip_length" in T:
            part.add("boundary_excluded")
        else:
            sc = 1 + abs(T["length"])
            e = float(np.max(np.abs(length - T["length"]))) / sc
            if e > TOL * 10:
                if "alt_length" in T and float(np.max(np.abs(length - T["alt_length"]))) / sc <= TOL * 10:
                    _viol(part, K_REFROT, "%s q#%d: engine length %r, gear . expmap(R_ref' R_site) = %r" % (label, qi, float(length[0]), T["length"]), rp)
                else:
                    _viol(part, "actuator_length differs from the documented length [%s]" % label.split("|")[0],
                          "%s q#%d: engine %r documented %r" % (label, qi, float(length[0]), T["length"]), rp)
        # ---- moment arms
        mref = T["moment"]
        sc = 1e-9 + max(np.max(np.abs(mref)), np.max(np.abs(Meng)))
        e = float(np.max(np.abs(Meng - mref[None, :]))) / sc
        if e > TOL_FD:
            if T["alt"] is not None and np.max(np.abs(Meng - T["alt"][None, :])) / sc <= TOL_FD:
                if kind == "body":
                    _viol(part, K_BODYGEAR, "%s q#%d: moment equals the gear=1 moment, gear=%s (rel err %.3g)" % (label, qi, gear_s, e), rp)
                else:
                    _viol(part, K_REFSITE, "%s q#%d: engine moment %s, d(length)/dq %s" % (
                        label, qi, np.round(Meng[0], 6).tolist(), np.round(mref, 6).tolist()), rp)
            else:
                _viol(part, "actuator_moment differs from the documented moment arms [%s]" % label.split("|")[0],
                      "%s q#%d: rel err %.3g engine %s reference %s" % (label, qi, e, np.round(Meng[0], 6).tolist(), np.round(mref, 6).tolist()), rp)
        if kind == "body":
            part.add("body_states_with_%d_contacts" % min(T["ncon"], 5))
            if T.get("ngap"):
                part.add("body_states_with_gap_contacts_%s" % ("only" if T["ngap"] == T["ncon"] else "mixed"))
        # acc0 (documented: norm of the joint acceleration caused by a unit actuator force at qpos0)
        if not acc0_checked and kind != "body" and np.array_equal(q, np.array(m.qpos0)):
            acc0_checked = True
            Mfull = np.zeros((nv, nv))
            lib.mj_fullM(m, d, Mfull)
            a0 = float(np.linalg.norm(np.linalg.solve(Mfull, Meng[0])))
            got = np.array(m.actuator_acc0)
            if np.max(np.abs(got - a0)) > 1e-8 * (1 + a0):
                _viol(part, "actuator_acc0 differs from |M^-1 moment| at qpos0 [%s]" % label.split("|")[0],
                      "%s: %r vs %r" % (label, float(got[0]), a0), rp)
        acc0 = np.array(m.actuator_acc0)
        for vi, v in enumerate(vs):
            vel_ref = float(Meng[0] @ v)
            first = True
            for mask in masks:
                for clamp in (True, False):
                    for cp in range(len(ctrls) if ctrls else 4):
                        for ap in range(4 if na else 1):
                            ctrl, act = phases(n, na, cp, ap)
                            if ctrls:
                                ctrl = np.array(ctrls[cp], float)
                            d.qpos[:] = q
                            d.qvel[:] = v
                            d.ctrl[:] = ctrl
                            if na:
                                d.act[:] = act
                            m.opt.disableactuator = mask
                            m.opt.disableflags = flags0 | (0 if clamp else 1 << 8)
                            lib.mj_forward(m, d)
                            nz |= evaluate(part, m, d, sp, Meng, acc0, vel_ref, ctrl, act, h, clamp, mask, tclamp, desc,
                                           dict(rp, qvel=v, mask=mask, clampctrl=clamp, ctrl_phase=cp, act_phase=ap), label, first, acts)
                            first = False
        # actuation disabled: no forces at all
        m.opt.disableflags = flags0 | (1 << 11)
        m.opt.disableactuator = 0
        d.ctrl[:] = 0.6
        lib.mj_forward(m, d)
        if np.any(np.array(d.actuator_force) != 0) or np.any(np.array(d.qfrc_actuator) != 0):
            _viol(part, "actuation disable flag leaves actuator forces", label, rp)
        m.opt.disableflags = flags0
    for q in (qs if np.any(sp.period > 0) else [qs[min(1, len(qs) - 1)]]):
        step_lattice(lib, part, m, d, sp, q, vs[-1], h, flags0, rp0, label, acts, masks)
    for i in np.nonzero(nz)[0]:
        part.count(0, key="%s#%s" % (label, acts[i]["cfg"]),
                   sample=dict(rp0, cfg=acts[i]["cfg"]) if i in (0, n // 2, n - 1) else None)
    d.free()
    m.free()


def tendon_level(sp, ref, force, lo, hi, label):
    """tendon actuatorfrcrange: 'range for clamping total actuator forces acting on this tendon' (input of the tendon = outputs of
    the actuators, i.e. after their own forcerange clamp).  Returns [(key|None, what)]; key None = generic force-law mismatch."""
    out = []
    fref = ref["force"]
    tot = float(np.sum(fref))
    tot_eng = float(np.sum(force))
    if lo <= tot <= hi:
        # nothing to clamp at the tendon: forces are the actuators' own
        if np.max(np.abs(force - fref) / ref["scale"]) > TOL:
            raw = np.where(ref["dis"], 0.0, ref["raw"])
            t0 = float(np.sum(raw))
            sc = lo / t0 if t0 < lo else (hi / t0 if t0 > hi else 1.0)
            alt = np.where(sp.fl, np.clip(raw * sc, sp.fr[:, 0], sp.fr[:, 1]), raw * sc)     # attribution only
            if np.max(np.abs(force - alt) / ref["scale"]) <= TOL:
                out.append((K_TENDONORDER, "%s: forces %s were scaled although the total of the individually clamped forces %r is inside [%g, %g]" % (
                    label, force[:4].tolist(), tot, lo, hi)))
            else:
                out.append((None, ""))
        return out
    tol = 1e-9 * (1 + np.sum(np.abs(force)))
    if tot_eng < lo - tol or tot_eng > hi + tol:
        out.append((K_TENDONORDER, "%s: total tendon actuator force %r outside [%g, %g] (total of the individually clamped forces %r; "
                    "engine forces %s)" % (label, tot_eng, lo, hi, tot, force[:4].tolist())))
    infr = (~sp.fl) | ((force >= sp.fr[:, 0] - 1e-12) & (force <= sp.fr[:, 1] + 1e-12))
    if not np.all(infr):
        out.append(("actuator_force outside forcerange [tendon-limited]", label))
    if np.any(force * fref < -1e-12) or np.any(force[ref["dis"]] != 0):
        out.append(("tendon-level clamp flips the sign of an actuator force or revives a disabled actuator", label))
    return out


def evaluate(part, m, d, sp, Meng, acc0, vel_ref, ctrl, act, h, clamp, mask, tclamp, desc, rp, label, first, acts):
    n = sp.n
    tname = label.split("|")[0]
    length = np.array(d.actuator_length)
    vel = np.array(d.actuator_velocity)
    force = np.array(d.actuator_force)
    if first:
        e = float(np.max(np.abs(vel - vel_ref))) / (1 + abs(vel_ref))
        if e > TOL:
            _viol(part, "actuator_velocity != moment . qvel [%s]" % tname, "%s: %r vs %r" % (label, float(vel[0]), vel_ref), rp)
    ref = force_reference(sp, length, vel, acc0, ctrl, act, h, clamp, mask)
    if np.any(ref["wrap_edge"]):
        part.add("boundary_excluded", int(np.sum(ref["wrap_edge"])))
    if np.any(sp.period > 0):
        part.add("circle_wrap_exercised", int(np.sum(ref["wrapped"])))
    # act_dot (enabled actuators)
    if m.na:
        ad = np.array(d.act_dot)
        exp = ref["act_dot"][sp.stateful]
        en = ~ref["dis"][sp.stateful]
        err = np.abs(ad - exp) / (1 + np.abs(exp))
        err[~en] = 0
        if np.max(err) > TOL:
            k = int(np.argmax(err))
            i = int(np.nonzero(sp.stateful)[0][k])
            c_ = acts[i]["cfg"]          # general actuators: (gain, bias, dyn); shortcuts: (tag, attributes)
            _viol(part, "act_dot differs from the documented activation dynamics [dyn=%s]" % (c_[2] if len(c_) > 2 else c_[0],),
                  "%s actuator %d cfg=%s ctrl=%g act=%g: engine %r documented %r" % (label, i, acts[i]["cfg"], ctrl[i], act[k], float(ad[k]), float(exp[k])),
                  dict(rp, actuator=i, cfg=acts[i]["cfg"]))
    # actuator_force (pre joint clamp); tendon-level clamp only when the tendon is limited
    tendon_limited = tclamp and desc["kind"] == "tendon"
    if tendon_limited:
        lo, hi = desc.get("tendon_range", (-7.0, 5.0))
        found = tendon_level(sp, ref, force, lo, hi, label)
        if found and np.any((sp.gt == "muscle") | (sp.bt == "muscle")):
            # the muscle-curve deviations (reported with their own keys wherever no tendon clamp interferes) change the total;
            # judge the tendon-level clamp with the deviating curves before blaming it
            ref_e = force_reference(sp, length, vel, acc0, ctrl, act, h, clamp, mask, muscle_doc=(False, False))
            found_e = tendon_level(sp, ref_e, force, lo, hi, label)
            if all(k == K_TENDONORDER for k, _ in found_e):
                found = found_e
        for key, what in found:
            if key is None:
                err = np.abs(force - ref["force"]) / ref["scale"]
                attribute_force_error(part, sp, ref, force, length, vel, acc0, ctrl, act, h, clamp, mask, err, rp, label, acts)
            else:
                _viol(part, key, what, rp)
        tot = float(np.sum(ref["force"]))
        part.add("tendon_clamp_active" if not (lo <= tot <= hi) else "tendon_clamp_inactive")
    else:
        err = np.abs(force - ref["force"]) / ref["scale"]
        err[ref["wrap_edge"]] = 0
        if np.max(err) > TOL:
            attribute_force_error(part, sp, ref, force, length, vel, acc0, ctrl, act, h, clamp, mask, err, rp, label, acts)
    # qfrc_actuator = moment' force (+ actuator gravcomp) then joint clamp
    qf = np.array(d.qfrc_actuator)
    exp = Meng.T @ force
    jl = np.array(m.jnt_actfrclimited).astype(bool)
    gc = np.array(m.jnt_actgravcomp).astype(bool)
    for j in range(m.njnt):
        da = int(m.jnt_dofadr[j])
        nd = (6, 3, 1, 1)[int(m.jnt_type[j])]
        if gc[j]:
            exp[da:da + nd] += np.array(d.qfrc_gravcomp)[da:da + nd]
    for j in range(m.njnt):
        if tclamp and int(m.jnt_type[j]) in (2, 3):
            da = int(m.jnt_dofadr[j])
            r = desc.get("joint_range", (-6.0, 9.0))
            c = min(max(exp[da], r[0]), r[1])
            part.add("joint_clamp_active" if c != exp[da] else "joint_clamp_inactive")
            exp[da] = c
    sc = 1 + float(np.max(np.abs(Meng)) * np.sum(np.abs(force)))
    e = float(np.max(np.abs(qf - exp))) / sc
    if e > TOL:
        _viol(part, "qfrc_actuator != clamp(moment' * actuator_force [+ gravcomp]) [%s]" % tname,
              "%s: engine %s expected %s" % (label, qf.tolist(), exp.tolist()), rp)
    part.count(n)
    return (force != 0) & ~ref["dis"]


def attribute_force_error(part, sp, ref, force, length, vel, acc0, ctrl, act, h, clamp, mask, err, rp, label, acts):
    """map a force mismatch to ONE canonical key per root cause."""
    n = sp.n
    bad = err > TOL
    v = {k: force_reference(sp, length, vel, acc0, ctrl, act, h, clamp, mask, muscle_doc=k)
         for k in ((True, False), (False, True), (False, False))}
    ok = {k: np.abs(force - v[k]["force"]) / ref["scale"] <= TOL for k in v}
    w = np.zeros(n)
    w[sp.stateful] = act
    rest = bad.copy()
    for flag, keys in ((bad & ok[(True, False)], (K_FP,)), (bad & ok[(False, True)] & ~ok[(True, False)], (K_FL,)),
                       (bad & ok[(False, False)] & ~ok[(True, False)] & ~ok[(False, True)], (K_FP, K_FL))):
        if np.any(flag):
            i = int(np.nonzero(flag)[0][0])
            what = "%s actuator %d cfg=%s length=%g velocity=%g ctrl=%g act=%g: engine force %r documented %r" % (
                label, i, acts[i]["cfg"], length[i], vel[i], ctrl[i], w[i], float(force[i]), float(ref["force"][i]))
            for key in keys:
                _viol(part, key, what, dict(rp, actuator=i, cfg=acts[i]["cfg"]))
            rest &= ~flag
    if np.any(rest):
        i = int(np.nonzero(rest)[0][0])
        _viol(part, "actuator_force differs from the documented law [%s]" % (acts[i]["cfg"],),
              "%s actuator %d length=%g velocity=%g ctrl=%g act=%g mask=%d clampctrl=%s: engine %r documented %r (gain %r x %r + bias %r)" % (
                  label, i, length[i], vel[i], ctrl[i], w[i], mask, clamp, float(force[i]), float(ref["force"][i]),
                  float(ref["gain"][i]), float(ref["x"][i]), float(ref["bias"][i])), dict(rp, actuator=i, cfg=acts[i]["cfg"]))


def step_lattice(lib, part, m, d, sp, q, v, h, flags0, rp0, label, acts, masks):
    """one mj_step per (mask, clampctrl, ctrl phase, act phase): activations advance as documented and stay in actrange."""
    na = int(m.na)
    if not na:
        return
    n = sp.n
    al = sp.al[sp.stateful]
    ar = sp.ar[sp.stateful]
    per = sp.period[sp.stateful] * (sp.dt[sp.stateful] == "integrator")
    for mask in masks:
        for clamp in (True, False):
            for cp in range(4):
                for ap in range(4):
                    ctrl, act = phases(n, na, cp, ap)
                    lib.mj_resetData(m, d)
                    d.qpos[:] = q
                    d.qvel[:] = v
                    d.ctrl[:] = ctrl
                    d.act[:] = act
                    m.opt.disableactuator = mask
                    m.opt.disableflags = flags0 | (0 if clamp else 1 << 8)
                    lib.mj_step(m, d)
                    got = np.array(d.act)
                    ref = force_reference(sp, np.zeros(n), np.zeros(n), np.ones(n), ctrl, act, h, clamp, mask)
                    exp = ref["wnext"][sp.stateful]
                    dis = ref["dis"][sp.stateful]
                    # disabled groups: "activation states will not be integrated"
                    exp = np.where(dis, np.where(al, np.clip(act, ar[:, 0], ar[:, 1]), act), exp)
                    dif = got - exp
                    if np.any(per > 0):
                        # re-anchored rotational setpoints: equal on the circle
                        pp = np.where(per > 0, per, 1.0)
                        dif = np.where(per > 0, dif - pp * np.round(dif / pp), dif)
                    err = np.abs(dif) / (1 + np.abs(exp))
                    rp = dict(rp0, qpos=q, qvel=v, mask=mask, clampctrl=clamp, ctrl_phase=cp, act_phase=ap, step=True)
                    if np.max(err) > TOL:
                        k = int(np.argmax(err))
                        i = int(np.nonzero(sp.stateful)[0][k])
                        _viol(part, "activation after mj_step differs from the documented update [%s]" % (acts[i]["cfg"],),
                              "%s actuator %d cfg=%s ctrl=%g act=%g: engine %r documented %r" % (label, i, acts[i]["cfg"], ctrl[i], act[k], float(got[k]), float(exp[k])),
                              dict(rp, actuator=i, cfg=acts[i]["cfg"]))
                    outr = al & ((got < ar[:, 0]) | (got > ar[:, 1]))
                    if np.any(outr):
                        k = int(np.nonzero(outr)[0][0])
                        i = int(np.nonzero(sp.stateful)[0][k])
                        if per[k] > 0 and abs(dif[k]) <= TOL * (1 + abs(exp[k])):
                            _viol(part, K_ACTWRAP, "%s actuator %d cfg=%s: act %g -> %r, actrange [%g, %g], period %g, actuator_length %r" % (
                                label, i, acts[i]["cfg"], act[k], float(got[k]), ar[k, 0], ar[k, 1], per[k], float(d.actuator_length[i])),
                                dict(rp, actuator=i, cfg=acts[i]["cfg"]))
                        else:
                            _viol(part, "activation outside actrange after mj_step", "%s actuator %d cfg=%s: act %g -> %r" % (
                                label, i, acts[i]["cfg"], act[k], float(got[k])), dict(rp, actuator=i, cfg=acts[i]["cfg"]))
                    part.count(na)
    m.opt.disableactuator = 0
    m.opt.disableflags = flags0


# ====================================================================== Part A: the full general-actuator product

def build_partA(target, gear, desc, root, tclamp, lengthrange):
    kept, pruned = M.actuator_product()
    xml_acts = ""
    acts = []
    gains = list(M.GAINS)
    if desc["kind"] == "body":
        # contact-dependent moment arms: acc0 is 0 at compile time, so 'scale/acc0' is undefined; use an explicit force
        gains[3] = ("muscleS", "muscle", M.MUS_B[:2] + [1.5] + M.MUS_B[3:])
    for i, a in enumerate(kept):
        xml_acts += M.general_xml("a%d" % i, target, gear, a, lengthrange, gains)
        acts.append(dict(gt=gains[a["g"]][1], gprm=gains[a["g"]][2], bt=M.BIASES[a["b"]][1], bprm=M.BIASES[a["b"]][2],
                         dt=M.DYNS[a["dy"]][1], dprm=M.DYNS[a["dy"]][2], cl=a["cl"], fl=a["fl"], al=a["al"], early=a["early"],
                         cr=M.CTRLRANGE, fr=M.FORCERANGE, ar=M.ACTRANGE, lr=lengthrange, group=a["group"],
                         cfg=(M.GAINS[a["g"]][0], M.BIASES[a["b"]][0], M.DYNS[a["dy"]][0], a["cl"], a["fl"], a["al"], a["early"])))
    extra = 'cone="%s"' % desc["cone"] if desc["kind"] == "body" else ""
    xml = M.base_xml(root, tclamp, "  <actuator>\n%s  </actuator>\n" % xml_acts, contact=desc["kind"] == "body",
                     option_extra=extra, ballclamp=tclamp)
    return xml, acts, pruned


def probe_lengthrange(lib, root, target, gear, desc, qs):
    """lengths of the transmission over the state lattice -> a lengthrange that spreads the normalised muscle length."""
    extra = 'cone="%s"' % desc["cone"] if desc["kind"] == "body" else ""
    xml = M.base_xml(root, 0, '  <actuator><general name="p" %s gear="%s"/></actuator>\n' % (target, gear),
                     contact=desc["kind"] == "body", option_extra=extra)
    m = lib.load_xml(xml)
    d = lib.make_data(m)
    ls = []
    for q in qs:
        d.qpos[:] = q
        lib.mj_forward(m, d)
        ls.append(float(d.actuator_length[0]))
    d.free()
    m.free()
    lo, hi = min(ls), max(ls)
    span = hi - lo
    if span < 1e-6:
        return (lo - 0.5, lo + 0.25)
    mid = 0.5 * (lo + hi)
    return (round(mid - 0.12 * span, 6), round(mid + 0.1 * span, 6))


def partA_model(lib, part, item, thorough):
    tname, root, target, gear_s, desc, tclamp = item
    qs = M.state_lattice(root, desc["kind"], thorough)
    lr = probe_lengthrange(lib, root, target, gear_s, desc, qs)
    xml, acts, pruned = build_partA(target, gear_s, desc, root, tclamp, lr)
    part.add("partA_pruned_by_schema", pruned)
    part.add("partA_actuator_configs", len(acts))
    rp0 = {"part": "A", "transmission": tname, "root": root, "target": target, "gear": gear_s, "tclamp": tclamp,
           "lengthrange": lr}
    nv = {"hinge": 2, "slide": 2, "ball": 4, "free": 7}[root]
    run_model(lib, part, "%s|A tclamp=%d" % (tname, tclamp), xml, acts, desc, gear_s, qs, M.vel_lattice(nv, thorough), tclamp, rp0)


# ====================================================================== Part B: pure muscle functions

def partB(lib, part):
    """mju_muscleGain / mju_muscleBias / mju_muscleDynamics on a lattice containing every branch boundary."""
    prms = [M.MUS_A, M.MUS_B, M.MUS_C, [0.75, 1.05, -1, 200, 0.5, 1.6, 1.5, 1.3, 1.2], [0.9, 1.0, 1.0, 1.0, 0.2, 2.5, 3.0, 0.4, 2.0]]
    lrs = [(0.1, 0.4), (-0.3, 0.9)]
    accs = [0.5, 4.0]
    seen = set()
    nbr = {}
    for prm in prms:
        r0, r1, force, scale, lmin, lmax, vmax, fpmax, fvmax = prm
        a, b = 0.5 * (lmin + 1), 0.5 * (1 + lmax)
        m2 = 0.5 * (lmin + 0.95)
        brk = [lmin, a, 1.0, b, lmax, 0.5 * (lmin + m2), m2, 0.5 * (m2 + 0.95), 0.95]
        Ls = sorted(set([x + dx for x in brk for dx in (-1e-3, 0.0, 1e-3)] +
                        [lmin - 0.2 + k * (lmax + 0.5 - lmin) / 40 for k in range(41)]))
        c = fvmax - 1
        Vs = sorted(set([x + dx for x in (-1.0, 0.0, c) for dx in (-1e-3, 0.0, 1e-3)] + [-1.4 + 0.2 * k for k in range(15)]))
        P = np.array(prm, float)
        for lr in lrs:
            LR = np.array(lr, float)
            L0 = (lr[1] - lr[0]) / (r1 - r0)
            LT = lr[0] - r0 * L0
            for acc0 in accs:
                F0 = force if force >= 0 else scale / acc0
                for L in Ls:
                    ln = LT + L * L0
                    gotb = lib.mju_muscleBias(ln, LR, acc0, P)
                    expb = R.muscle_bias(ln, lr, acc0, prm)
                    part.count(1)
                    if abs(gotb - expb) > TOL * (1 + abs(expb)):
                        altb = R.muscle_bias(ln, lr, acc0, prm, fp=R.FP_halfquad)
                        rp = {"part": "B", "fn": "mju_muscleBias", "len": ln, "lengthrange": lr, "acc0": acc0, "prm": prm, "L": L}
                        if abs(gotb - altb) <= TOL * (1 + abs(altb)):
                            _viol(part, K_FP, "mju_muscleBias(L=%g, prm=%s) = %r, documented -F0*FP = %r (at L=lmax: %r vs fpmax*F0 = %r)" % (
                                L, prm, gotb, expb, lib.mju_muscleBias(LT + lmax * L0, LR, acc0, P), -F0 * fpmax), rp)
                        else:
                            _viol(part, "mju_muscleBias differs from the documented passive force", "L=%g prm=%s: %r vs %r" % (L, prm, gotb, expb), rp)
                    for V in Vs:
                        vel = V * L0 * vmax
                        got = lib.mju_muscleGain(ln, vel, LR, acc0, P)
                        exp = R.muscle_gain(ln, vel, lr, acc0, prm)
                        part.count(1)
                        br = (prms.index(prm), sum(L > x for x in brk[:5]), sum(V > x for x in (-1.0, 0.0, c)))
                        seen.add(br)
                        if abs(got - exp) > TOL * (1 + abs(exp)):
                            alt = R.muscle_gain(ln, vel, lr, acc0, prm, fl=R.FL_primary)
                            rp = {"part": "B", "fn": "mju_muscleGain", "len": ln, "vel": vel, "lengthrange": lr, "acc0": acc0, "prm": prm, "L": L, "V": V}
                            if abs(got - alt) <= TOL * (1 + abs(alt)):
                                _viol(part, K_FL, "mju_muscleGain(L=%g, V=%g, prm=%s) = %r, documented -F0*FL*FV = %r" % (L, V, prm, got, exp), rp)
                            else:
                                _viol(part, "mju_muscleGain differs from the documented active force", "L=%g V=%g prm=%s: %r vs %r" % (L, V, prm, got, exp), rp)
    for br in seen:
        part.count(0, key="muscle branch %s" % (br,))
    dprms = [(0.01, 0.04, 0.0), (0.012, 0.05, 0.3), (0.02, 0.02, 0.1), (0.005, 0.1, 1.0)]
    for dp in dprms:
        P = np.array(dp, float)
        for u in (-0.5, 0.0, 0.2, 0.5, 0.8, 1.0, 1.5):
            for w in (-0.3, 0.0, 0.1, 0.2, 0.35, 0.5, 0.65, 0.9, 1.0, 1.4):
                got = lib.mju_muscleDynamics(u, w, P)
                exp = R.muscle_dyn(u, w, dp)
                part.count(1, key="muscle dyn %s %s" % (dp, np.sign(min(max(u, 0), 1) - w)))
                if abs(got - exp) > TOL * (1 + abs(exp)):
                    _viol(part, "mju_muscleDynamics differs from the documented activation dynamics",
                          "ctrl=%g act=%g prm=%s: %r vs %r" % (u, w, dp, got, exp), {"part": "B", "ctrl": u, "act": w, "prm": dp})


# ====================================================================== Part C1: SISO shortcuts

def shortcut_menu(desc, root, gear_s, lr):
    """(xml element without target/gear, documented general-actuator settings).  Filtered by what the schema allows."""
    kind = desc["kind"]
    S = []
    lrs = M.fmt(lr)
    common = dict(cl=0, fl=0, al=0, early=0, cr=(0, 0), fr=(0, 0), ar=(0, 0), lr=lr, group=0)

    def add(tag, attrs, **kw):
        a = dict(common)
        a.update(kw)
        a.setdefault("gprm", [1.0])
        a.setdefault("bprm", [])
        a.setdefault("dprm", [])
        a.setdefault("gt", "fixed")
        a.setdefault("bt", "none")
        a.setdefault("dt", "none")
        a["cfg"] = (tag, attrs)
        a["tag"], a["attrs"] = tag, attrs
        S.append(a)
    gnorm = math.sqrt(sum(float(x) ** 2 for x in gear_s.split()))
    rot = (kind == "joint" and root == "ball" and desc["jnt"] == "j0") or (kind == "site" and desc.get("ref") and gear_s.startswith("0 0 0"))
    period = 2 * math.pi * gnorm if rot else 0.0
    if kind == "body":
        add("adhesion", 'gain="1.4" ctrlrange="0 1.5"', gprm=[1.4], cl=1, cr=(0, 1.5))
        add("adhesion", 'gain="0.6" ctrlrange="0 0.5" forcerange="0 0.2" group="2"', gprm=[0.6], cl=1, cr=(0, 0.5), fl=1, fr=(0, 0.2), group=2)
        return S
    add("motor", 'ctrlrange="-0.5 1.2" forcerange="-0.8 1.1"', cl=1, cr=M.CTRLRANGE, fl=1, fr=M.FORCERANGE)
    add("motor", 'group="2"', group=2)
    add("position", 'kp="2.3"', gprm=[2.3], bt="affine", bprm=[0, -2.3, 0], period=period)
    add("position", 'kp="2.3" kv="0.4" ctrlrange="-0.5 1.2" group="30"', gprm=[2.3], bt="affine", bprm=[0, -2.3, -0.4], cl=1, cr=M.CTRLRANGE,
        group=30, period=period)
    if not rot:
        add("position", 'kp="1.9" timeconst="0.05" forcerange="-0.8 1.1"', gprm=[1.9], bt="affine", bprm=[0, -1.9, 0], dt="filterexact",
            dprm=[0.05], fl=1, fr=M.FORCERANGE)
    add("velocity", 'kv="1.6"', gprm=[1.6], bt="affine", bprm=[0, 0, -1.6])
    add("intvelocity", 'kp="2.1" kv="0.3" actrange="-0.2 0.9"', gprm=[2.1], bt="affine", bprm=[0, -2.1, -0.3], dt="integrator", al=1,
        ar=M.ACTRANGE, period=period)
    add("intvelocity", 'kp="1.1" forcerange="-0.8 1.1"', gprm=[1.1], bt="affine", bprm=[0, -1.1, 0], dt="integrator", fl=1, fr=M.FORCERANGE,
        period=period)
    add("damper", 'kv="0.9" ctrlrange="0 1.5"', gt="affine", gprm=[0, 0, -0.9], cl=1, cr=(0, 1.5))
    add("cylinder", 'timeconst="0.04" area="0.7" bias="0.2 -0.5 -0.1"', gprm=[0.7], bt="affine", bprm=[0.2, -0.5, -0.1], dt="filter", dprm=[0.04])
    add("cylinder", 'diameter="0.6"', gprm=[math.pi * 0.09], bt="affine", bprm=[0, 0, 0], dt="filter", dprm=[1.0])
    scalar_target = (kind == "joint" and (root in ("hinge", "slide") or desc["jnt"] == "j1")) or kind == "tendon"
    if (scalar_target and kind == "joint" and desc["jnt"] == "j0" and not desc["inparent"]) or (
            kind == "tendon" and desc["ten"] == "tf" and root in ("hinge", "slide")):
        # inheritrange: ctrlrange (position) / actrange (intvelocity) = midpoint +- X * half range of the target
        lo, hi = (-1.1, 0.7) if kind == "joint" else (-0.9, 1.3)
        mid, half = 0.5 * (lo + hi), 0.5 * (hi - lo)
        if kind == "joint":
            add("position", 'kp="3.1" dampratio="0.7"', gprm=[3.1], bt="affine", bprm=[0, -3.1, 0], dampratio=0.7)
        add("position", 'kp="1.3" inheritrange="0.8"', gprm=[1.3], bt="affine", bprm=[0, -1.3, 0], cl=1, cr=(mid - 0.8 * half, mid + 0.8 * half))
        add("intvelocity", 'kp="1.3" inheritrange="1.2"', gprm=[1.3], bt="affine", bprm=[0, -1.3, 0], dt="integrator", al=1,
            ar=(mid - 1.2 * half, mid + 1.2 * half))
    if kind in ("joint", "tendon", "crank") and not (kind == "joint" and root == "free" and desc["jnt"] == "j0"):
        mdef = [0.75, 1.05, -1, 200, 0.5, 1.6, 1.5, 1.3, 1.2]
        add("muscle", 'lengthrange="%s"' % lrs, gt="muscle", gprm=mdef, bt="muscle", bprm=mdef, dt="muscle", dprm=[0.01, 0.04, 0])
        mc = [0.6, 1.2, 4, 200, 0.4, 1.8, 0.9, 1.1, 1.4]
        add("muscle", 'lengthrange="%s" timeconst="0.02 0.06" tausmooth="0.2" range="0.6 1.2" force="4" lmin="0.4" lmax="1.8" vmax="0.9" '
            'fpmax="1.1" fvmax="1.4" ctrlrange="0 1" group="2"' % lrs, gt="muscle", gprm=mc, bt="muscle", bprm=mc, dt="muscle",
            dprm=[0.02, 0.06, 0.2], cl=1, cr=(0, 1), group=2)
    return S


def partC1_model(lib, part, item, thorough):
    tname, root, target, gear_s, desc, _ = item
    qs = M.state_lattice(root, desc["kind"], thorough, extreme=[float(x) for x in gear_s.split()][:3] if (desc["kind"] == "joint" and desc["jnt"] == "j0" and root == "ball") else None)
    lr = probe_lengthrange(lib, root, target, gear_s, desc, qs)
    acts = shortcut_menu(desc, root, gear_s, lr)
    xml_acts = ""
    for i, a in enumerate(acts):
        tg = target
        if a["tag"] == "adhesion":
            xml_acts += '    <adhesion name="c%d" body="b0" %s/>\n' % (i, a["attrs"])
        else:
            xml_acts += '    <%s name="c%d" %s gear="%s" %s/>\n' % (a["tag"], i, tg, gear_s, a["attrs"])
    extra = 'cone="%s"' % desc["cone"] if desc["kind"] == "body" else ""
    xml = M.base_xml(root, 0, "  <actuator>\n%s  </actuator>\n" % xml_acts, contact=desc["kind"] == "body", option_extra=extra, ranges=True)
    part.add("partC_shortcut_actuators", len(acts))
    nv = {"hinge": 2, "slide": 2, "ball": 4, "free": 7}[root]
    rp0 = {"part": "C1", "transmission": tname, "root": root, "target": target, "gear": gear_s, "xml": xml}
    run_model(lib, part, "%s|C1 shortcuts" % tname, xml, acts, desc, gear_s, qs, M.vel_lattice(nv, thorough), 0, rp0)


# ====================================================================== Part D: joint- and tendon-level clamps, few actuators

def partD_auto(lib, part):
    """documented defaults: joint/tendon actuatorfrclimited = "auto" -> limited iff actuatorfrcrange is given (autolimits)."""
    for which in ("joint", "tendon"):
        for give in (0, 1):
            body = ('<body><joint name="j" type="hinge"%s/><geom size="0.1"/></body>' % (' actuatorfrcrange="-1 1"' if give and which == "joint" else ""))
            sec = ('<tendon><fixed name="t"%s><joint joint="j" coef="1"/></fixed></tendon><actuator><motor %s/></actuator>' % (
                ' actuatorfrcrange="-1 1"' if give and which == "tendon" else "", 'joint="j"' if which == "joint" else 'tendon="t"'))
            xml = "<mujoco><worldbody>%s</worldbody>%s</mujoco>" % (body, sec)
            m = lib.load_xml(xml)
            d = lib.make_data(m)
            flag = int((m.jnt_actfrclimited if which == "joint" else m.tendon_actfrclimited)[0])
            d.ctrl[:] = 3.0
            lib.mj_forward(m, d)
            q = float(d.qfrc_actuator[0])
            exp = 1.0 if give else 3.0
            part.count(1, key="auto default %s %d" % (which, give))
            if flag != give or abs(q - exp) > 1e-12:
                key = K_TENDONAUTO if which == "tendon" and give else "actuatorfrclimited auto default wrong [%s given=%d]" % (which, give)
                _viol(part, key, "%s actuatorfrcrange=%s, actuatorfrclimited unspecified: compiled limited flag %d, ctrl=3 gives qfrc_actuator %r (documented %r)" % (
                    which, "-1 1" if give else "none", flag, q, exp), {"part": "D", "xml": xml, "ctrl": 3.0})
            d.free()
            m.free()


def partD_model(lib, part, item, thorough):
    which, fl1, rng = item
    if which == "auto":
        return partD_auto(lib, part)
    if which == "multi":
        return partD_multi(lib, part, thorough)
    lo, hi = rng
    if which == "tendon":
        target, gear_s, desc = 'tendon="tf"', "0.8", dict(kind="tendon", ten="tf", tendon_range=rng, joint_range=rng)
    else:
        target, gear_s, desc = 'joint="j0"', "1.3", dict(kind="joint", inparent=False, jnt="j0", joint_range=rng)
    acts = []
    xml_acts = ""
    base = dict(gt="fixed", bt="none", bprm=[], dt="none", dprm=[], cl=0, al=0, early=0, cr=(0, 0), ar=(0, 0), lr=(0, 0))
    specs = [dict(gprm=[5.0], fl=0, fr=(0, 0), group=0), dict(gprm=[-4.0], fl=fl1, fr=(-1.0, 1.0), group=2),
             dict(gprm=[0.0, 0.0, -0.9], gt="affine", fl=0, fr=(0, 0), group=30)]
    for i, s in enumerate(specs):
        a = dict(base)
        a.update(s)
        a["cfg"] = (which, "act%d" % i, fl1, lo, hi)
        acts.append(a)
        xml_acts += '    <general name="d%d" %s gear="%s" gaintype="%s" gainprm="%s" forcelimited="%s" forcerange="%s" group="%d"/>\n' % (
            i, target, gear_s, a["gt"], M.fmt(a["gprm"]), "true" if a["fl"] else "false", M.fmt(a["fr"]) if a["fl"] else "0 0", a["group"])
    xml = M.base_xml("hinge", 1, "  <actuator>\n%s  </actuator>\n" % xml_acts, tendon_range=M.fmt(rng), joint_range=M.fmt(rng))
    qs = M.state_lattice("hinge", "joint", thorough)
    rp0 = {"part": "D", "level": which, "forcelimited_1": fl1, "range": rng, "xml": xml}
    import itertools
    ctrls = list(itertools.product(M.CTRLS, repeat=3))
    run_model(lib, part, "%s-level clamp|D fl=%d range=%s" % (which, fl1, rng), xml, acts, desc, gear_s, qs, M.vel_lattice(2, thorough), 1, rp0,
              ctrls=ctrls)

def partD_multi(lib, part, thorough):
    """Joint- and tendon-level clamps in a model that also has a multi-output (orientation, 3 outputs) and a multi-input (pid)
    actuator, declared before / between / after the clamped single-output actuators: the actuator's output address differs
    from its index there.  Oracle: the documented clamp written out (sum of the forces of the actuators on the target is scaled
    into actuatorfrcrange) and invariance under the declaration order."""
    import itertools
    ORI = '<orientation name="o" joint="jb" kp="2.3" kv="0.2" input="expmap"/>'
    PID = '<pid name="p" joint="j2" kp="1.5" kv="0.3" input="pos vel"/>'
    T1 = '<motor name="m1" tendon="t" gear="1"/>'
    T2 = '<general name="m2" tendon="t" gear="-0.5" gainprm="2"/>'
    J1 = '<motor name="n1" joint="j3" gear="1.5"/>'
    J2 = '<motor name="n2" joint="j3" gear="-1"/>'
    body = ('<body name="a"><joint name="jb" type="ball"/><geom size=".1"/></body>'
            '<body name="b" pos="1 0 0"><joint name="j" type="hinge"/><geom size=".1"/></body>'
            '<body name="c" pos="2 0 0"><joint name="j2" type="slide"/><geom size=".1"/></body>'
            '<body name="e" pos="3 0 0"><joint name="j3" type="hinge" actuatorfrcrange="-0.7 0.4"/><geom size=".1"/></body>')
    ten = '<tendon><fixed name="t" actuatorfrclimited="true" actuatorfrcrange="-1 0.6"><joint joint="j" coef="0.8"/></fixed></tendon>'
    orders = [(ORI, PID, T1, T2, J1, J2), (T1, T2, J1, J2, ORI, PID), (T1, ORI, T2, J1, PID, J2), (PID, J1, ORI, J2, T1, T2)]
    ctrl_of = {"o": [(0.3, -0.2, 0.5)], "p": [(0.7, -0.2)], "m1": [(-3.0,), (0.2,), (2.5,)], "m2": [(-1.0,), (0.4,)], "n1": [(-2.0,), (0.1,), (1.0,)], "n2": [(0.5,), (-1.5,)]}
    names = ["o", "p", "m1", "m2", "n1", "n2"]
    results = {}
    for oi, order in enumerate(orders):
        xml = "<mujoco><worldbody>%s</worldbody>%s<actuator>%s</actuator></mujoco>" % (body, ten, "".join(order))
        m = lib.load_xml(xml)
        d = lib.make_data(m)
        ids = {nm: lib.mj_name2id(m, 19, nm.encode()) for nm in names}     # mjOBJ_ACTUATOR
        cadr, cnum = np.array(m.actuator_ctrladr), np.array(m.actuator_ctrlnum)
        oadr = np.array(m.actuator_outadr)
        dof = {jn: int(m.jnt_dofadr[lib.mj_name2id(m, 3, jn.encode())]) for jn in ("j", "j3")}
        for ci, combo in enumerate(itertools.product(*[ctrl_of[nm] for nm in names])):
            lib.mj_resetData(m, d)
            d.qpos[0:4] = (0.9, 0.1, -0.3, 0.2)
            d.qvel[:] = 0.0
            for nm, val in zip(names, combo):
                a = ids[nm]
                d.ctrl[cadr[a]:cadr[a] + cnum[a]] = val
            lib.mj_forward(m, d)
            part.count(1, key=("Dmulti", oi, ci))
            f = np.array(d.actuator_force)
            rp = {"part": "D", "xml": xml, "ctrl": [list(c) for c in combo], "order": oi}
            c = dict(zip(names, combo))
            # documented single-actuator forces (gain * ctrl), then the documented clamp of the total per target
            raw = {"m1": c["m1"][0], "m2": 2.0 * c["m2"][0], "n1": c["n1"][0], "n2": c["n2"][0]}
            tot_t = raw["m1"] + raw["m2"]
            sc_t = (-1.0 / tot_t) if tot_t < -1.0 else (0.6 / tot_t) if tot_t > 0.6 else 1.0
            exp = {"m1": raw["m1"] * sc_t, "m2": raw["m2"] * sc_t}
            for nm in ("m1", "m2"):
                got = float(f[oadr[ids[nm]]])
                if abs(got - exp[nm]) > 1e-12 * (1 + abs(exp[nm])):
                    _viol(part, "tendon-level actuatorfrcrange: actuator force differs from the documented clamp of the tendon total in a model with "
                                "multi-output actuators", "order %d: %s force %r, documented %r (tendon total %r, range -1 0.6)" % (oi, nm, got, exp[nm], tot_t), rp)
            # joint-level clamp acts on qfrc_actuator of the joint's dof
            qj = 1.5 * raw["n1"] - 1.0 * raw["n2"]
            qexp = min(0.4, max(-0.7, qj))
            got = float(d.qfrc_actuator[dof["j3"]])
            if abs(got - qexp) > 1e-12 * (1 + abs(qexp)):
                _viol(part, "joint-level actuatorfrcrange: qfrc_actuator differs from the documented clamp in a model with multi-output actuators",
                      "order %d: qfrc_actuator[j3]=%r, documented %r" % (oi, got, qexp), rp)
            got = float(d.qfrc_actuator[dof["j"]])
            qexp = 0.8 * (1.0 * exp["m1"] - 0.5 * exp["m2"])
            if abs(got - qexp) > 1e-12 * (1 + abs(qexp)):
                _viol(part, "tendon-level actuatorfrcrange: qfrc_actuator differs from moment' * clamped forces in a model with multi-output actuators",
                      "order %d: qfrc_actuator[j]=%r, documented %r" % (oi, got, qexp), rp)
            # declaration-order invariance of everything observable per actuator name / dof
            obs = tuple([float(f[oadr[ids[nm]] + k]) for nm in names for k in range(3 if nm == "o" else 1)] +
                        [float(x) for x in np.array(d.qfrc_actuator)])
            if ci in results:
                ref = results[ci]
                if max(abs(a - b) for a, b in zip(obs, ref)) > 1e-12:
                    _viol(part, "actuation result depends on the declaration order of multi-output and single-output actuators",
                          "order %d differs from order 0: %r vs %r" % (oi, obs, ref), rp)
            else:
                results[ci] = obs
        d.free()
        m.free()


# ====================================================================== Part C2: multi-input actuators (pid, orientation, dcmotor)

PID_INPUTS = ["pos vel", "pos", "vel", "ff", "pos ff", "vel ff", "pos vel ff"]
POSRANGE, VELRANGE, FFRANGE = (-0.5, 1.2), (-0.4, 0.7), (-0.3, 0.5)


def pid_product():
    import itertools
    kept, pruned = [], 0
    for inp, ki, imax, slew, fl, ranged in itertools.product(PID_INPUTS, (0.0, 1.5), (0.0, 0.3), (0.0, 0.8), (0, 1), (0, 1)):
        toks = inp.split()
        if (ki > 0 or slew > 0) and "pos" not in toks:
            pruned += 1            # compiler: "pid controller states require the pos input"
            continue
        kept.append(dict(inp=toks, ki=ki, imax=imax, slew=slew, fl=fl, ranged=ranged, group=M.GROUPS[len(kept) % 3],
                         kp=2.3, kv=0.4 if len(kept) % 2 else 0.0))
    return kept, pruned


def wrap_near(u, ref, period):
    return u - period * round((u - ref) / period) if period > 0 else u


def pid_reference(a, period, length, vel, u, w, h, clampctrl, disabled):
    """documented pid law.  u: control block (in signature order), w: activation block [slew][integral]."""
    toks = a["inp"]
    rng = {"pos": POSRANGE, "vel": VELRANGE, "ff": FFRANGE}
    val = {"pos": 0.0, "vel": 0.0, "ff": 0.0}
    for k, t in enumerate(toks):
        x = u[k]
        if a["ranged"] and clampctrl:
            x = min(max(x, rng[t][0]), rng[t][1])
        val[t] = x
    act_dot = []
    k = 0
    pos = val["pos"]
    edge = False
    if a["slew"] > 0:
        prev = w[k]
        if period > 0:
            edge |= abs(abs((pos - prev) / period % 1.0) - 0.5) < 1e-6
        tgt = wrap_near(pos, prev, period)
        eff = min(max(tgt, prev - a["slew"] * h), prev + a["slew"] * h)
        act_dot.append((eff - prev) / h)
        pos = eff
        k += 1
    if period > 0 and "pos" in toks:
        edge |= abs(abs((pos - length) / period % 1.0) - 0.5) < 1e-6
    err = wrap_near(pos, length, period) - length
    z = 0.0
    if a["ki"] > 0:
        z = w[k]
        e = err
        if a["imax"] > 0:
            if z >= a["imax"]:
                e = min(e, 0.0)
            elif z <= -a["imax"]:
                e = max(e, 0.0)
        act_dot.append(e)
    # absent setpoints are fixed at zero (kv is then pure damping; kp acts on 0 - l)
    f = a["kp"] * (err if "pos" in toks else (wrap_near(0.0, length, period) - length)) + a["kv"] * (val["vel"] - vel) + val["ff"] + a["ki"] * z
    if a["fl"]:
        f = min(max(f, M.FORCERANGE[0]), M.FORCERANGE[1])
    if disabled:
        f = 0.0
    return f, act_dot, edge


def partC2_pid(lib, part, item, thorough):
    tname, root, target, gear_s, desc, _ = item
    kept, pruned = pid_product()
    # documented: ki and slewmax each add one activation state, in the order [slew, integral]
    probe = M.base_xml(root, 0, '  <actuator><pid name="p" %s gear="%s" ki="1.5" slewmax="0.8"/></actuator>\n' % (target, gear_s))
    try:
        pm = lib.load_xml(probe)
        ok2 = int(pm.na) == 2
        pm.free()
        err = "na != 2"
    except mj.MjError as e:
        ok2, err = False, str(e)
    if not ok2:
        _viol(part, K_PID2, "<pid ki=1.5 slewmax=0.8> on %s: %s" % (tname, err.strip()[:300]), {"part": "C2", "xml": probe})
        part.add("partC2_pid_configs_dropped_because_uncompilable", sum(1 for a in kept if a["ki"] > 0 and a["slew"] > 0))
        kept = [a for a in kept if not (a["ki"] > 0 and a["slew"] > 0)]
    part.add("partC2_pid_pruned_by_schema", pruned)
    part.add("partC2_pid_configs", len(kept))
    xml_acts = ""
    for i, a in enumerate(kept):
        s = '    <pid name="p%d" %s gear="%s" kp="%g" kv="%g" input="%s" group="%d"' % (i, target, gear_s, a["kp"], a["kv"], " ".join(a["inp"]), a["group"])
        if a["ki"]:
            s += ' ki="%g"' % a["ki"]
        if a["imax"]:
            s += ' imax="%g"' % a["imax"]
        if a["slew"]:
            s += ' slewmax="%g"' % a["slew"]
        if a["fl"]:
            s += ' forcerange="%s"' % M.fmt(M.FORCERANGE)
        if a["ranged"]:
            for t, nm, r in (("pos", "posrange", POSRANGE), ("vel", "velrange", VELRANGE), ("ff", "ffrange", FFRANGE)):
                if t in a["inp"]:
                    s += ' %s="%s"' % (nm, M.fmt(r))
        xml_acts += s + "/>\n"
    xml = M.base_xml(root, 0, "  <actuator>\n%s  </actuator>\n" % xml_acts)
    m = lib.load_xml(xml)
    d = lib.make_data(m)
    n = len(kept)
    label = "%s|C2 pid" % tname
    rp0 = {"part": "C2", "actuator": "pid", "transmission": tname, "root": root, "target": target, "gear": gear_s}
    gnorm = math.sqrt(sum(float(x) ** 2 for x in gear_s.split()))
    rot = (desc["kind"] == "joint" and root == "ball") or (desc["kind"] == "site" and desc.get("ref") and gear_s.startswith("0 0 0"))
    period = 2 * math.pi * gnorm if rot else 0.0
    # layout: controls and activations are blocks in actuator order
    cnum = [len(a["inp"]) for a in kept]
    anum = [(a["slew"] > 0) + (a["ki"] > 0) for a in kept]
    cadr = np.concatenate([[0], np.cumsum(cnum)[:-1]]).astype(int)
    aadr = np.concatenate([[0], np.cumsum(anum)[:-1]]).astype(int)
    lay = (np.array_equal(np.array(m.actuator_ctrlnum), cnum) and np.array_equal(np.array(m.actuator_ctrladr), cadr)
           and np.array_equal(np.array(m.actuator_actnum), anum) and m.nu == sum(cnum) and m.na == sum(anum) and m.nout == n
           and np.array_equal(np.array(m.actuator_actadr), np.where(np.array(anum) > 0, aadr, -1)))
    if not lay:
        _viol(part, "pid: control/activation block layout differs from the documented input signature / state list", label, rp0)
        d.free()
        m.free()
        return
    h = M.TIMESTEP
    flags0 = int(m.opt.disableflags)
    nv = m.nv
    qs = M.state_lattice(root, desc["kind"], thorough)
    vs = M.vel_lattice(nv, thorough)
    nz = np.zeros(n, bool)
    for q in qs:
        for v in vs:
            for mask in M.MASKS:
                for clamp in (True, False):
                    for cp in range(4):
                        for ap in range(4):
                            ctrl = np.array([M.CTRLS[(i + cp + i // 4) % 4] for i in range(m.nu)])
                            act = np.array([M.ACTS[(i + ap) % 4] for i in range(int(m.na))])
                            d.qpos[:] = q
                            d.qvel[:] = v
                            d.ctrl[:] = ctrl
                            if m.na:
                                d.act[:] = act
                            m.opt.disableactuator = mask
                            m.opt.disableflags = flags0 | (0 if clamp else 1 << 8)
                            lib.mj_forward(m, d)
                            length = np.array(d.actuator_length)
                            vel = np.array(d.actuator_velocity)
                            force = np.array(d.actuator_force)
                            adot = np.array(d.act_dot)
                            for i, a in enumerate(kept):
                                dis = bool((mask >> a["group"]) & 1)
                                f, ad, edge = pid_reference(a, period, length[i], vel[i], ctrl[cadr[i]:cadr[i] + cnum[i]],
                                                            act[aadr[i]:aadr[i] + anum[i]], h, clamp, dis)
                                part.count(1)
                                if edge:
                                    part.add("boundary_excluded")
                                    continue
                                rp = dict(rp0, qpos=q, qvel=v, mask=mask, clampctrl=clamp, ctrl=ctrl[cadr[i]:cadr[i] + cnum[i]],
                                          act=act[aadr[i]:aadr[i] + anum[i]], cfg=a)
                                cfg = (tuple(a["inp"]), a["ki"], a["imax"], a["slew"], a["fl"], a["ranged"])
                                if abs(force[i] - f) > TOL * (1 + abs(f) + a["kp"] * abs(length[i])):
                                    _viol(part, "pid: actuator_force differs from the documented law [input=%s ki=%g imax=%g slewmax=%g fl=%d ranged=%d]" % cfg,
                                          "%s actuator %d length=%g velocity=%g: engine %r documented %r" % (label, i, length[i], vel[i], float(force[i]), f), rp)
                                if not dis:
                                    got = adot[aadr[i]:aadr[i] + anum[i]]
                                    if len(ad) and np.max(np.abs(got - np.array(ad)) / (1 + np.abs(ad))) > 1e-7:
                                        _viol(part, "pid: act_dot differs from the documented controller states [input=%s ki=%g imax=%g slewmax=%g fl=%d ranged=%d]" % cfg,
                                              "%s actuator %d length=%g: engine %s documented %s" % (label, i, length[i], got.tolist(), ad), rp)
                                if force[i] != 0:
                                    nz[i] = True
                            # qfrc = moment' force
                            Meng = dense(d.moment_rownnz, d.moment_rowadr, d.moment_colind, d.actuator_moment, n, nv)
                            exp = Meng.T @ force
                            if np.max(np.abs(np.array(d.qfrc_actuator) - exp)) > TOL * (1 + np.sum(np.abs(force)) * np.max(np.abs(Meng))):
                                _viol(part, "qfrc_actuator != moment' * actuator_force [pid]", label, dict(rp0, qpos=q))
    for i in np.nonzero(nz)[0]:
        part.count(0, key="%s#%d" % (label, i), sample=dict(rp0, cfg=kept[i]) if i == 5 else None)
    d.free()
    m.free()

# ---------------------------------------------------------------------- orientation (geodesic SO3 servo)

def expmap2mat(v):
    v = np.asarray(v, float)
    ang = np.linalg.norm(v)
    if ang < 1e-300:
        return np.eye(3)
    k = v / ang
    K = np.array([[0, -k[2], k[1]], [k[2], 0, -k[0]], [-k[1], k[0], 0]])
    return np.eye(3) + math.sin(ang) * K + (1 - math.cos(ang)) * K @ K


ORI_TARGETS = [np.zeros(3), np.array([0.4, -0.3, 0.2]), np.array([-1.0, 2.0, 0.6]), np.array([2.0, 2.0, -1.0])]


def partC2_orientation(lib, part, item, thorough):
    from ..mjutil import quat2mat
    which, root = item          # which: "ball" or (site, refsite)
    variants = []
    for inp in ("expmap", "quat"):
        for fl in (0, 1):
            for cl in (0, 1):
                variants.append(dict(inp=inp, fl=fl, cl=cl, kp=2.3, kv=0.4 if fl else 0.0, group=M.GROUPS[len(variants) % 3]))
    target = 'joint="j0"' if which == "ball" else 'site="%s" refsite="%s"' % which
    xml_acts = ""
    for i, a in enumerate(variants):
        xml_acts += '    <orientation name="o%d" %s kp="%g" kv="%g" input="%s" group="%d"%s%s/>\n' % (
            i, target, a["kp"], a["kv"], a["inp"], a["group"], ' forcerange="0 0.9"' if a["fl"] else "",
            ' ctrlrange="-1.5 1.5"' if a["cl"] else "")
    xml = M.base_xml(root, 0, "  <actuator>\n%s  </actuator>\n" % xml_acts)
    m = lib.load_xml(xml)
    d = lib.make_data(m)
    n = len(variants)
    label = "orientation %s|C2" % (which if which == "ball" else "%s-%s" % which)
    rp0 = {"part": "C2", "actuator": "orientation", "target": target, "root": root}
    cnum = [3 if a["inp"] == "expmap" else 4 for a in variants]
    cadr = np.concatenate([[0], np.cumsum(cnum)[:-1]]).astype(int)
    if not (m.nu == sum(cnum) and m.nout == 3 * n and m.na == 0 and np.array_equal(np.array(m.actuator_ctrlnum), cnum)
            and np.array_equal(np.array(m.actuator_outnum), [3] * n) and np.array_equal(np.array(m.actuator_outadr), 3 * np.arange(n))):
        _viol(part, "orientation: input/output block layout differs from the documentation (3|4 controls, 3 force outputs)", label, rp0)
        d.free()
        m.free()
        return
    flags0 = int(m.opt.disableflags)
    nv = m.nv
    if which != "ball":
        sid = _id(lib, m, 6, which[0])
        rid = _id(lib, m, 6, which[1])
    else:
        jb = int(m.jnt_bodyid[_id(lib, m, 3, "j0")])
    for q in M.state_lattice(root, "joint", thorough):
        F = R.Frames(lib, m, d, q)
        if which == "ball":
            Rcur = quat2mat(np.array(q[0:4]) / np.linalg.norm(q[0:4]))
            mom_ref = np.array([F.xmat[jb][:, k] @ F.Wx[jb] for k in range(3)])
        else:
            Rcur = F.smat[rid].T @ F.smat[sid]
            mom_ref = np.array([F.smat[sid][:, k] @ (F.Ws[sid] - F.Ws[rid]) for k in range(3)])
        len_ref = R.mat2expmap(Rcur)
        at_pi = abs(np.linalg.norm(len_ref) - math.pi) < 1e-6
        for v in M.vel_lattice(nv, thorough):
            for mask in M.MASKS:
                for clamp in (True, False):
                    for tp in range(4):
                        ctrl = np.zeros(m.nu)
                        for i, a in enumerate(variants):
                            t = ORI_TARGETS[(i + tp) % 4]
                            if a["inp"] == "expmap":
                                ctrl[cadr[i]:cadr[i] + 3] = t
                            else:
                                # un-normalised, possibly antipodal quaternion of the same rotation
                                ang = np.linalg.norm(t)
                                qt = np.array([1.0, 0, 0, 0]) if ang == 0 else np.concatenate([[math.cos(ang / 2)], math.sin(ang / 2) * t / ang])
                                ctrl[cadr[i]:cadr[i] + 4] = qt * (-1.7 if (i + tp) % 2 else 0.8)
                        d.qpos[:] = q
                        d.qvel[:] = v
                        d.ctrl[:] = ctrl
                        m.opt.disableactuator = mask
                        m.opt.disableflags = flags0 | (0 if clamp else 1 << 8)
                        lib.mj_forward(m, d)
                        length = np.array(d.actuator_length).reshape(n, 3)
                        vel = np.array(d.actuator_velocity).reshape(n, 3)
                        force = np.array(d.actuator_force).reshape(n, 3)
                        Meng = dense(d.moment_rownnz, d.moment_rowadr, d.moment_colind, d.actuator_moment, 3 * n, nv)
                        rp = dict(rp0, qpos=q, qvel=v, mask=mask, clampctrl=clamp, ctrl=ctrl)
                        if tp == 0 and mask == 0 and clamp:
                            if at_pi:
                                part.add("boundary_excluded")
                            elif np.max(np.abs(length - len_ref[None, :])) > 1e-8:
                                alt_ok = False
                                if which != "ball":
                                    from ..mjutil import quat_mul
                                    wq = [quat_mul(np.array(m.site_quat[k]), np.array(d.xquat[int(m.site_bodyid[k])])) for k in (sid, rid)]
                                    alt = R.quat2expmap(quat_mul(wq[1] * np.array([1, -1, -1, -1.0]), wq[0]))
                                    alt_ok = np.max(np.abs(length - alt[None, :])) <= 1e-8
                                _viol(part, K_REFROT if alt_ok else "orientation: actuator_length differs from the exponential-map of the (relative) orientation",
                                      "%s: engine %s documented %s" % (label, length[0].tolist(), len_ref.tolist()), rp)
                            e = np.max(np.abs(Meng - np.tile(mom_ref, (n, 1)))) / (1e-9 + np.max(np.abs(mom_ref)))
                            if e > TOL_FD:
                                _viol(part, "orientation: actuator_moment rows differ from unit torques about the child-frame axes", "%s: rel err %.3g" % (label, e), rp)
                        if np.max(np.abs(vel - (Meng @ v).reshape(n, 3))) > TOL * (1 + np.max(np.abs(vel))):
                            _viol(part, "actuator_velocity != moment . qvel [orientation]", label, rp)
                        for i, a in enumerate(variants):
                            u = ctrl[cadr[i]:cadr[i] + cnum[i]].copy()
                            if a["cl"] and clamp:
                                u = np.clip(u, -1.5, 1.5)
                            if a["inp"] == "expmap":
                                Rt = expmap2mat(u)
                            else:
                                nq = np.linalg.norm(u)
                                Rt = quat2mat(u / nq) if nq > 1e-12 else np.eye(3)
                            dis = bool((mask >> a["group"]) & 1)
                            part.count(1, key="%s#%d" % (label, i) if not dis else None)
                            out = []
                            for src, Rc in (("frames", Rcur), ("engine length", expmap2mat(length[i]))):
                                Rerr = Rc.T @ Rt
                                err = R.mat2expmap(Rerr)
                                edge = abs(np.linalg.norm(err) - math.pi) < 1e-5
                                f = a["kp"] * err - a["kv"] * vel[i]
                                if a["fl"] and np.linalg.norm(f) > 0.9:
                                    f = f * 0.9 / np.linalg.norm(f)
                                out.append((np.zeros(3) if dis else f, edge))
                            if out[0][1] or out[1][1] or at_pi:
                                part.add("boundary_excluded")
                                continue
                            if np.max(np.abs(force[i] - out[0][0])) > 1e-8 * (1 + np.linalg.norm(out[0][0])):
                                cfg = (a["inp"], a["fl"], a["cl"])
                                if which != "ball" and np.max(np.abs(force[i] - out[1][0])) <= 1e-8 * (1 + np.linalg.norm(out[1][0])):
                                    _viol(part, K_REFROT, "%s actuator %d: force %s follows the (wrong) actuator_length; from the sites' frames %s" % (
                                        label, i, force[i].tolist(), out[0][0].tolist()), rp)
                                else:
                                    _viol(part, "orientation: actuator_force differs from kp*log(q^-1 q_target) - kv*omega [input=%s fl=%d cl=%d]" % cfg,
                                          "%s actuator %d: engine %s documented %s" % (label, i, force[i].tolist(), out[0][0].tolist()), rp)
                        exp = Meng.T @ force.reshape(-1)
                        if np.max(np.abs(np.array(d.qfrc_actuator) - exp)) > TOL * (1 + np.sum(np.abs(force)) * np.max(np.abs(Meng))):
                            _viol(part, "qfrc_actuator != moment' * actuator_force [orientation]", label, rp)
    d.free()
    m.free()


# ---------------------------------------------------------------------- dcmotor (stateless electrical model)

def dcmotor_menu():
    """(attributes, documented parameters).  Only the stateless part documented in XMLreference (no inductance/thermal/LuGre,
    no integral gain / slew states)."""
    S = []
    S.append(('resistance="2.0" motorconst="0.3 0.3"', dict(R=2.0, K=0.3, inp=["voltage"])))
    S.append(('resistance="1.5" motorconst="0.2 0.45"', dict(R=1.5, K=math.sqrt(0.2 * 0.45), inp=["voltage"])))
    S.append(('resistance="1.5" motorconst="0.25 0"', dict(R=1.5, K=0.25, inp=["voltage"])))
    S.append(('nominal="12 0.9 40"', dict(K=12 / 40.0, R=(12 / 40.0) * 12 / 0.9, inp=["voltage"])))
    S.append(('resistance="2.0" motorconst="0.3 0.3" cogging="0.05 7 0.4"', dict(R=2.0, K=0.3, inp=["voltage"], cog=(0.05, 7, 0.4))))
    S.append(('resistance="2.0" motorconst="0.3 0.3" saturation="0.1 0 0"', dict(R=2.0, K=0.3, inp=["voltage"], tmax=0.1)))
    S.append(('resistance="2.0" motorconst="0.3 0.3" saturation="0 0.5 0" ctrlrange="-0.5 1.2"', dict(R=2.0, K=0.3, inp=["voltage"], tmax=0.15, cr=M.CTRLRANGE)))
    S.append(('resistance="2.0" motorconst="0.3 0.3" input="none"', dict(R=2.0, K=0.3, inp=[])))
    ctl = 'controller="1.7 0 0.2 0 0 %s"'
    for inp in ("pos", "pos vel", "vel", "ff", "pos vel ff", "pos vel ff voltage", "ff voltage"):
        for vmax in (0.0, 1.1):
            S.append(('resistance="2.0" motorconst="0.3 0.3" input="%s" %s' % (inp, ctl % ("%g" % vmax)),
                      dict(R=2.0, K=0.3, inp=inp.split(), kp=1.7, kd=0.2, vmax=vmax)))
    return S


def dcmotor_reference(p, length, vel, u, clampctrl, disabled):
    val = {"pos": 0.0, "vel": 0.0, "ff": 0.0, "voltage": 0.0}
    for k, t in enumerate(p["inp"]):
        x = u[k]
        if "cr" in p and clampctrl and k == 0:
            x = min(max(x, p["cr"][0]), p["cr"][1])
        val[t] = x
    Rr, K = p["R"], p["K"]
    V = 0.0
    if any(t in p["inp"] for t in ("pos", "vel", "ff")):
        tau = p.get("kp", 0.0) * (val["pos"] - length) + p.get("kd", 0.0) * (val["vel"] - vel) + val["ff"]
        V = Rr / K * tau + K * vel
        if p.get("vmax", 0) > 0:
            V = min(max(V, -p["vmax"]), p["vmax"])
    V += val["voltage"]
    f = K * (V - K * vel) / Rr                      # torque = K * current, current = (V - K omega) / R
    if "tmax" in p:
        f = min(max(f, -p["tmax"]), p["tmax"])
    if "cog" in p:
        A_, Np, ph = p["cog"]
        f += A_ * math.sin(Np * length + ph)
    return 0.0 if disabled else f


def partC2_dcmotor(lib, part, item, thorough):
    tname, root, target, gear_s, desc, _ = item
    menu = dcmotor_menu()
    xml_acts = ""
    for i, (attrs, p) in enumerate(menu):
        p["group"] = M.GROUPS[i % 3]
        xml_acts += '    <dcmotor name="m%d" %s gear="%s" %s group="%d"/>\n' % (i, target, gear_s, attrs, p["group"])
    xml = M.base_xml(root, 0, "  <actuator>\n%s  </actuator>\n" % xml_acts)
    m = lib.load_xml(xml)
    d = lib.make_data(m)
    n = len(menu)
    label = "%s|C2 dcmotor" % tname
    rp0 = {"part": "C2", "actuator": "dcmotor", "transmission": tname, "root": root, "target": target, "gear": gear_s}
    cnum = [len(p["inp"]) for _, p in menu]
    cadr = np.concatenate([[0], np.cumsum(cnum)[:-1]]).astype(int)
    if not (m.nu == sum(cnum) and m.na == 0 and m.nout == n and np.array_equal(np.array(m.actuator_ctrlnum), cnum)):
        _viol(part, "dcmotor: control block layout differs from the documented input signature", label, rp0)
        d.free()
        m.free()
        return
    flags0 = int(m.opt.disableflags)
    nv = m.nv
    for q in M.state_lattice(root, desc["kind"], thorough):
        for v in M.vel_lattice(nv, thorough):
            for mask in M.MASKS:
                for clamp in (True, False):
                    for cp in range(4):
                        ctrl = np.array([M.CTRLS[(i + cp + i // 4) % 4] for i in range(m.nu)])
                        d.qpos[:] = q
                        d.qvel[:] = v
                        d.ctrl[:] = ctrl
                        m.opt.disableactuator = mask
                        m.opt.disableflags = flags0 | (0 if clamp else 1 << 8)
                        lib.mj_forward(m, d)
                        length = np.array(d.actuator_length)
                        vel = np.array(d.actuator_velocity)
                        force = np.array(d.actuator_force)
                        for i, (attrs, p) in enumerate(menu):
                            dis = bool((mask >> p["group"]) & 1)
                            f = dcmotor_reference(p, length[i], vel[i], ctrl[cadr[i]:cadr[i] + cnum[i]], clamp, dis)
                            part.count(1, key="%s#%d" % (label, i) if force[i] != 0 else None)
                            if abs(force[i] - f) > TOL * (1 + abs(f) + abs(length[i]) * 2 + abs(vel[i])):
                                _viol(part, "dcmotor: actuator_force differs from the documented stateless law [%s]" % attrs,
                                      "%s actuator %d length=%g velocity=%g ctrl=%s: engine %r documented %r" % (
                                          label, i, length[i], vel[i], ctrl[cadr[i]:cadr[i] + cnum[i]].tolist(), float(force[i]), float(f)),
                                      dict(rp0, qpos=q, qvel=v, mask=mask, clampctrl=clamp, attrs=attrs))
                        Meng = dense(d.moment_rownnz, d.moment_rowadr, d.moment_colind, d.actuator_moment, n, nv)
                        exp = Meng.T @ force
                        if np.max(np.abs(np.array(d.qfrc_actuator) - exp)) > TOL * (1 + np.sum(np.abs(force)) * np.max(np.abs(Meng))):
                            _viol(part, "qfrc_actuator != moment' * actuator_force [dcmotor]", label, dict(rp0, qpos=q))
    d.free()
    m.free()


# ====================================================================== dispatch

def _chunk(chunk):
    lib = mj.load()
    part = core.Part()
    for kind, item, thorough in chunk:
        try:
            if kind == "A":
                partA_model(lib, part, item, thorough)
            elif kind == "B":
                partB(lib, part)
            elif kind == "C1":
                partC1_model(lib, part, item, thorough)
            elif kind == "D":
                partD_model(lib, part, item, thorough)
            elif kind == "C2pid":
                partC2_pid(lib, part, item, thorough)
            elif kind == "C2ori":
                partC2_orientation(lib, part, item, thorough)
            elif kind == "C2dc":
                partC2_dcmotor(lib, part, item, thorough)
        except mj.MjError as e:
            part.violation("engine error in part %s [%s]" % (kind, item[0] if item else ""), "unexpected mju_error / compile error: %s" % e,
                           {"part": kind, "item": repr(item)[:2000]})
    return part


def work_items(thorough):
    items = []
    T = M.transmissions(thorough)
    for t in T:
        for tclamp in (0, 1):
            items.append(("A", t + (tclamp,), thorough))
    items.append(("B", None, thorough))
    for t in T:
        if t[0] in ("body:gear2", "body:elliptic"):
            continue
        items.append(("C1", t + (0,), thorough))
    for t in T:
        if t[0] in ("joint:hinge", "joint:ball", "tendon:spatial", "refsite:s1-sw:rot:ball", "crank:world"):
            items.append(("C2pid", t + (0,), thorough))
    for t in T:
        if t[0] in ("joint:hinge", "tendon:spatial", "crank:world"):
            items.append(("C2dc", t + (0,), thorough))
    for which in ("ball", ("s1", "s0"), ("s0", "s1"), ("s1", "sw"), ("sw", "s1")):
        items.append(("C2ori", (which, "ball"), thorough))
    items.append(("D", ("auto", 0, None), thorough))
    items.append(("D", ("multi", 0, None), thorough))
    for which in ("tendon", "joint"):
        for fl1 in (0, 1):
            for rng in ((-1.0, 1.0), (-7.0, 5.0)):
                items.append(("D", (which, fl1, rng), thorough))
    return items


def run(ctx):
    mj.load()
    items = work_items(ctx.thorough)
    core.pmap(ctx, _chunk, items, nchunks=len(items))
    kept, pruned = M.actuator_product()
    ctx.extra["work_items"] = len(items)
    ctx.extra["transmissions"] = len(M.transmissions(ctx.thorough))
    ctx.extra["partA_product_size"] = len(kept) + pruned
    ctx.rule = (
        "A: %d transmissions {joint hinge/slide/ball/free, jointinparent, child hinge, fixed & spatial tendon, site, site+refsite "
        "(4 site/refsite placements x translational/rotational/mixed gear), slider-crank (fixed & moving slider), body adhesion "
        "(pyramidal/elliptic, gear 1/2)} x joint/tendon actuatorfrcrange {off,on(+actuatorgravcomp)} x the FULL product gain{fixed,affine,"
        "muscle(force),muscle(scale/acc0)} x bias{none,affine,muscle} x dyn{none,integrator,filter,filterexact,muscle,muscle+tausmooth} "
        "x ctrllimited x forcelimited x actlimited x actearly = %d configurations (%d pruned: actlimited with dyntype none is a "
        "compile error), each a separate <general> actuator; runtime lattice: group-disable masks {0, 1<<0, 1<<2|1<<30} (groups 0,2,30) "
        "x clampctrl {on,off} x ctrl {-1,0,0.6,2} x act {-0.4,0,0.35,1.3} (every actuator sees every ctrl x act pair) x state lattice "
        "(%s root-joint values x hinge values, zero/mixed velocity) with mj_forward, plus one mj_step per mask x clampctrl x ctrl x act, "
        "plus the actuation-disable flag. B: mju_muscleGain/Bias/Dynamics on a lattice with every branch boundary +-1e-3. "
        "C1: 9 SISO shortcut elements (16 attribute variants incl. inheritrange, dampratio, timeconst, diameter) x the same transmissions. "
        "C2: pid (7 input signatures x ki x imax x slewmax x forcerange x input ranges), orientation (ball / 4 site pairs x expmap/quat), "
        "stateless dcmotor (22 variants). D: 1-3 actuators per joint/tendon with target-level clamps (64 ctrl triples), auto defaults. "
        "evaluation = one actuator in one (model, state, runtime setting); non-trivial = actuator configuration that produced a non-zero force while enabled."
        % (len(M.transmissions(ctx.thorough)), len(kept) + pruned, pruned, "all" if ctx.thorough else "a covering diagonal of"))
    ctx.assumptions = [
        "frames (xpos/xmat/site_xpos/site_xmat) and qfrc_gravcomp are taken from mjData (C07, C29); moments are derived from them by central "
        "finite differences (eps 1e-6, threshold 1e-6 relative; algebraic laws 1e-9 relative)",
        "ball-joint and rotational-refsite moments are compared with the documented torque about the gear axis, not with the gradient of the "
        "(chart-dependent) length; lengths at the wrap angle pi and servo setpoints diametrically opposite to the length are excluded (counted)",
        "slider-crank: the documentation does not say which root of the rod equation is the length; either root is accepted, the moment is the "
        "gradient of that root; unreachable rods (det<=0) are excluded",
        "body transmission: acc0 is 0 at compile time, so the muscle(scale/acc0) gain variant uses an explicit force there",
        "not covered: dcmotor inductance/thermal/LuGre/integral/slew states (PDF note only), pid/dcmotor activation integration in mj_step, "
        "user callbacks, plugins (C51), ctrl delay buffers, sleeping, flex contacts in adhesion, wrapped tendon geometry",
    ]
