"""C22 Sorting and selection utilities are correct and stable.

Exhaustive: every array of length <= L over keys {0,1,2} (with a hidden
sequence number, so stability is observable) through the tree's mjSORT macro
instantiated with the run size re-defined to 2 and 3 (every merge level, odd
run count, tail memcpy and final copy parity is reached), the production
instantiation on every length 0..N over complete pattern families, every
(array, k) for mjPARTIAL_SORT, and mju_insertionSort/Int.  Oracle: trivial
counting sort (permutation + order + stability), canaries around arr and buf.
"""
import subprocess

from .. import build, core

LEVEL = "exploration"
META = dict(
    category=LEVEL,
    technique="exhaustive bounded enumeration of all small arrays (small-scope), differential vs trivial stable sort",
    text="Every array of length <=12 (thorough 15) over 3 keys is pushed through the tree's mjSORT macro text "
         "instantiated with run size 2 and 3, so each merge level / odd run count / tail copy / copy-back parity is "
         "executed; production run size on complete pattern families for every length 0..200 (1000); every (array,k) "
         "for mjPARTIAL_SORT; mju_insertionSort/Int. Exhaustive within the bound, which is the right level for a pure "
         "function of a short array.",
    note="Assumes the comparator is a preorder; arrays longer than the bound are covered only through the pattern "
         "families; run-size scaling re-defines _mjRUNSIZE before instantiating the unmodified macro.",
    design_ref="DESIGN.md §3 C22")


def _run(args):
    exe, a = args[0], args[1:]
    r = subprocess.run([exe] + [str(x) for x in a], capture_output=True, text=True)
    part = core.Part()
    if r.returncode != 0:
        part.violation("crash mode=%s" % a[0], "driver died rc=%d on %r: %s" % (r.returncode, a, r.stderr[-300:]), {"args": a})
        return part
    for line in r.stdout.splitlines():
        if line.startswith("FAIL"):
            part.violation(line.strip(), "wrong result: " + line.strip() + " (mode n k : keys)", {"args": a, "line": line})
        elif line.startswith("SAMPLE") and len(part["samples"]) < 2:
            part["samples"].append(line.strip())
        elif line.startswith("STATS"):
            _, ev, nt, fl, nc = line.split()
            part["evaluations"] += int(ev)
            part["nontrivial_count"] += int(nt)
            part.add("comparisons", int(nc))
    return part


def _chunk(chunk):
    total = core.Part()
    ctx = core.Ctx("C22", "quick", 0, LEVEL)
    for item in chunk:
        ctx.merge(_run(item))
    total["evaluations"] = ctx.evaluations
    total["nontrivial_count"] = ctx.nontrivial_extra
    total["samples"] = ctx.samples[:1]
    total["violations"] = [{"key": k, "what": w, "replay": r} for k, w, r in ctx.violations]
    total["extra"] = ctx.extra
    return total


def run(ctx):
    exe = build.ensure_exe("c22_sort", ["drivers/c22_sort.c"])
    L = ctx.q(12, 15)
    Lp = ctx.q(8, 10)
    N = ctx.q(200, 1000)
    ns = 16
    jobs = []
    for mode, ml in ((2, L), (3, L), (100, Lp), (200, ctx.q(9, 12)), (32, N)):
        for s in range(ns):
            jobs.append((exe, mode, ml, s, ns))
    core.pmap(ctx, _chunk, jobs, nchunks=len(jobs))
    ctx.rule = ("all arrays of length <= %d over keys {0,1,2} (+hidden sequence number) through mjSORT with run size 2 and 3; "
                "production run size on every length 0..%d x {sorted, reversed, constant, saw-tooth period<=8 both directions, "
                "two sorted runs at every split, reversed blocks}; mjPARTIAL_SORT on all arrays len<=%d x every k in [-1,n+1]; "
                "mju_insertionSort/Int on all arrays len<=%d. non-trivial = unsorted input containing a duplicate key "
                "(stability observable) / 1<k<n / unsorted" % (L, N, Lp, ctx.q(9, 12)))
    ctx.assumptions = ["comparator is a total preorder on the key; element type is a 2-int struct",
                       "run size scaling: the macro text is the tree's, only _mjRUNSIZE is re-defined before instantiation"]


def replay(ctx, path):
    """Re-run the driver shard that produced a failure: ./check C22 --replay <file>"""
    import json as _json
    r = _json.load(open(path))["replay"]
    exe = build.ensure_exe("c22_sort", ["drivers/c22_sort.c"])
    p = subprocess.run([exe] + [str(x) for x in r["args"]], capture_output=True, text=True)
    bad = [l for l in p.stdout.splitlines() if l.startswith("FAIL")]
    print("\n".join(bad[:10]))
    return 1 if bad else 0
