"""Python side of the native fault-point runner (native/drivers/c2x_common.h): run a driver over a range of fault
points, parse its line protocol, canonicalise sanitizer / signal crashes to 'kind in function'."""
from __future__ import annotations

import functools
import os
import re
import subprocess
from collections import Counter

from .. import build


def env(symbolize: bool = False):
    e = dict(os.environ)
    e["ASAN_OPTIONS"] = ("detect_leaks=0:abort_on_error=0:exitcode=99:allocator_may_return_null=1:symbolize=%d"
                         % (1 if symbolize else 0))
    e["UBSAN_OPTIONS"] = "halt_on_error=1:exitcode=98:print_stacktrace=1:symbolize=%d" % (1 if symbolize else 0)
    e.pop("LD_PRELOAD", None)
    return e


@functools.lru_cache(maxsize=None)
def symbolize(obj: str, off: str) -> str:
    """innermost function name at module offset (llvm-symbolizer reads the -g1 line tables incl. inlining)."""
    try:
        r = subprocess.run(["llvm-symbolizer", "--obj=" + obj, off], capture_output=True, text=True, timeout=300)
        lines = [l for l in r.stdout.splitlines() if l.strip()]
        if lines and lines[0] != "??":
            return lines[0].strip()
    except Exception:
        pass
    return "%s+%s" % (os.path.basename(obj), off)


_RUNTIME = ("__asan", "__ubsan", "__sanitizer", "__interceptor", "libclang_rt", "libc.so", "libstdc++", "libgcc")


def _frame_fn(frame: str, objs: dict) -> str | None:
    """frame is 'function' (symbolized) or 'module+0xoff'."""
    m = re.match(r"^(.*)\+(0x[0-9a-fA-F]+)$", frame)
    if not m:
        return frame
    mod, off = m.group(1), m.group(2)
    if any(t in mod for t in _RUNTIME):
        return None
    obj = objs.get(mod)
    if not obj:
        return frame
    return symbolize(obj, off)


def crash_key(rest: str, objs: dict):
    """rest = '<status> <summary> | <runtime error> | frames: a<b<c | VGXSTATE k=v ...'  ->  (kind, function, state)."""
    parts = [p.strip() for p in rest.split(" | ")]
    status = parts[0].split(" ", 1)[0] if parts else "?"
    summary = parts[0].split(" ", 1)[1] if parts and " " in parts[0] else ""
    frames, state, rt = [], {}, ""
    for p in parts[1:]:
        if p.startswith("frames: "):
            frames = p[8:].split("<")
        elif p.startswith("VGXSTATE"):
            for kv in p.split()[1:]:
                k, _, v = kv.partition("=")
                try:
                    state[k] = int(v)
                except ValueError:
                    state[k] = v
        elif "runtime error:" in p:
            rt = p.split("runtime error:", 1)[1].strip()
    if not rt and "runtime error:" in summary:
        rt = summary.split("runtime error:", 1)[1].strip()
    kind = None
    if rt:
        kind = "UBSan " + re.sub(r"\d+", "#", rt)[:80]
    else:
        m = re.search(r"SUMMARY: (\w+): ([\w-]+)", summary)
        if m:
            kind = "%s %s" % (m.group(1).replace("AddressSanitizer", "ASan"), m.group(2))
        elif status.startswith("signal"):
            kind = status
        else:
            kind = status + " " + re.sub(r"0x[0-9a-f]+|\d+", "#", summary)[:60]
    fn = None
    for f in frames:
        fn = _frame_fn(f, objs)
        if fn:
            break
    return kind, fn or "?", state


class Result:
    def __init__(self):
        self.hist = Counter()       # outcome class -> count
        self.first = {}             # outcome class -> first point
        self.nontrivial = 0
        self.viol = []              # (first, count, last, key, what)
        self.crashes = []           # (point, rest)
        self.skipped = 0
        self.info = []
        self.rc = 0
        self.stderr = ""
        self.tline = None           # fields of the driver's "T ..." line, if any


def run(cmd, timeout=None, symbolize_reports=False) -> Result:
    res = Result()
    r = subprocess.run([str(c) for c in cmd], capture_output=True, text=True, env=env(symbolize_reports), timeout=timeout)
    res.rc = r.returncode
    res.stderr = r.stderr[-2000:]
    for line in r.stdout.splitlines():
        if line.startswith("H "):
            _, n, f, cls = line.split(" ", 3)
            res.hist[cls] += int(n)
            res.first[cls] = min(res.first.get(cls, 1 << 62), int(f))
        elif line.startswith("N "):
            res.nontrivial += int(line[2:])
        elif line.startswith("V "):
            _, f, n, l, rest = line.split(" ", 4)
            key, _, what = rest.partition("|")
            res.viol.append((int(f), int(n), int(l), key, what))
        elif line.startswith("CRASH "):
            _, pt, rest = line.split(" ", 2)
            res.crashes.append((int(pt), rest))
        elif line.startswith("S "):
            res.skipped += int(line.split(" ", 2)[1])
        elif line.startswith("T "):
            res.tline = line.split()[1:]
        elif line.startswith("I "):
            res.info.append(line[2:])
    return res


def objs_for(variant: str, exe: str) -> dict:
    return {"libmujoco_verif.so": build.ensure(variant), os.path.basename(exe): exe}
