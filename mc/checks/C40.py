"""C40 Extension registries stay consistent under concurrent use.

E3: the UNMODIFIED engine_plugin.cc / engine_global_table.h compiled with the vsched prelude
and linked statically with the rest of the tree; 2 registrars + 1 reader under the controlled
scheduler, all schedules with <= P preemptions, tables rolled back to their start-up content before every execution (they
are process-global), table pre-filled so that the concurrent registrations cross the 15|16
block boundary.  E2: all sequential registration histories up to a depth over the plugin and
resource-provider tables against a dictionary reference model.
"""
import json
import subprocess

from .. import build, core

LEVEL = "model_checking"
META = dict(
    category=LEVEL,
    technique="stateless model checking of the real global tables under a controlled scheduler (preemption-bounded) + exhaustive sequential registration histories vs a dictionary model",
    text="All interleavings with <=2 (thorough 3) preemptions of two registering threads (new object, identical "
         "re-registration, conflicting re-registration, case-variant name, second table) and a reader that resolves "
         "count / by-slot / by-name, on the unmodified GlobalTable code with scheduling points before and after every "
         "count_ and mutex operation, with the table pre-filled to 14 and 29 entries so block allocation happens inside "
         "the race. Every read checks: slot < count => complete object equal to its source; by-name and by-slot agree; "
         "final slots dense, one per case-insensitive key; identical re-registration returns the same slot; conflict "
         "fails and changes nothing. All sequential histories of depth <=4 (5) over 9 operations on both tables.",
    note="Sequentially consistent atomics (a release->relaxed weakening is invisible); decoder/encoder tables are "
         "covered only sequentially through their shared GlobalTable template (same code path as plugins).",
    design_ref="DESIGN.md §3 C40")

SCHED_SRC = ("src/engine/engine_plugin.cc",)


def exe():
    return build.ensure_exe("c40_registry", ["drivers/c40_registry.cc"], sched=SCHED_SRC, static=True)


def scenarios(thorough):
    # N = a registration into the provider table made while the plugin table is held exclusively (what a library initializer
    # does under mj_loadAllPluginLibraries): the two tables' locks must be independent
    base = ["A,B", "A,a", "A,X", "A,U", "AB,B", "A,R", "R,S", "R,T", "R,r", "B,A", "N,S"]
    if thorough:
        base += ["AB,BA", "AX,U", "Aa,X", "RS,TA", "AB,RS", "N,R", "N,T", "NA,S"]
    return base


def _run(args):
    x, sc, prefill, bound, cap = args[:5]
    shard, nshards = (args[5], args[6]) if len(args) > 5 else (0, 1)
    part = core.Part()
    if sc.startswith("seq:"):
        depth, shard, nsh = sc[4:].split("/")
        r = subprocess.run([x, "seq", depth, str(prefill), shard, nsh], capture_output=True, text=True)
        for line in r.stdout.splitlines():
            if line.startswith("SEQFAIL"):
                _, h, rule = line.split()
                part.violation("registry sequential history violates the dictionary model (%s)" % rule,
                               "history %s (prefill %d): %s" % (h, prefill, rule), {"history": h, "prefill": prefill, "rule": rule})
            elif line.startswith("SEQSTATS"):
                n = int(line.split()[1])
                part["evaluations"] += n
                part["traces"] += n
                part["states"] += n
                part["transitions"] += n * int(depth)
                part["nontrivial_count"] += n
        if r.returncode not in (0, 1):
            part.violation("harness c40 seq", "driver failed rc=%d %s" % (r.returncode, r.stderr[-300:]), {})
        return part
    r = subprocess.run([x, "explore", sc, str(prefill), str(bound), str(shard), str(nshards), str(cap)], capture_output=True, text=True)
    if r.returncode not in (0, 1) or not r.stdout.strip():
        part.violation("harness c40 %s" % sc, "driver failed rc=%d: %s" % (r.returncode, r.stderr[-400:]), {"scenario": sc})
        return part
    res = json.loads(r.stdout.strip().splitlines()[-1])
    part["evaluations"] = res["executions"]
    part["traces"] = res["executions"]
    part["states"] = res["distinct_prefixes"]
    part["transitions"] = res["points"]
    part["nontrivial_count"] = res["executions"]
    for o in res["outcome_samples"]:
        part["outcomes"].add("%s/%d:%s" % (sc, prefill, o))
    part.add("distinct_outcomes_sum", res["distinct_outcomes"])
    if shard == 0:
        part.add("scenarios", 1)
    if res["capped"]:
        part["capped"] = True
    if res["failures"]:
        what = res["first_failure"]
        part.violation("registry: " + what.split(";")[0][:140],
                       "scenario %s prefill %d schedule %s: %s" % (sc, prefill, res["first_failure_schedule"], what),
                       {"scenario": sc, "prefill": prefill, "schedule": res["first_failure_schedule"],
                        "cmd": "c40_registry replay %s %d %s" % (sc, prefill, res["first_failure_schedule"])})
    if shard == 0:
        part["samples"].append({"scenario": sc, "prefill": prefill, "schedule": (res["schedule_samples"] or [""])[0][:100],
                                "outcome": (res["outcome_samples"] or [""])[0][:140]})
    return part


def _chunk(chunk):
    total = core.Ctx("C40", "quick", 0, LEVEL)
    for a in chunk:
        total.merge(_run(a))
    p = core.Part()
    p["evaluations"] = total.evaluations
    p["nontrivial_count"] = total.nontrivial_extra
    p["states"], p["transitions"], p["traces"] = total.states, total.transitions, total.traces
    p["outcomes"] = total.outcomes
    p["samples"] = total.samples[:2]
    p["violations"] = [{"key": k, "what": w, "replay": r} for k, w, r in total.violations]
    p["extra"] = total.extra
    p["capped"] = not total.exhaustive
    return p


def run(ctx):
    x = exe()
    bound = ctx.q(2, 3)
    cap = ctx.q(15000, 40000)
    jobs = []
    nshard = ctx.q(4, 8)
    deep = {"A,B", "A,X", "A,a", "N,S"}     # quick: the full preemption bound on three scenarios, one less on the others
    for sc in scenarios(ctx.thorough):
        for prefill in ((14,) if not ctx.thorough else (14, 29)):
            b = bound if (ctx.thorough or sc in deep) else bound - 1
            ns = nshard if b == bound else 1
            for sh in range(ns):
                jobs.append((x, sc, prefill, b, cap, sh, ns))
    depth = ctx.q(5, 6)
    nsh = 4
    for d in range(1, depth + 1):
        for s in range(nsh if d >= 5 else 1):
            jobs.append((x, "seq:%d/%d/%d" % (d, s, nsh if d >= 5 else 1), 14 if d % 2 == 0 else 0, 0, 0))
    core.pmap(ctx, _chunk, jobs, nchunks=len(jobs))
    ctx.extra["preemption_bound"] = bound
    ctx.rule = ("E3: scenarios %s (two registrar scripts over A=new 'pa', a=identical 'pa', X=conflicting 'pa', U='PA', B=new 'pb', "
                "R/r/T/S likewise for resource providers) + a reader doing 2 passes of count/by-slot/by-name, prefill %s, all schedules "
                "with <=%d preemptions (quick: that bound on A,B / A,X / A,a, one less on the other scenarios); E2: all 9^d sequential histories for d<=%d. states = distinct schedule prefixes + sequential "
                "histories; every execution runs the real code (traces_validated)" %
                (scenarios(ctx.thorough), "14/29" if ctx.thorough else "14", bound, depth))
    ctx.assumptions = ["sequentially consistent atomics", "cap %d executions per scenario (reported if hit)" % cap]


def replay(ctx, path):
    """Re-run one recorded schedule without the explorer: ./check C40 --replay <file>"""
    import json as _json
    r = _json.load(open(path))["replay"]
    if "history" in r:
        p = subprocess.run([exe(), "seq", str(len(r["history"])), str(r.get("prefill", 0)), "0", "1"], capture_output=True, text=True)
    else:
        p = subprocess.run([exe(), "replay", r["scenario"], str(r["prefill"]), r.get("schedule", "")], capture_output=True, text=True)
    print(p.stdout[-3000:])
    print("replay exit", p.returncode)
    return 1 if p.returncode else 0
