"""C39 Virtual file system operations have set semantics.

E2 (explicit-state history explorer) on the tree's real mjVFS, driven through the public C API:
mj_defaultVFS / mj_addBufferVFS / mj_deleteFileVFS / mj_containsBufferVFS / mj_deleteVFS and
mju_openResource + mju_readResource + mju_closeResource.

Alphabet: 7 names (plain, upper-case variant, sub-directory with '/' and with '\\', "./" prefix,
"d/.." detour, an unrelated name) x 3 contents ("", "x", "yy"); 42 operations (21 add, 7 delete,
7 contains, 7 open+read+close).  Every history is replayed on a FRESH mjVFS; after every operation
the whole observable state (contains + open/read of all 7 names, twice, so an observer that mutates
is seen) is compared with a set/dict reference model.

Reference model = a dictionary  class(name) -> bytes  that demands only what the statement and the
API reference promise.  Which *different* strings denote the same file is not documented, so the
partition of the names into classes is LEARNED from the implementation's own answers (K(s) = set of
names t with contains(t)==1 after add(s) on an empty VFS; s ~ s' iff K(s) == K(s')) and then
required to be used consistently by add / delete / contains / read in every history.
"""
import ctypes
import json

from .. import core, mj

LEVEL = "model_checking"
META = dict(
    category=LEVEL,
    technique="explicit-state exploration of ALL operation histories of the real mjVFS up to a depth bound (BFS, "
              "de-duplicated on the observable state; plus all mutator histories without de-duplication), dictionary "
              "reference model with aliasing learned from the implementation",
    text="Every history of add-buffer / delete / contains / open+read+close over 7 names (case variant, both separators, "
         "'./', 'd/..') x 3 contents up to depth 4 (thorough 5) is executed on a fresh mjVFS of the tree-built library and "
         "compared, after every operation and for every name, with a set model: present iff added and not deleted since; "
         "repeated add returns 2 and keeps the bytes; read of a present name returns exactly the bytes; delete of a present "
         "name returns 0, of an absent name -1 and changes nothing; observers do not mutate.  Exhaustive within the bound; the "
         "state space (each alias class absent or holding one of 3 contents) is closed at depth 4, so deeper histories only "
         "revisit states.",
    note="Trusted base: ctypes call wrappers. Aliasing between different strings is learned, not demanded; only "
         "contains(s) after add(s) for the SAME string is demanded outright. Reading an ABSENT name is not constrained by the "
         "statement (the implementation falls back to a case-insensitive base-name match and then to the disk); those reads "
         "are counted, not judged. mj_addFileVFS / mounted providers / concurrent use are not covered (no disk files in the "
         "alphabet).",
    design_ref="DESIGN.md §3 C39")

NAMES = [b"a.txt", b"A.TXT", b"d/a.txt", b"d\\a.txt", b"./a.txt", b"d/../a.txt", b"b.txt"]
CONTENTS = [b"", b"x", b"yy"]
NN = len(NAMES)

KEY_CONTAINS = "vfs: contains(name) false right after successful add(name) for names that path-reduce"
KEY_DELETE = "vfs: delete(name) of an absent name returns success and removes a different file with the same lower-cased base name"

# operations: ("add", name index, content index) | ("del", n) | ("has", n) | ("read", n)
OPS = ([("add", n, c) for n in range(NN) for c in range(len(CONTENTS))] + [("del", n) for n in range(NN)] +
       [("has", n) for n in range(NN)] + [("read", n) for n in range(NN)])
MUTATORS = [o for o in OPS if o[0] in ("add", "del")]


def op_str(op):
    nm = NAMES[op[1]].decode()
    if op[0] == "add":
        return "add(%r,%r)" % (nm, CONTENTS[op[2]].decode())
    return "%s(%r)" % ({"del": "delete", "has": "contains", "read": "open+read"}[op[0]], nm)


def hist_str(h):
    return " ; ".join(op_str(o) for o in h)


def _viol(part, key, what, replay=None):
    if all(v["key"] != key for v in part["violations"]):
        part.violation(key, what, replay)


class Vfs:
    """One fresh mjVFS of the tree library."""

    def __init__(self, lib):
        self.lib = lib
        n = lib.c.vg_sizeof(b"mjVFS")
        self.buf = ctypes.create_string_buffer(max(int(n), 8))
        lib.mj_defaultVFS(self.buf)
        self.err = ctypes.create_string_buffer(256)

    def close(self):
        self.lib.mj_deleteVFS(self.buf)

    def add(self, name, data):
        return self.lib.mj_addBufferVFS(self.buf, name, data, len(data))

    def delete(self, name):
        return self.lib.mj_deleteFileVFS(self.buf, name)

    def has(self, name):
        return self.lib.mj_containsBufferVFS(self.buf, name)

    def read(self, name):
        """open + read + close through the resource API; None if the resource cannot be opened, ('ERR', k) on read error."""
        lib = self.lib
        r = lib.mju_openResource(None, name, self.buf, self.err, 256)
        if not r:
            return None
        p = ctypes.c_void_p()
        k = lib.mju_readResource(r, ctypes.addressof(p))
        if k < 0:
            out = ("ERR", k)
        elif k == 0:
            out = b""
        else:
            out = ctypes.string_at(p.value, k)
        lib.mju_closeResource(r)
        return out

    def observe(self):
        return tuple((self.has(t), self.read(t)) for t in NAMES)

    def apply(self, op):
        if op[0] == "add":
            return self.add(NAMES[op[1]], CONTENTS[op[2]])
        if op[0] == "del":
            return self.delete(NAMES[op[1]])
        if op[0] == "has":
            return self.has(NAMES[op[1]])
        return self.read(NAMES[op[1]])


def learn_classes(lib, part):
    """K(s) from depth-1 histories; returns (class index per name, set of irreflexive names)."""
    K = []
    irreflexive = set()
    for i, s in enumerate(NAMES):
        v = Vfs(lib)
        rc = v.add(s, b"x")
        ks = frozenset(j for j, t in enumerate(NAMES) if v.has(t) == 1)
        rc2 = v.add(s, b"yy")
        v.close()
        part["traces"] += 1
        part["transitions"] += 1
        if rc != 0:
            _viol(part, "vfs: add of a new name to an empty VFS fails", "mj_addBufferVFS(%r) on an empty VFS returned %d" % (s, rc),
                           {"history": [op_str(("add", i, 1))]})
        if i not in ks:
            irreflexive.add(i)
            _viol(part, KEY_CONTAINS,
                           "fresh mjVFS: mj_addBufferVFS(vfs, %r, \"x\", 1) returned %d, then mj_containsBufferVFS(vfs, %r) returned 0 "
                           "(expected 1); the names reported present are %r; a second mj_addBufferVFS of the same string returned %d"
                           % (s.decode(), rc, s.decode(), [NAMES[j].decode() for j in sorted(ks)], rc2),
                           {"history": [op_str(("add", i, 1)), op_str(("has", i))], "name": s.decode(), "ops": [["add", i, 1], ["has", i]]})
        K.append(ks)
    order = []
    cls = []
    for ks in K:
        if ks not in order:
            order.append(ks)
        cls.append(order.index(ks))
    return cls, irreflexive


class Judge:
    """Dictionary reference model + comparison with the implementation."""

    def __init__(self, cls, irreflexive):
        self.cls = cls
        self.irr = irreflexive

    def model_step(self, st, op):
        """st: dict class -> bytes.  Returns (expected return value or None=unconstrained, new state)."""
        c = self.cls[op[1]]
        if op[0] == "add":
            if c in st:
                return 2, st
            ns = dict(st)
            ns[c] = CONTENTS[op[2]]
            return 0, ns
        if op[0] == "del":
            if c in st:
                ns = dict(st)
                del ns[c]
                return 0, ns
            return -1, st
        if op[0] == "has":
            return (1 if c in st else 0), st
        return (st[c] if c in st else None), st     # read of an absent name: unconstrained

    def judge(self, part, hist, op, ret, obs, obs2, st_before):
        """Compare one executed transition.  Returns (new model state, ok-to-expand)."""
        exp, st = self.model_step(st_before, op)
        h = hist + (op,)
        rep = {"history": [op_str(o) for o in h], "ops": [list(o) for o in h]}
        expand = True
        kind = op[0]
        if kind == "read" and exp is None:
            part.add("reads_of_absent_names_unconstrained")
            if ret is not None:
                part.add("reads_of_absent_names_resolved_by_fallback")
        elif ret != exp:
            if kind == "has" and ret == 0 and op[1] in self.irr:
                _viol(part, KEY_CONTAINS, "history %s: contains returned 0 for a name whose add succeeded and which was not deleted"
                               % hist_str(h), rep)
            elif kind == "del" and exp == -1 and ret == 0:
                gone = [NAMES[i].decode() for i in range(NN) if self.cls[i] in st_before and obs[i][0] == 0 and not
                        (i in self.irr)]
                _viol(part, KEY_DELETE, "history %s: mj_deleteFileVFS of a name that is absent (never added or already deleted; "
                               "contains==0, and adding it would succeed) returned 0 instead of -1 and removed %r"
                               % (hist_str(h), gone), rep)
                expand = False
            else:
                _viol(part, "vfs: %s returns %r where the set model requires %r" % (
                    {"add": "add", "del": "delete", "has": "contains", "read": "open+read of a present name"}[kind],
                    ret if not isinstance(ret, bytes) else ret.decode(), exp if not isinstance(exp, bytes) else exp.decode()),
                    "history %s: last operation returned %r, expected %r" % (hist_str(h), ret, exp), rep)
                expand = False
        if obs != obs2:
            _viol(part, "vfs: observing (contains / open+read+close) changes the observable state",
                           "history %s: two consecutive full observations differ: %r vs %r" % (hist_str(h), obs, obs2), rep)
        if expand:
            # full observable state vs model, for every name
            for i in range(NN):
                present = self.cls[i] in st
                has, data = obs[i]
                if has != (1 if present else 0):
                    if present and has == 0 and i in self.irr:
                        _viol(part, KEY_CONTAINS, "history %s: contains(%r) is 0 although the file is present" %
                                       (hist_str(h), NAMES[i].decode()), rep)
                    else:
                        _viol(part, "vfs: presence of a name after %s differs from the set model" % kind,
                                       "history %s: contains(%r) == %d, model says %s" % (hist_str(h), NAMES[i].decode(), has,
                                                                                          "present" if present else "absent"), rep)
                        expand = False
                if present and data != st[self.cls[i]]:
                    _viol(part, "vfs: bytes read for a present name after %s differ from the bytes added" % kind,
                                   "history %s: open+read(%r) gave %r, model has %r" % (hist_str(h), NAMES[i].decode(), data,
                                                                                       st[self.cls[i]]), rep)
                    expand = False
        return st, expand


def run_history(lib, hist):
    """Replay hist on a fresh VFS; returns (return value of last op, observation, second observation)."""
    v = Vfs(lib)
    ret = None
    for op in hist:
        ret = v.apply(op)
    obs = v.observe()
    obs2 = v.observe()
    v.close()
    return ret, obs, obs2


_G = {}


class _Collect:
    """What core.pmap needs from a ctx (seed, merge), additionally collecting the children produced by the workers."""

    def __init__(self, ctx):
        self.ctx = ctx
        self.seed = ctx.seed
        self.children = []

    def merge(self, part):
        self.children.extend(part["extra"].pop("_children", []))
        self.ctx.merge(part)

    def violation(self, *a):
        self.ctx.violation(*a)


def _setup():
    if "lib" not in _G:
        _G["lib"] = mj.load("rel")
    return _G["lib"]


def _expand_chunk(chunk):
    """chunk: list of (history, model state items); executes history+op for every op."""
    lib = _setup()
    part = core.Part()
    judge = Judge(_G["cls"], _G["irr"])
    children = []
    for hist, st_items in chunk:
        st = dict(st_items)
        for op in OPS:
            ret, obs, obs2 = run_history(lib, hist + (op,))
            part["traces"] += 1
            part["transitions"] += 1
            part["evaluations"] += 1
            st2, ok = judge.judge(part, hist, op, ret, obs, obs2, st)
            part["outcomes"].add("%s:%r" % (op[0], ret if not isinstance(ret, bytes) else "bytes"))
            if ok:
                children.append((obs, hist + (op,), tuple(sorted(st2.items()))))
    part["extra"]["_children"] = children
    return part


def _nodedup_chunk(chunk):
    """chunk: list of first operations; DFS over ALL mutator histories below each (no de-duplication)."""
    lib = _setup()
    part = core.Part()
    judge = Judge(_G["cls"], _G["irr"])
    depth = _G["nd_depth"]
    def rec(hist, st):
        for op in MUTATORS:
            ret, obs, obs2 = run_history(lib, hist + (op,))
            part["traces"] += 1
            part["transitions"] += 1
            part["evaluations"] += 1
            st2, ok = judge.judge(part, hist, op, ret, obs, obs2, st)
            if ok and len(hist) + 1 < depth:
                rec(hist + (op,), st2)

    for first in chunk:
        ret, obs, obs2 = run_history(lib, (first,))
        st2, ok = judge.judge(part, (), first, ret, obs, obs2, {})
        part["traces"] += 1
        part["transitions"] += 1
        part["evaluations"] += 1
        if ok and depth > 1:
            rec((first,), st2)
    part["extra"]["nodedup_histories"] = part["traces"]
    return part


def run(ctx):
    lib = _setup()
    depth = ctx.q(4, 5)
    nd_depth = ctx.q(3, 4)
    p0 = core.Part()
    cls, irr = learn_classes(lib, p0)
    ctx.merge(p0)
    _G["cls"], _G["irr"], _G["nd_depth"] = cls, irr, nd_depth
    ctx.extra["alias_classes_learned"] = [[NAMES[i].decode() for i in range(NN) if cls[i] == c] for c in sorted(set(cls))]
    ctx.extra["names_not_reported_present_after_own_add"] = [NAMES[i].decode() for i in sorted(irr)]

    # ---- BFS over all histories, de-duplicated on the implementation's observable state
    _, obs0, _ = run_history(lib, ())
    seen = {obs0: ()}
    frontier = [((), ())]
    per_depth = []
    for d in range(1, depth + 1):
        col = _Collect(ctx)
        core.pmap(col, _expand_chunk, frontier, nchunks=min(len(frontier), core.NCPU * 2))
        got = col.children
        # deterministic representative: shortest history, then smallest operation indices
        got.sort(key=lambda c: [OPS.index(o) for o in c[1]])
        nxt = []
        for obs, hist, st_items in got:
            if obs not in seen:
                seen[obs] = hist
                nxt.append((hist, st_items))
        per_depth.append(len(nxt))
        frontier = nxt
        if not frontier:
            break
    ctx.states += len(seen)
    ctx.extra["new_states_per_depth"] = per_depth
    ctx.extra["bfs_depth"] = depth
    for obs in seen:
        if any(o[0] for o in obs):
            ctx.nontrivial.add("state:" + repr(obs))
    for obs, hist in sorted(seen.items(), key=lambda kv: (-len(kv[1]), repr(kv[0])))[:3]:
        ctx.count(0, sample={"history": hist_str(hist),
                             "observable_state (name: contains, bytes read)": "; ".join(
                                 "%s: %d, %r" % (NAMES[i].decode(), o[0], o[1].decode() if isinstance(o[1], bytes) else o[1])
                                 for i, o in enumerate(obs))})

    # ---- all mutator histories without de-duplication (hidden-state cross-check of the de-duplication)
    core.pmap(ctx, _nodedup_chunk, MUTATORS, nchunks=len(MUTATORS))
    ctx.extra["nodedup_depth"] = nd_depth
    ctx.rule = ("BFS over all histories of %d operations (21 add, 7 delete, 7 contains, 7 open+read+close over names %s x contents "
                "['', 'x', 'yy']) to depth %d on a fresh mjVFS per history, de-duplicated on the observable state (contains and "
                "open+read of all 7 names); plus ALL %d^d mutator histories, d<=%d, without de-duplication. states = distinct "
                "observable states; distinct_nontrivial = distinct observable states with >=1 name reported present; transitions = operations judged against the "
                "dictionary model (each one is a history replayed on the real code)" %
                (len(OPS), [n.decode() for n in NAMES], depth, len(MUTATORS), nd_depth))
    ctx.assumptions = ["aliasing between different name strings is learned from the implementation (depth-1 histories) and only "
                       "required to be consistent", "reads of absent names are unconstrained (counted)",
                       "a transition that violates the model is reported and not expanded further (no cascades)"]


def replay(ctx, path):
    """./check C39 --replay <file>: re-run one recorded history, printing every return value and observation."""
    rec = json.load(open(path))["replay"]
    lib = _setup()
    ops = [tuple(o) for o in rec["ops"]]
    v = Vfs(lib)
    for op in ops:
        ret = v.apply(op)
        print("%-28s -> %r" % (op_str(op), ret))
        print("    contains: %r" % {NAMES[i].decode(): v.has(NAMES[i]) for i in range(NN)})
    v.close()
    part = core.Part()
    cls, irr = learn_classes(lib, part)
    judge = Judge(cls, irr)
    st = {}
    for k in range(len(ops)):
        ret, obs, obs2 = run_history(lib, tuple(ops[:k + 1]))
        st, ok = judge.judge(part, tuple(ops[:k]), ops[k], ret, obs, obs2, st)
    for vv in part["violations"]:
        print("VIOLATION-REPLAY %s\n  %s" % (vv["key"], vv["what"]))
    return 1 if part["violations"] else 0
