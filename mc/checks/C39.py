"""C39 Virtual file system operations have set semantics.

E2 (explicit-state history explorer) on the tree's real mjVFS, driven through the public C API:
mj_defaultVFS / mj_addBufferVFS / mj_addFileVFS / mj_deleteFileVFS / mj_containsBufferVFS / mj_containsFileVFS /
mj_deleteVFS and mju_openResource + mju_readResource + mju_closeResource.

Alphabet.  Name strings: 7 buffer names (plain, upper-case variant, sub-directory with '/' and with '\\', "./" prefix,
"d/.." detour, an unrelated name) + one mixed-case name that exists only on disk.  A "file" of the model is an ENTITY
= (how it is added, name):
  * 7 buffer entities  x 3 contents ("", "x", "yy")  added with mj_addBufferVFS(name, bytes);
  * 4 disk entities added with mj_addFileVFS(dir, name) from a fixture directory created by the check: an
    all-lower-case name, its UPPER-CASE twin (a different file on the case-sensitive fixture file system), a file in
    a sub-directory, and a mixed-case name without a twin; each has its own distinct bytes.
Operations: 21 add-buffer, 4 add-file, 8 delete, 8 contains-buffer, 4 contains-file, 8 open+read+close.  Every
history is replayed on a FRESH mjVFS; after every operation the whole observable state (contains-buffer,
contains-file and open/read of all 8 name strings, twice, so an observer that mutates is seen) is compared with a
set/dict reference model.  A disk file that does not exist is added at depth 1 (documented result: -1, nothing added).

Reference model = a dictionary  class(entity) -> (bytes, how added)  that demands only what the statement and the
API reference promise.  Which *different* entities denote the same file is not documented, so the partition of the
entities into classes is LEARNED from the implementation's own answers (K(e) = set of lookups (contains-buffer(t),
contains-file(t)) that report 1 after add(e) on an empty VFS; e ~ e' iff K(e) == K(e')) and then required to be used
consistently by add / delete / contains / read in every history.  mj_deleteFileVFS(s) and open(s) take a bare
string: s denotes the file reported by contains-buffer(s), and the file reported by contains-file(s) if that one was
added from disk; deleting s must succeed and remove exactly one of them when one is present, and fail otherwise.
"""
import ctypes
import json
import os
import shutil
import tempfile

from .. import core, mj

LEVEL = "model_checking"
META = dict(
    category=LEVEL,
    technique="explicit-state exploration of ALL operation histories of the real mjVFS up to a depth bound (BFS, "
              "de-duplicated on the observable state; plus all mutator histories without de-duplication), dictionary "
              "reference model with aliasing learned from the implementation",
    text="Every history of add-buffer / add-file-from-disk / delete / contains-buffer / contains-file / open+read+close over "
         "8 name strings (case variant, both separators, './', 'd/..', mixed case), 7 buffer names x 3 contents and 4 disk "
         "files (lower case, upper-case twin, sub-directory, mixed case) up to depth 4 (thorough 5) is executed on a fresh "
         "mjVFS of the tree-built library and compared, after every operation and for every name, with a set model: present "
         "iff added and not deleted since; repeated add returns 2 and keeps the bytes; read of a present name returns exactly "
         "the bytes (of the buffer, or of the disk file); delete by the name a file was added under returns 0 and removes "
         "exactly it, delete of an absent name returns -1 and changes nothing; observers do not mutate; adding a disk file "
         "that does not exist returns -1.  Exhaustive within the bound; the state space (each alias class absent or holding one "
         "of its possible contents) is closed at depth 4, so deeper histories only revisit states.",
    note="Trusted base: ctypes call wrappers; a case-sensitive file system under the temporary fixture directory (verified "
         "at start). Aliasing between different entities is learned, not demanded; only contains(e) after add(e) for the SAME "
         "entity is demanded outright. Reading an ABSENT name is not constrained by the statement (the implementation falls "
         "back to a case-insensitive base-name match and then to the disk); those reads are counted, not judged. One "
         "directory spelling is used for mj_addFileVFS / mj_containsFileVFS; user-mounted providers / concurrent use are not "
         "covered.",
    design_ref="DESIGN.md §3 C39")

# name strings (indices 0..6 are the buffer names and are stable: recorded replays refer to them)
NAMES = [b"a.txt", b"A.TXT", b"d/a.txt", b"d\\a.txt", b"./a.txt", b"d/../a.txt", b"b.txt", b"B.txt"]
NN = len(NAMES)
BUF_NAMES = list(range(7))                       # name indices that are added as buffers
CONTENTS = [b"", b"x", b"yy"]
# disk files of the fixture directory: name index -> bytes on disk (distinct from each other and from CONTENTS)
DISK = {0: b"disk-lower", 1: b"DISK-UPPER", 2: b"disk-sub", 7: b"Disk-Mixed"}
DISK_NAMES = sorted(DISK)
MISSING = b"nofile.txt"                          # never created on disk

KEY_CONTAINS = "vfs: contains(name) false right after successful add(name) for names that path-reduce"
KEY_CONTAINS_FILE = "vfs: containsFile(dir,name) false right after successful addFile(dir,name)"
KEY_DELETE = "vfs: delete(name) of an absent name returns success and removes a different file with the same lower-cased base name"
KEY_MISSING = "vfs: addFile of a file that does not exist on disk does not fail"
KEY_READ_AMBIG = ("vfs: open+read of a present disk file returns the bytes of a present buffer whose own name aliases it as a "
                  "file name")

# operations: ("add", name, content) | ("addf", name) | ("del", n) | ("has", n) | ("hasf", n) | ("read", n)
OPS = ([("add", n, c) for n in BUF_NAMES for c in range(len(CONTENTS))] + [("addf", n) for n in DISK_NAMES] +
       [("del", n) for n in range(NN)] + [("has", n) for n in range(NN)] + [("hasf", n) for n in DISK_NAMES] +
       [("read", n) for n in range(NN)])
MUTATORS = [o for o in OPS if o[0] in ("add", "addf", "del")]
# entities that can be added, lookups that can be asked
ENTITIES = [("b", n) for n in BUF_NAMES] + [("f", n) for n in DISK_NAMES]
LOOKUPS = [("b", n) for n in range(NN)] + [("f", n) for n in range(NN)]
OPNAME = {"add": "add", "addf": "add-file", "del": "delete", "has": "contains", "hasf": "contains-file",
          "read": "open+read of a present name"}


def split_forms(t):
    """(dir, name) spellings of the path string t: split at the last separator, directory with and without it."""
    p = max(t.rfind(b"/"), t.rfind(b"\\"))
    if p < 0:
        return []
    return [(t[:p + 1], t[p + 1:]), (t[:p], t[p + 1:])]


def op_str(op):
    nm = NAMES[op[1]].decode()
    if op[0] == "add":
        return "add(%r,%r)" % (nm, CONTENTS[op[2]].decode())
    return "%s(%r)" % ({"addf": "addFile", "del": "delete", "has": "contains", "hasf": "containsFile",
                        "read": "open+read"}[op[0]], nm)


def hist_str(h):
    return " ; ".join(op_str(o) for o in h)


def _viol(part, key, what, replay=None):
    if all(v["key"] != key for v in part["violations"]):
        part.violation(key, what, replay)


def make_fixture():
    """Directory with the disk files; raises if the file system does not keep case twins apart."""
    root = tempfile.mkdtemp(prefix="c39_disk_")
    for n, data in DISK.items():
        p = os.path.join(root, NAMES[n].decode())
        os.makedirs(os.path.dirname(p), exist_ok=True)
        with open(p, "wb") as f:
            f.write(data)
    for n, data in DISK.items():
        with open(os.path.join(root, NAMES[n].decode()), "rb") as f:
            if f.read() != data:
                raise RuntimeError("C39 fixture: %s does not keep case twins apart" % root)
    if os.path.exists(os.path.join(root, MISSING.decode())):
        raise RuntimeError("C39 fixture: unexpected file")
    return root.encode()


class Vfs:
    """One fresh mjVFS of the tree library."""

    def __init__(self, lib, root=None):
        self.lib = lib
        self.root = root if root is not None else _G.get("root")
        n = lib.c.vg_sizeof(b"mjVFS")
        self.buf = ctypes.create_string_buffer(max(int(n), 8))
        lib.mj_defaultVFS(self.buf)
        self.err = ctypes.create_string_buffer(256)

    def close(self):
        self.lib.mj_deleteVFS(self.buf)

    def add(self, name, data):
        return self.lib.mj_addBufferVFS(self.buf, name, data, len(data))

    def addf(self, name):
        return self.lib.mj_addFileVFS(self.buf, self.root, name)

    def delete(self, name):
        return self.lib.mj_deleteFileVFS(self.buf, name)

    def has(self, name):
        return self.lib.mj_containsBufferVFS(self.buf, name)

    def hasf(self, name):
        return self.lib.mj_containsFileVFS(self.buf, self.root, name)

    def read(self, name, dir_=None):
        """open + read + close through the resource API; None if the resource cannot be opened, ('ERR', k) on read error."""
        lib = self.lib
        r = lib.mju_openResource(dir_, name, self.buf, self.err, 256)
        if not r:
            return None
        p = ctypes.c_void_p()
        k = lib.mju_readResource(r, ctypes.addressof(p))
        if k < 0:
            out = ("ERR", k)
        elif k == 0:
            out = b""
        else:
            out = ctypes.string_at(p.value, k)
        lib.mju_closeResource(r)
        return out

    def observe(self):
        # 4th component: the same name opened as (directory, base name) -- with and without the trailing separator, the
        # form mju_getResourceDir produces -- must denote the same file as the single string
        return tuple((self.has(t), self.hasf(t), self.read(t), tuple(self.read(nm, d) for d, nm in split_forms(t))) for t in NAMES)

    def apply(self, op):
        k = op[0]
        if k == "add":
            return self.add(NAMES[op[1]], CONTENTS[op[2]])
        if k == "addf":
            return self.addf(NAMES[op[1]])
        if k == "del":
            return self.delete(NAMES[op[1]])
        if k == "has":
            return self.has(NAMES[op[1]])
        if k == "hasf":
            return self.hasf(NAMES[op[1]])
        return self.read(NAMES[op[1]])


def ent_str(e):
    return ("buffer %r" if e[0] == "b" else "disk file %r") % NAMES[e[1]].decode()


def learn_classes(lib, part):
    """K(e) from depth-1 histories.

    Returns (cls: entity -> class index, look: lookup -> frozenset of class indices it reports, set of irreflexive entities)."""
    K = {}
    irreflexive = set()
    for e in ENTITIES:
        kind, i = e
        s = NAMES[i]
        op = ("add", i, 1) if kind == "b" else ("addf", i)
        v = Vfs(lib)
        rc = v.apply(op)
        ks = frozenset([("b", j) for j, t in enumerate(NAMES) if v.has(t) == 1] +
                       [("f", j) for j, t in enumerate(NAMES) if v.hasf(t) == 1])
        rc2 = v.apply(("add", i, 2) if kind == "b" else op)
        v.close()
        part["traces"] += 1
        part["transitions"] += 1
        if rc != 0:
            _viol(part, "vfs: add of a new name to an empty VFS fails", "%s on an empty VFS returned %d" % (op_str(op), rc),
                  {"history": [op_str(op)], "ops": [list(op)]})
        if e not in ks:
            irreflexive.add(e)
            probe = ("has", i) if kind == "b" else ("hasf", i)
            _viol(part, KEY_CONTAINS if kind == "b" else KEY_CONTAINS_FILE,
                  "fresh mjVFS: %s returned %d, then %s returned 0 (expected 1); the lookups reported present are %r; a "
                  "second add of the same %s returned %d"
                  % (op_str(op), rc, op_str(probe), sorted("%s(%s)" % ("contains" if k == "b" else "containsFile",
                                                                       NAMES[j].decode()) for k, j in ks), ent_str(e), rc2),
                  {"history": [op_str(op), op_str(probe)], "name": s.decode(), "ops": [list(op), list(probe)]})
        K[e] = ks
    order = []
    cls = {}
    for e in ENTITIES:
        if K[e] not in order:
            order.append(K[e])
        cls[e] = order.index(K[e])
    look = {}
    for lk in LOOKUPS:
        look[lk] = frozenset(cls[e] for e in ENTITIES if lk in K[e])

    # a disk file that does not exist: documented "-1: failed to load", and nothing may become present
    v = Vfs(lib)
    rc = v.addf(MISSING)
    seen = [nm for nm, val in (("containsFile", v.hasf(MISSING)), ("contains", v.has(MISSING))) if val]
    data = v.read(MISSING)
    obs = v.observe()
    v.close()
    part["traces"] += 1
    part["transitions"] += 1
    part.add("missing_disk_file_histories")
    if rc != -1 or seen or data is not None or any(o[0] or o[1] for o in obs):
        _viol(part, KEY_MISSING,
              "fresh mjVFS: mj_addFileVFS(vfs, <fixture dir>, %r) for a file that does not exist returned %d (documented: -1 "
              "failed to load); afterwards %s report the name present and open+read of it gives %r"
              % (MISSING.decode(), rc, seen or "no lookups", data),
              {"history": ["addFile(%r)" % MISSING.decode()], "missing": MISSING.decode()})
    return cls, look, irreflexive


class Judge:
    """Dictionary reference model + comparison with the implementation.

    Model state: dict class -> (bytes, how, name index) with how in "b" (added as buffer) / "f" (added from disk) and
    the name string it was added under."""

    def __init__(self, cls, look, irreflexive):
        self.cls = cls
        self.look = look
        self.irr = irreflexive

    # ---- what a bare name string denotes
    def targets(self, st, n):
        """Classes present in st that the string NAMES[n] denotes: the file(s) contains-buffer(s) reports, and the file(s)
        contains-file(s) reports provided they were added from disk.  Second value: classes only reached through the
        contains-file aliasing of a file that was added as a BUFFER (legacy fallback region)."""
        t = [c for c in sorted(self.look[("b", n)]) if c in st]
        legacy = []
        for c in sorted(self.look[("f", n)]):
            if c in st and c not in t:
                (t if st[c][1] == "f" else legacy).append(c)
        return t, legacy

    def shadowing_buffer(self, st, n, data):
        """NAMES[n] denotes only file(s) added from disk (no buffer of that name is present) but `data` was read: the
        present buffer (class, name) holding exactly `data` whose own name string, asked as a FILE name, is reported as
        the file being read (contains-file aliasing), or None."""
        if any(c in st for c in self.look[("b", n)]):
            return None
        t, _ = self.targets(st, n)
        for c in sorted(st):
            if c not in t and st[c][1] == "b" and st[c][0] == data and any(x in t for x in self.look[("f", st[c][2])]):
                return c, NAMES[st[c][2]].decode()
        return None

    def expected_obs(self, st):
        """Per name string: (contains-buffer, contains-file, set of acceptable bytes or None = unconstrained)."""
        out = []
        for n in range(NN):
            hb = 1 if any(c in st for c in self.look[("b", n)]) else 0
            hf = 1 if any(c in st for c in self.look[("f", n)]) else 0
            t, _ = self.targets(st, n)
            out.append((hb, hf, set(st[c][0] for c in t) if t else None))
        return out

    def presence_matches(self, st, obs):
        return all(o[0] == e[0] and o[1] == e[1] for o, e in zip(obs, self.expected_obs(st)))

    def model_step(self, st, op, obs):
        """Returns (set of acceptable return values or None=unconstrained, new state, legacy classes).  obs (the
        implementation's observation after op) only selects among several equally acceptable successors of a delete."""
        kind = op[0]
        if kind in ("add", "addf"):
            e = ("b" if kind == "add" else "f", op[1])
            c = self.cls[e]
            if c in st:
                return {2}, st, []
            ns = dict(st)
            ns[c] = (CONTENTS[op[2]], "b", op[1]) if kind == "add" else (DISK[op[1]], "f", op[1])
            return {0}, ns, []
        if kind == "del":
            t, legacy = self.targets(st, op[1])
            if not t:
                return {-1}, st, legacy
            succ = []
            for c in t:
                ns = dict(st)
                del ns[c]
                succ.append(ns)
            for ns in succ:
                if self.presence_matches(ns, obs):
                    return {0}, ns, []
            return {0}, succ[0], []
        if kind == "has":
            return {1 if any(c in st for c in self.look[("b", op[1])]) else 0}, st, []
        if kind == "hasf":
            return {1 if any(c in st for c in self.look[("f", op[1])]) else 0}, st, []
        t, _ = self.targets(st, op[1])
        return (set(st[c][0] for c in t) if t else None), st, []     # read of an absent name: unconstrained

    def judge(self, part, hist, op, ret, obs, obs2, st_before):
        """Compare one executed transition.  Returns (new model state, ok-to-expand)."""
        exp, st, legacy = self.model_step(st_before, op, obs)
        h = hist + (op,)
        rep = {"history": [op_str(o) for o in h], "ops": [list(o) for o in h]}
        expand = True
        for i in range(NN):
            for (d_, nm_), got in zip(split_forms(NAMES[i]), obs[i][3]):
                part.add("split_form_reads")
                if got != obs[i][2]:
                    _viol(part, "vfs: open(dir, name) resolves to a different file than open(dir + name)",
                          "history %s: open+read(dir=%r, name=%r) gave %r, open+read(%r) gave %r"
                          % (hist_str(h), d_.decode(), nm_.decode(), got, NAMES[i].decode(), obs[i][2]), rep)
                    expand = False
        kind = op[0]
        show = lambda x: x.decode() if isinstance(x, bytes) else x
        if kind == "read" and exp is None:
            part.add("reads_of_absent_names_unconstrained")
            if ret is not None:
                part.add("reads_of_absent_names_resolved_by_fallback")
        elif ret not in exp:
            exp1 = sorted(exp, key=repr)[0] if len(exp) == 1 else None
            if kind in ("has", "hasf") and ret == 0 and (("b" if kind == "has" else "f"), op[1]) in self.irr:
                _viol(part, KEY_CONTAINS if kind == "has" else KEY_CONTAINS_FILE,
                      "history %s: contains returned 0 for a name whose add succeeded and which was not deleted" % hist_str(h), rep)
            elif kind == "read" and self.shadowing_buffer(st, op[1], ret):
                _viol(part, KEY_READ_AMBIG, "history %s: open+read(%r) returned %r, the bytes of buffer %r, instead of %r"
                      % (hist_str(h), NAMES[op[1]].decode(), ret, self.shadowing_buffer(st, op[1], ret)[1], sorted(exp)), rep)
                expand = False
            elif kind == "del" and ret == 0 and legacy:
                before = self.expected_obs(st_before)
                gone = [NAMES[i].decode() for i in range(NN) if before[i][0] == 1 and obs[i][0] == 0]
                _viol(part, KEY_DELETE, "history %s: mj_deleteFileVFS of a name that is absent (never added or already deleted; "
                      "contains==0, and adding it as a buffer would succeed) returned 0 instead of -1 and removed %r, added as a "
                      "buffer under another name" % (hist_str(h), gone), rep)
                expand = False
            else:
                _viol(part, "vfs: %s returns %r where the set model requires %s" % (
                    OPNAME[kind], show(ret), repr(show(exp1)) if len(exp) == 1 else "one of %r" % sorted(map(show, exp), key=repr)),
                    "history %s: last operation returned %r, expected %r" % (hist_str(h), ret, sorted(exp, key=repr)), rep)
                expand = False
        if obs != obs2:
            _viol(part, "vfs: observing (contains / open+read+close) changes the observable state",
                  "history %s: two consecutive full observations differ: %r vs %r" % (hist_str(h), obs, obs2), rep)
        if expand:
            # full observable state vs model, for every name string
            eo = self.expected_obs(st)
            for i in range(NN):
                for which, lk in ((0, "b"), (1, "f")):
                    if obs[i][which] == eo[i][which]:
                        continue
                    fn = "contains" if lk == "b" else "containsFile"
                    if eo[i][which] == 1 and (lk, i) in self.irr:
                        _viol(part, KEY_CONTAINS if lk == "b" else KEY_CONTAINS_FILE,
                              "history %s: %s(%r) is 0 although the file is present" % (hist_str(h), fn, NAMES[i].decode()), rep)
                    else:
                        _viol(part, "vfs: presence of a name after %s differs from the set model" % OPNAME[kind].split(" of ")[0],
                              "history %s: %s(%r) == %d, model says %s" % (hist_str(h), fn, NAMES[i].decode(), obs[i][which],
                                                                          "present" if eo[i][which] else "absent"), rep)
                        expand = False
                if eo[i][2] is not None and obs[i][2] not in eo[i][2] and self.shadowing_buffer(st, i, obs[i][2]):
                    _viol(part, KEY_READ_AMBIG, "history %s: open+read(%r) gave %r, the bytes of buffer %r; the model has %r (the "
                          "disk file present under that name)" % (hist_str(h), NAMES[i].decode(), obs[i][2],
                                                                  self.shadowing_buffer(st, i, obs[i][2])[1], sorted(eo[i][2])), rep)
                    expand = False
                elif eo[i][2] is not None and obs[i][2] not in eo[i][2]:
                    _viol(part, "vfs: bytes read for a present name after %s differ from the bytes added" % OPNAME[kind].split(" of ")[0],
                          "history %s: open+read(%r) gave %r, model has %r" % (hist_str(h), NAMES[i].decode(), obs[i][2],
                                                                             sorted(eo[i][2])), rep)
                    expand = False
        return st, expand


def run_history(lib, hist, twice=True):
    """Replay hist on a fresh VFS; returns (return value of last op, observation, second observation)."""
    v = Vfs(lib)
    ret = None
    for op in hist:
        ret = v.apply(op)
    obs = v.observe()
    obs2 = v.observe() if twice else obs
    v.close()
    return ret, obs, obs2


_G = {}


class _Collect:
    """What core.pmap needs from a ctx (seed, merge), additionally collecting the children produced by the workers."""

    def __init__(self, ctx):
        self.ctx = ctx
        self.seed = ctx.seed
        self.children = []

    def merge(self, part):
        self.children.extend(part["extra"].pop("_children", []))
        self.ctx.merge(part)

    def violation(self, *a):
        self.ctx.violation(*a)


def _setup():
    if "lib" not in _G:
        _G["lib"] = mj.load("rel")
    return _G["lib"]


def _freeze(st):
    return tuple(sorted(st.items()))


def _expand_chunk(chunk):
    """chunk: list of (history, model state items); executes history+op for every op."""
    lib = _setup()
    part = core.Part()
    judge = Judge(_G["cls"], _G["look"], _G["irr"])
    children = []
    for hist, st_items in chunk:
        st = dict(st_items)
        for op in OPS:
            ret, obs, obs2 = run_history(lib, hist + (op,))
            part["traces"] += 1
            part["transitions"] += 1
            part["evaluations"] += 1
            st2, ok = judge.judge(part, hist, op, ret, obs, obs2, st)
            part["outcomes"].add("%s:%r" % (op[0], ret if not isinstance(ret, bytes) else "bytes"))
            if any(o[0] == "addf" for o in hist + (op,)):
                part.add("histories_with_a_disk_file")
                if op[0] == "del" and any(v[1] == "f" for v in st.values()):
                    part.add("deletes_judged_with_a_disk_file_present")
            if ok:
                children.append((obs, hist + (op,), _freeze(st2)))
    part["extra"]["_children"] = children
    return part


def _nodedup_chunk(chunk):
    """chunk: list of first operations; DFS over ALL mutator histories below each (no de-duplication)."""
    lib = _setup()
    part = core.Part()
    judge = Judge(_G["cls"], _G["look"], _G["irr"])
    depth = _G["nd_depth"]

    def rec(hist, st):
        for op in MUTATORS:
            ret, obs, obs2 = run_history(lib, hist + (op,), twice=False)
            part["traces"] += 1
            part["transitions"] += 1
            part["evaluations"] += 1
            st2, ok = judge.judge(part, hist, op, ret, obs, obs2, st)
            if ok and len(hist) + 1 < depth:
                rec(hist + (op,), st2)

    for first in chunk:
        ret, obs, obs2 = run_history(lib, (first,), twice=False)
        st2, ok = judge.judge(part, (), first, ret, obs, obs2, {})
        part["traces"] += 1
        part["transitions"] += 1
        part["evaluations"] += 1
        if ok and depth > 1:
            rec((first,), st2)
    part["extra"]["nodedup_histories"] = part["traces"]
    return part


def _lookup_str(lk):
    return "%s(%s)" % ("contains" if lk[0] == "b" else "containsFile", NAMES[lk[1]].decode())


def run(ctx):
    lib = _setup()
    depth = ctx.q(4, 5)
    nd_depth = ctx.q(3, 4)
    _G["root"] = make_fixture()
    try:
        _run(ctx, lib, depth, nd_depth)
    finally:
        shutil.rmtree(_G["root"].decode(), ignore_errors=True)


def _run(ctx, lib, depth, nd_depth):
    p0 = core.Part()
    cls, look, irr = learn_classes(lib, p0)
    ctx.merge(p0)
    _G["cls"], _G["look"], _G["irr"], _G["nd_depth"] = cls, look, irr, nd_depth
    ctx.extra["alias_classes_learned"] = [[ent_str(e) for e in ENTITIES if cls[e] == c] for c in sorted(set(cls.values()))]
    ctx.extra["lookups_per_class"] = [sorted(_lookup_str(lk) for lk in LOOKUPS if c in look[lk]) for c in sorted(set(cls.values()))]
    ctx.extra["names_not_reported_present_after_own_add"] = [ent_str(e) for e in sorted(irr)]
    ctx.extra["operations"] = {k: sum(1 for o in OPS if o[0] == k) for k in ("add", "addf", "del", "has", "hasf", "read")}

    # ---- BFS over all histories, de-duplicated on the implementation's observable state
    _, obs0, _ = run_history(lib, ())
    seen = {obs0: ()}
    frontier = [((), ())]
    per_depth = []
    for d in range(1, depth + 1):
        col = _Collect(ctx)
        # a small frontier is expanded in this process: starting the worker pool costs more than the histories themselves
        small = len(frontier) * len(OPS) <= 2500
        core.pmap(col, _expand_chunk, frontier, nchunks=1 if small else min(len(frontier), core.NCPU * 2))
        got = col.children
        # deterministic representative: shortest history, then smallest operation indices
        got.sort(key=lambda c: [OPS.index(o) for o in c[1]])
        nxt = []
        for obs, hist, st_items in got:
            if obs not in seen:
                seen[obs] = hist
                nxt.append((hist, st_items))
        per_depth.append(len(nxt))
        frontier = nxt
        if not frontier:
            break
    ctx.states += len(seen)
    ctx.extra["new_states_per_depth"] = per_depth
    ctx.extra["bfs_depth"] = depth
    ctx.extra["states_holding_a_disk_file"] = sum(1 for h in seen.values() if any(o[0] == "addf" for o in h))
    for obs in seen:
        if any(o[0] or o[1] for o in obs):
            ctx.nontrivial.add("state:" + repr(obs))
    for obs, hist in sorted(seen.items(), key=lambda kv: (-len(kv[1]), repr(kv[0])))[:3]:
        ctx.count(0, sample={"history": hist_str(hist),
                             "observable_state (name: contains, containsFile, bytes read)": "; ".join(
                                 "%s: %d, %d, %r" % (NAMES[i].decode(), o[0], o[1], o[2].decode() if isinstance(o[2], bytes) else o[2])
                                 for i, o in enumerate(obs))})

    # ---- all mutator histories without de-duplication (hidden-state cross-check of the de-duplication)
    core.pmap(ctx, _nodedup_chunk, MUTATORS, nchunks=len(MUTATORS))
    ctx.extra["nodedup_depth"] = nd_depth
    nops = ctx.extra["operations"]
    ctx.rule = ("BFS over all histories of %d operations (%d add-buffer = 7 names x contents ['', 'x', 'yy']; %d add-file from a "
                "fixture directory: disk files %s with distinct bytes; %d delete, %d contains-buffer, %d contains-file, %d "
                "open+read+close over name strings %s) to depth %d on a fresh mjVFS per history, de-duplicated on the observable "
                "state (contains-buffer, contains-file and open+read of all %d name strings); plus ALL %d^d mutator histories, "
                "d<=%d, without de-duplication; plus the depth-1 history that adds a disk file that does not exist. states = "
                "distinct observable states; distinct_nontrivial = distinct observable states with >=1 name reported present; "
                "transitions = operations judged against the dictionary model (each one is a history replayed on the real code)" %
                (len(OPS), nops["add"], nops["addf"], [NAMES[n].decode() for n in DISK_NAMES], nops["del"], nops["has"],
                 nops["hasf"], nops["read"], [n.decode() for n in NAMES], depth, NN, len(MUTATORS), nd_depth))
    ctx.assumptions = ["aliasing between different entities (buffer name / disk file name) is learned from the implementation "
                       "(depth-1 histories) and only required to be consistent", "reads of absent names are unconstrained (counted)",
                       "a bare name passed to delete / open denotes the file that contains-buffer reports for it, or the file "
                       "that contains-file reports for it if that file was added from disk; when both are present either may be "
                       "removed / read",
                       "the fixture directory lives on a case-sensitive file system (verified when it is created)",
                       "a transition that violates the model is reported and not expanded further (no cascades)"]


def replay(ctx, path):
    """./check C39 --replay <file>: re-run one recorded history, printing every return value and observation."""
    rec = json.load(open(path))["replay"]
    lib = _setup()
    _G["root"] = make_fixture()
    try:
        learned = core.Part()
        cls, look, irr = learn_classes(lib, learned)
        part = core.Part()
        if rec.get("missing"):
            # the depth-1 history with a disk file that does not exist is part of learn_classes
            part["violations"] = [v for v in learned["violations"] if v["key"] == KEY_MISSING]
        else:
            ops = [tuple(o) for o in rec["ops"]]
            v = Vfs(lib)
            for op in ops:
                ret = v.apply(op)
                print("%-28s -> %r" % (op_str(op), ret))
                print("    contains:     %r" % {NAMES[i].decode(): v.has(NAMES[i]) for i in range(NN)})
                print("    containsFile: %r" % {NAMES[i].decode(): v.hasf(NAMES[i]) for i in range(NN)})
            v.close()
            judge = Judge(cls, look, irr)
            st = {}
            for k in range(len(ops)):
                ret, obs, obs2 = run_history(lib, tuple(ops[:k + 1]))
                st, ok = judge.judge(part, tuple(ops[:k]), ops[k], ret, obs, obs2, st)
    finally:
        shutil.rmtree(_G["root"].decode(), ignore_errors=True)
    for vv in part["violations"]:
        print("VIOLATION-REPLAY %s\n  %s" % (vv["key"], vv["what"]))
    return 1 if part["violations"] else 0
