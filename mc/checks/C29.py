"""C29 Passive forces follow their physical laws.

Every rooted ordered forest with <= N bodies x the full joint menu x a lattice of passive configurations
(linear / polynomial joint springs and dampers incl. a sign-preserving negative quadratic coefficient, fixed and
spatial tendons with a spring dead band and polynomial damping, gravcomp in {0,.5,1} per body, actuatorgravcomp,
a fluid) x the passive disable flags {none, spring, damper, spring+damper, gravity} x a state lattice
x the sleep dimension: for every model with >= 2 kinematic trees, every single tree (thorough: every non-empty proper
subset of the trees) is put to sleep through the documented path (enable flag sleep + sleep="init" on the tree's root
body) and the same laws are checked on the dofs of the trees that stay awake, the sleeper being held at its
(frozen) reset state; the passive-force arrays of the sleeping dofs must stay bit-identical to their values at
reset.  With a tree asleep mj_passive and its helpers iterate over the awake-body / awake-dof index lists
(body_awake_ind, dof_awake_ind) instead of 0..n-1, so every per-dof / per-joint / per-body lookup goes through
one more level of indexing; the sleeper both precedes and follows awake trees in dof order.

Oracle (numpy, from XMLreference joint/tendon stiffness, damping, springref, springlength, gravcomp and
computation/index.rst gePassive, gePolynomial):
  qfrc_spring  == -f(q (-) springref) per joint (quaternion difference for ball/free) + J_ten' * (-f(dead-band deflection))
               == -d(reported spring potential)/dq (central differences of energy[0] with gravity disabled)
  qfrc_damper  == -f_odd(v) per dof + J_ten' * (-f_odd(J_ten v));  qfrc_damper . qvel <= 0 for every lattice velocity
  qfrc_gravcomp== -sum_b c_b m_b J_com,b' g  (0 when gravity is disabled)
  qfrc_passive == spring + damper + gravcomp (joints without actuatorgravcomp) + fluid; all zero when spring and damper are both disabled
  at rest at the spring reference (v = 0, no gravcomp): qfrc_passive == 0 exactly
"""
import math
import re

import numpy as np

from .. import alphabet as A
from .. import core, mj
from ..mjutil import relerr, dense
from . import _c05_util as U

LEVEL = "exploration"
META = dict(
    category=LEVEL,
    technique="exhaustive enumeration of all kinematic forests <= N bodies x joint menu x passive-configuration lattice x disable-flag lattice "
              "x state lattice; numpy reference of the documented force laws, finite-difference gradient of the reported potential, sign invariant",
    text="Spring, damper and gravity-compensation forces of every model in the lattice are recomputed in numpy from the documented laws "
         "(linear and polynomial, quaternion deflection for ball/free joints, tendon dead band, gear-free tendon Jacobian, per-body "
         "gravcomp) and compared with qfrc_spring / qfrc_damper / qfrc_gravcomp / qfrc_passive at every lattice state and for every "
         "passive disable-flag combination; dissipation and zero-force-at-rest are checked as invariants. Sign and frame errors only show "
         "for particular joint types and poses; the lattice contains every joint type in every position of every small tree.",
    note="Tendon lengths/Jacobians and body-com Jacobians are the engine's (C07). Polynomial damping on ball/free joints is per dof and "
         "polynomial stiffness on ball/free joints acts on the geodesic distance (the only reading the docs allow). Fluid forces enter only "
         "the sum identity (their law is not part of the statement). Ball-spring cut locus (angle pi), exact dead-band ends and zero-length "
         "spatial-tendon segments are excluded from the gradient test by a counted rule. "
         "Not covered: flex elasticity / edge spring-dampers, passive contact and adhesion forces, actuator-contributed tendon damping, "
         "mjcb_passive and passive plugins (the statement is about joint/tendon springs, dampers and gravcomp).",
    design_ref="DESIGN.md §3 C29")

TOL = 1e-10
FD_EPS = 1e-6
FLAGS = [(0, "-"), (U.DSBL_SPRING, "spring-off"), (U.DSBL_DAMPER, "damper-off"),
         (U.DSBL_SPRING | U.DSBL_DAMPER, "spring+damper-off"), (U.DSBL_GRAVITY, "gravity-off")]

# variant -> (joint default attrs, needs)
JVAR = {
    "linear": 'stiffness="1.5" springref="0.2" damping="0.4"',
    "poly": 'stiffness="1.2 0.8 0.6" springref="-0.15" damping="0.3 0.2 0.1"',
    "polyneg": 'stiffness="1.2 -0.5 0.6" springref="0.3" damping="0.3 -0.2 0.1"',     # b^2 <= 4ac: still sign preserving
    "none": "",
}
VARIANTS = ["linear", "poly", "polyneg", "tendon_fixed", "tendon_fixed_auto", "tendon_spatial", "gravcomp", "actgravcomp", "actgravcomp_noact", "fluid"]
# quick tier: one variant per engine code path that is filtered by the awake lists (joint springs + dof dampers,
# tendon spring-damper, gravcomp, gravcomp routed by actuatorgravcomp, fluid); thorough: all variants x all flags
SLEEP_VARIANTS_QUICK = ["linear", "polyneg", "tendon_fixed", "tendon_spatial", "gravcomp", "actgravcomp", "fluid"]
SLEEP_ARRAYS = ["qfrc_spring", "qfrc_damper", "qfrc_gravcomp", "qfrc_fluid", "qfrc_passive"]
WRAP_JOINT, WRAP_PULLEY, WRAP_SITE = 1, 2, 3
KEY_ACTGC_NOACT = ("gravity compensation of actuatorgravcomp joints is dropped when the model has no actuators "
                   "(mj_fwdActuation returns before adding qfrc_gravcomp to qfrc_actuator)")


def gravcomp_assignments(n, thorough):
    vals = [0.0, 0.5, 1.0]
    import itertools
    allc = [c for c in itertools.product(vals, repeat=n) if any(c)]
    if n <= 2 or thorough and n <= 3 and False:
        return allc
    # covering set for n = 3: every value at every position, with every pair of positions differing at least once
    return [c for i, c in enumerate(allc) if i % 6 in (0, 3)]


def tree_roots(par, js):
    """First body of every kinematic tree, in tree order: a body with a joint whose ancestors are all jointless."""
    out = []
    for i in range(len(par)):
        if js[i] == "none":
            continue
        a = par[i]
        while a != -1 and js[a] == "none":
            a = par[a]
        if a == -1:
            out.append(i)
    return out


def sleeper_sets(ntree, thorough):
    """Non-empty proper subsets of the trees that are put to sleep: singletons (quick), all of them (thorough)."""
    import itertools
    if ntree < 2:
        return []
    sizes = range(1, ntree) if thorough else (1,)
    return [c for k in sizes for c in itertools.combinations(range(ntree), k)]


def tendon_coupled_trees(m):
    """Trees touched by a tendon that spans >= 2 trees: the compiler forbids sleep='init' on them (every tendon of this
    lattice has stiffness or damping)."""
    blocked = set()
    for t in range(m.ntendon):
        trees = set()
        for w in range(int(m.tendon_adr[t]), int(m.tendon_adr[t]) + int(m.tendon_num[t])):
            wt, obj = int(m.wrap_type[w]), int(m.wrap_objid[w])
            if wt == WRAP_PULLEY or wt == 0:
                continue
            b = int(m.jnt_bodyid[obj]) if wt == WRAP_JOINT else int(m.site_bodyid[obj]) if wt == WRAP_SITE else int(m.geom_bodyid[obj])
            if m.body_treeid[b] >= 0:
                trees.add(int(m.body_treeid[b]))
        if len(trees) >= 2:
            blocked |= trees
    return blocked


def build(par, js, variant, gc=None, sleepers=None):
    n = len(par)
    jn = U.joint_names(js)
    scal = [nm for nm, t in jn if t in ("hinge", "slide")]
    default = ""
    sections = ""
    world_extra = ""
    option = {}
    jattr = ""
    if variant in ("linear", "poly", "polyneg"):
        default = "<joint %s/>" % JVAR[variant]
    elif variant in ("tendon_fixed", "tendon_fixed_auto"):
        if not scal:
            return None
        j2 = '<joint joint="%s" coef="-0.7"/>' % scal[1] if len(scal) > 1 else ""
        if variant == "tendon_fixed":
            default = '<joint %s/>' % JVAR["linear"]
            tat = 'stiffness="2.5 0.5 0.3" springlength="-0.1 0.25" damping="0.2 0.1 0.05"'
        else:
            tat = 'stiffness="2.5" damping="0.2"'       # springlength auto (-1): rest length from the reference configuration
        sections = '<tendon><fixed name="t0" %s><joint joint="%s" coef="1.3"/>%s</fixed></tendon>\n' % (tat, scal[0], j2)
    elif variant == "tendon_spatial":
        world_extra = '    <site name="sw" pos="0.3 0.2 0.4"/>\n'
        last = n - 1
        sections = ('<tendon><spatial name="t0" stiffness="2.5 0.5 0.3" springlength="0.2 0.45" damping="0.2 -0.1 0.05">'
                    '<site site="sw"/><site site="s%d"/>%s</spatial></tendon>\n' % (0, '<site site="s%d"/>' % last if last > 0 else ""))
    elif variant in ("gravcomp", "actgravcomp", "actgravcomp_noact"):
        default = '<joint %s/>' % JVAR["linear"]
        if variant != "gravcomp":
            # the last body's joints route gravcomp to qfrc_actuator
            jattr = ['actuatorgravcomp="true"' if i == n - 1 else "" for i in range(n)]
        if variant == "actgravcomp":
            # an (idle, ctrl = 0) motor so that the model has an actuator
            sections = '<actuator><motor name="a0" joint="%s" gear="%s"/></actuator>\n' % (
                jn[0][0], {"hinge": "1", "slide": "1", "ball": "1 0 0", "free": "1 0 0 0 0 0"}[jn[0][1]])
    elif variant == "fluid":
        default = '<joint %s/>' % JVAR["linear"]
        option = dict(density="300", viscosity="0.4", wind="0.3 -0.2 0.1")
    flags = {"energy": "enable"}
    if sleepers:
        flags["sleep"] = "enable"
    xml = U.std_tree_xml(par, js, default=default, sections=sections, world_extra=world_extra, jattr=jattr,
                         option=A.option_elem(flags=flags, **option))
    if sleepers:
        roots = tree_roots(par, js)
        for t in sleepers:
            xml = xml.replace('<body name="b%d" ' % roots[t], '<body name="b%d" sleep="init" ' % roots[t])
        # the joint parameters differ from body to body (x (1 + i/2), sign structure unchanged), so that a parameter fetched
        # through the wrong index (loop counter instead of the awake-list entry) changes the force
        jv = re.search(r'<joint (stiffness="[^"]*") springref="[^"]*" (damping="[^"]*")/>', default)
        if jv:
            for i in range(1, n):
                at = " ".join('%s="%s"' % (a.split("=")[0], " ".join("%.10g" % (float(x) * (1 + 0.5 * i)) for x in a.split('"')[1].split()))
                              for a in jv.groups())
                xml = xml.replace('<joint name="j%d_' % i, '<joint %s name="j%d_' % (at, i))
    if gc:
        for i, c in enumerate(gc):
            if c:
                xml = xml.replace('<body name="b%d" ' % i, '<body name="b%d" gravcomp="%g" ' % (i, c))
    return xml


class Ref:
    def __init__(self, lib, m, mi):
        self.lib, self.m, self.mi = lib, m, mi
        self.k = np.array(m.jnt_stiffness, float)
        self.kp = np.array(m.jnt_stiffnesspoly, float).reshape(-1, U.NPOLY)
        self.b = np.array(m.dof_damping, float)
        self.bp = np.array(m.dof_dampingpoly, float).reshape(-1, U.NPOLY)
        self.qs = np.array(m.qpos_spring, float)
        self.tk = np.array(m.tendon_stiffness, float)
        self.tkp = np.array(m.tendon_stiffnesspoly, float).reshape(-1, U.NPOLY)
        self.tb = np.array(m.tendon_damping, float)
        self.tbp = np.array(m.tendon_dampingpoly, float).reshape(-1, U.NPOLY)
        self.tls = np.array(m.tendon_lengthspring, float).reshape(-1, 2)
        self.mass = np.array(m.body_mass, float)
        self.gc = np.array(m.body_gravcomp, float)
        self.actgc = np.array(m.jnt_actgravcomp).astype(bool)

    def tendon_J(self, d):
        m = self.m
        return dense(m.ten_J_rownnz, m.ten_J_rowadr, m.ten_J_colind, np.array(d.ten_J), m.ntendon, m.nv)

    def deflection(self, L, i):
        lo, hi = self.tls[i]
        return L - hi if L > hi else (L - lo if L < lo else 0.0)

    def spring(self, d, q):
        mi = self.mi
        f = np.zeros(mi.nv)
        for j in range(mi.njnt):
            if self.k[j] == 0 and not self.kp[j].any():
                continue
            t = mi.jnt_type[j]
            pa, va = mi.jnt_qposadr[j], mi.jnt_dofadr[j]
            if t == U.FREE:
                dif = q[pa:pa + 3] - self.qs[pa:pa + 3]
                r = float(np.linalg.norm(dif))
                if r > 0:
                    f[va:va + 3] = -U.poly_force(self.k[j], self.kp[j], r, False) * dif / r
                pa += 3
                va += 3
                t = U.BALL
            if t == U.BALL:
                dif = U.quat_sub(q[pa:pa + 4], self.qs[pa:pa + 4])
                r = float(np.linalg.norm(dif))
                if r > 0:
                    f[va:va + 3] = -U.poly_force(self.k[j], self.kp[j], r, False) * dif / r
            else:
                f[va] = -U.poly_force(self.k[j], self.kp[j], float(q[pa] - self.qs[pa]), False)
        if mi.ntendon:
            J = self.tendon_J(d)
            for i in range(mi.ntendon):
                x = self.deflection(float(d.ten_length[i]), i)
                f += J[i] * (-U.poly_force(self.tk[i], self.tkp[i], x, False))
        return f

    def damper(self, d, v):
        mi = self.mi
        f = np.array([-U.poly_force(self.b[i], self.bp[i], float(v[i]), True) for i in range(mi.nv)])
        if mi.ntendon:
            J = self.tendon_J(d)
            for i in range(mi.ntendon):
                tv = float(J[i] @ v)
                f += J[i] * (-U.poly_force(self.tb[i], self.tbp[i], tv, True))
        return f

    def gravcomp(self, d, g):
        mi, m, lib = self.mi, self.m, self.lib
        f = np.zeros(mi.nv)
        jp = np.zeros((3, mi.nv))
        for b in range(1, mi.nbody):
            if self.gc[b]:
                lib.mj_jacBodyCom(m, d, jp, None, b)
                f += -self.gc[b] * self.mass[b] * (jp.T @ g)
        return f


def run_model(lib, part, par, js, variant, gc, sleepers=None, thorough=False):
    """sleepers: None, or a tuple of tree indices put to sleep with sleep="init" (sleep flag enabled)."""
    xml = build(par, js, variant, gc, sleepers)
    if xml is None:
        part.add("variant_not_applicable")
        return
    if sleepers and variant.startswith("tendon"):
        m0 = lib.load_xml(build(par, js, variant, gc))
        blocked = tendon_coupled_trees(m0)
        m0.free()
        if blocked & set(sleepers):
            part.add("sleep_not_applicable_intertree_tendon")      # documented: such trees are not allowed to sleep
            return
    m = lib.load_xml(xml)
    d = lib.make_data(m)
    mi = U.MInfo(m)
    ref = Ref(lib, m, mi)
    nv = mi.nv
    ident = "parents=%s joints=%s variant=%s gravcomp=%s" % (par, js, variant, gc)
    if sleepers:
        ident += " asleep=%s" % (sleepers,)
    qs = A.qpos_lattice(m, limit=12)
    vs = A.qvel_lattice(nv)
    if nv:
        vs.append(-1.7 * vs[-1])
    g0 = np.array(m.opt.gravity, float)
    dof_actgc = np.array([ref.actgc[mi.dof_jntid[i]] for i in range(nv)], bool) if nv else np.zeros(0, bool)
    has_spring = bool(ref.k.any() or ref.kp.any() or ref.tk.any() or ref.tkp.any())
    aw = np.ones(nv, bool)            # dofs of awake trees
    flags = FLAGS
    frozen = None
    if sleepers:
        want = np.isin(np.arange(m.ntree), sleepers)
        if not np.array_equal(np.array(d.tree_asleep) >= 0, want):
            part.violation("sleep=init trees are not the sleeping trees after mj_makeData " + ident,
                           "tree_asleep=%s, expected exactly trees %s asleep (%s)" % (np.array(d.tree_asleep), sleepers, ident), {"xml": xml})
            d.free()
            m.free()
            return
        aw = ~np.isin(np.array(m.dof_treeid), sleepers)
        # the sleeper is held at its reset state (anything else is a documented wake event); de-duplicate the lattice
        q0 = np.array(d.qpos)
        qaw = np.zeros(m.nq, bool)
        for j in range(mi.njnt):
            if m.body_treeid[m.jnt_bodyid[j]] not in sleepers:
                qaw[mi.jnt_qposadr[j]:mi.jnt_qposadr[j] + {U.FREE: 7, U.BALL: 4}.get(mi.jnt_type[j], 1)] = True
        qs = list({np.where(qaw, q, q0).tobytes(): np.where(qaw, q, q0) for q in qs}.values())
        vs = list({np.where(aw, v, 0.0).tobytes(): np.where(aw, v, 0.0) for v in vs}.values())
        frozen = {nm: np.array(getattr(d, nm))[~aw].tobytes() for nm in SLEEP_ARRAYS}
        if not thorough:
            flags = FLAGS[:1]
        part.add("sleep_model_variants")
        part.add("sleep_awake_before_sleeper" if aw[:int(np.argmin(aw))].any() else "sleep_sleeper_first")

    def bad(name, flabel, msg, rp):
        part.violation("%s [%s] %s" % (name, flabel, ident), "%s: %s (flags %s, %s)" % (name, msg, flabel, ident), rp)

    for dflags, flabel in flags:
        if dflags == U.DSBL_GRAVITY and not ref.gc.any():
            continue
        m.opt.disableflags = dflags
        sp_on = not (dflags & U.DSBL_SPRING)
        da_on = not (dflags & U.DSBL_DAMPER)
        g = np.zeros(3) if (dflags & U.DSBL_GRAVITY) else g0
        for qi, q in enumerate(qs):
            for vi, v in enumerate(vs):
                d.qpos[:] = q
                d.qvel[:] = v
                lib.mj_forward(m, d)
                rp = {"xml": xml, "qpos": q, "qvel": v, "disableflags": dflags}
                nontriv = (par, js, variant, gc, flabel, qi, sleepers) if (nv >= 2 and vi == len(vs) - 1 and qi > 0) else None
                part.count(1, key=nontriv, sample={"parents": par, "joints": js, "variant": variant, "gravcomp": gc, "flags": flabel,
                                                   "asleep": sleepers, "qpos": q, "qvel": v}
                           if (qi == 1 and vi == 2 and dflags == 0) else None)
                fs, fd, fg, ff, fp = (np.array(d.qfrc_spring), np.array(d.qfrc_damper), np.array(d.qfrc_gravcomp),
                                      np.array(d.qfrc_fluid), np.array(d.qfrc_passive))
                if sleepers:
                    part.add("sleep_evaluations")
                    if not np.array_equal(np.array(d.tree_asleep) >= 0, want):
                        bad("a sleeping tree held at its reset state woke up in mj_forward (or an awake one fell asleep)", flabel,
                            "tree_asleep=%s" % np.array(d.tree_asleep), rp)
                        break
                    # the passive forces of a sleeping tree are frozen: nothing may write to its dofs
                    for nm in SLEEP_ARRAYS:
                        if np.array(getattr(d, nm))[~aw].tobytes() != frozen[nm]:
                            bad("%s of a sleeping tree changed while it is asleep" % nm, flabel, "%s" % np.array(getattr(d, nm)), rp)
                if not sp_on and not da_on:
                    # documented: all passive forces are disabled
                    for nm, arr in (("qfrc_passive", fp), ("qfrc_spring", fs), ("qfrc_damper", fd), ("qfrc_gravcomp", fg), ("qfrc_fluid", ff)):
                        if np.any(arr[aw] != 0):
                            bad("%s != 0 with spring and damper disabled" % nm, flabel, "%s" % arr, rp)
                    continue
                rs = ref.spring(d, q) if sp_on else np.zeros(nv)
                rd = ref.damper(d, v) if da_on else np.zeros(nv)
                rg = ref.gravcomp(d, g)
                if sleepers:
                    # the laws are asserted on the dofs of the awake trees
                    fs, fd, fg, ff, fp, rs, rd, rg = (x[aw] for x in (fs, fd, fg, ff, fp, rs, rd, rg))
                    v = v[aw]
                actgc = dof_actgc[aw]
                e = relerr(fs, rs, atol=1e-3)
                if e > TOL:
                    bad("qfrc_spring != -f(q (-) springref)", flabel, "rel err %.3g: %s vs %s" % (e, fs, rs), rp)
                e = relerr(fd, rd, atol=1e-3)
                if e > TOL:
                    bad("qfrc_damper != -f(v)", flabel, "rel err %.3g: %s vs %s" % (e, fd, rd), rp)
                e = relerr(fg, rg, atol=1e-3)
                if e > TOL:
                    bad("qfrc_gravcomp != -sum c_b m_b Jcom_b' g", flabel, "rel err %.3g: %s vs %s" % (e, fg, rg), rp)
                # dissipation
                p = float(fd @ v)
                if p > 1e-12 * (1 + float(np.abs(fd) @ np.abs(v))):
                    bad("qfrc_damper . qvel > 0 (damper adds energy)", flabel, "power %.3g" % p, rp)
                # sum identity (documented composition of qfrc_passive)
                tot = fs + fd + np.where(actgc, 0.0, fg) + ff
                e = relerr(fp, tot, atol=1e-3)
                if e > 1e-12:
                    bad("qfrc_passive != spring + damper + gravcomp + fluid", flabel, "rel err %.3g: %s vs %s" % (e, fp, tot), rp)
                if dof_actgc.any() and not (dflags & U.DSBL_GRAVITY):
                    # actuatorgravcomp: the force is routed to qfrc_actuator instead (the only actuator is an idle motor)
                    fa = np.array(d.qfrc_actuator)[aw]
                    e = relerr(fa, np.where(actgc, fg, 0.0), atol=1e-3)
                    if e > 1e-12:
                        if variant == "actgravcomp_noact":
                            part.violation(KEY_ACTGC_NOACT, "qfrc_actuator=%s, qfrc_passive excludes the gravcomp force %s of the "
                                           "actuatorgravcomp joints: the compensation is applied nowhere (flags %s, %s)" % (fa, fg, flabel, ident), rp)
                        else:
                            bad("qfrc_actuator != gravcomp of actuatorgravcomp joints", flabel, "rel err %.3g" % e, rp)
        # gradient of the reported spring potential (gravity disabled so that energy[0] is the spring potential only)
        if has_spring and sp_on and dflags == 0 and not sleepers:
            m.opt.disableflags = U.DSBL_GRAVITY
            for qi, q in enumerate(qs):
                d.qpos[:] = q
                d.qvel[:] = 0
                lib.mj_forward(m, d)
                fs = np.array(d.qfrc_spring)
                rp = {"xml": xml, "qpos": q, "disableflags": U.DSBL_GRAVITY}
                # specification discontinuities: ball-spring cut locus, dead-band ends, zero deflection of ball/free polynomial springs
                excl = False
                for j in range(mi.njnt):
                    if mi.jnt_type[j] in (U.FREE, U.BALL) and (ref.k[j] or ref.kp[j].any()):
                        pa = mi.jnt_qposadr[j] + (3 if mi.jnt_type[j] == U.FREE else 0)
                        if abs(np.linalg.norm(U.quat_sub(q[pa:pa + 4], ref.qs[pa:pa + 4])) - math.pi) < 1e-3:
                            excl = True
                for i in range(mi.ntendon):
                    L = float(d.ten_length[i])
                    if min(abs(L - ref.tls[i][0]), abs(L - ref.tls[i][1])) < 1e-4 and ref.tls[i][0] != ref.tls[i][1]:
                        excl = True
                if variant == "tendon_spatial":
                    # a zero-length segment (two consecutive path sites coincide) makes the tendon length |x| - shaped: not differentiable
                    sx = np.array(d.site_xpos).reshape(-1, 3)
                    path = [lib.mj_name2id(m, 6, b"sw"), lib.mj_name2id(m, 6, b"s0")] + ([lib.mj_name2id(m, 6, b"s%d" % (len(par) - 1))] if len(par) > 1 else [])
                    if any(np.linalg.norm(sx[a] - sx[b]) < 1e-4 for a, b in zip(path[:-1], path[1:])):
                        excl = True
                if excl:
                    part.add("boundary_excluded")
                    continue
                grad = np.zeros(nv)
                for i in range(nv):
                    e_i = np.zeros(nv)
                    e_i[i] = 1.0
                    vals = []
                    for sgn in (1, -1):
                        d.qpos[:] = U.integrate_pos(mi, q, e_i, sgn * FD_EPS)
                        lib.mj_forward(m, d)
                        vals.append(float(d.energy[0]))
                    grad[i] = (vals[0] - vals[1]) / (2 * FD_EPS)
                part.count(1)
                e = relerr(fs, -grad, atol=1e-2)
                if e > 1e-6:
                    bad("qfrc_spring != -d(reported potential)/dq", "gravity-off", "rel err %.3g: %s vs %s" % (e, fs, -grad), rp)
            m.opt.disableflags = dflags
    # rest at the reference: zero passive force exactly (tendon rest length inside the dead band / auto)
    if variant in ("linear", "poly", "polyneg", "tendon_fixed_auto", "fluid") and not sleepers:
        m.opt.disableflags = 0
        if variant == "fluid":
            m.opt.wind = [0, 0, 0]
        d.qpos[:] = ref.qs
        d.qvel[:] = 0
        lib.mj_forward(m, d)
        part.count(1)
        fp = np.array(d.qfrc_passive)
        if np.any(np.abs(fp) > 1e-13):
            bad("qfrc_passive != 0 at rest at the spring reference", "-", "%s" % fp, {"xml": xml, "qpos": ref.qs, "qvel": np.zeros(nv)})
    d.free()
    m.free()


def _chunk(chunk):
    lib = mj.load()
    part = core.Part()
    for par, js, variant, gc, sleepers, thorough in chunk:
        try:
            run_model(lib, part, par, js, variant, gc, sleepers, thorough)
        except mj.MjError as e:
            part.violation("engine error parents=%s joints=%s variant=%s" % (par, js, variant), "unexpected mju_error/compile error: %s" % e,
                           {"parents": par, "joints": js, "variant": variant, "gravcomp": gc, "asleep": sleepers})
    return part


def run(ctx):
    mj.load()
    nmax = ctx.q(2, 3)
    menu = None if not ctx.thorough else ["none", "hinge", "slide", "ball", "free", "hinge2"]
    items = []
    # canonical minimal replay of the known root cause first (in-process)
    ctx.merge(_chunk([((-1,), ("hinge",), "actgravcomp_noact", (1.0,), None, ctx.thorough)]))
    sleep_variants = VARIANTS if ctx.thorough else SLEEP_VARIANTS_QUICK
    nsleep = 0
    for par, js in U.models(nmax, menu):
        n = len(par)
        # sleep dimension: None (sleep disabled) + every admissible set of sleeping trees
        ssets = sleeper_sets(len(tree_roots(par, js)), ctx.thorough)
        for variant in VARIANTS:
            for sl in [None] + (ssets if variant in sleep_variants else []):
                if variant in ("gravcomp", "actgravcomp", "actgravcomp_noact"):
                    for gc in gravcomp_assignments(n, ctx.thorough):
                        if variant != "gravcomp" and not (gc[-1] and js[-1] != "none"):
                            continue
                        items.append((par, js, variant, gc, sl, ctx.thorough))
                        nsleep += sl is not None
                else:
                    items.append((par, js, variant, None, sl, ctx.thorough))
                    nsleep += sl is not None
    core.pmap(ctx, _chunk, items, nchunks=min(len(items), 256))
    ctx.extra["model_variants"] = len(items)
    ctx.extra["model_variants_with_a_tree_asleep_enumerated"] = nsleep
    ctx.rule = ("all rooted ordered forests with <=%d bodies x full product of the joint menu %s x passive variants %s (gravcomp: all "
                "assignments of {0,.5,1} to the bodies for <=2 bodies, a covering third for 3) x disable flags {none, spring, damper, "
                "spring+damper, gravity} x sleep dimension {sleep disabled} U {every %s of the trees of a model with >=2 trees asleep via "
                "sleep=init + enable flag, variants %s, flags %s; laws asserted on the awake dofs, sleeping dofs' passive arrays bit-frozen, "
                "no gradient / rest test}; per model a covering lattice of <=12 configurations x {zero, unit_i, mixed, -1.7*mixed} velocities; "
                "gradient of the reported potential by central FD (eps=%g) at every configuration; rest-at-reference state. "
                "non-trivial = (model,variant,flags,configuration) with nv>=2 at a non-reference configuration (all its velocities count once)" % (nmax, menu or list(A.JOINTS), VARIANTS,
                                                   "non-empty proper subset" if ctx.thorough else "single tree", sleep_variants,
                                                   "all" if ctx.thorough else "{none}", FD_EPS))
    ctx.assumptions = ["tendon length/Jacobian, body-com Jacobian from the engine (C07)",
                       "a sleeping tree is held at its reset configuration with zero velocity (any other value is a documented wake event); trees "
                       "coupled by a spring/damper tendon cannot be put to sleep (documented) and are counted as sleep_not_applicable_intertree_tendon",
                       "tolerance 1e-10 relative on forces, 1e-6 on the finite-difference gradient, 1e-13 absolute at rest",
                       "docs disagree on the configuration used for automatic tendon spring length (qpos0 vs qpos_spring); the auto-length variant has springref = 0"]
