"""Finite families of *valid* schemas for the generator check (C42).  Deterministic enumerators, no sampling."""
from __future__ import annotations

import itertools

from . import _c41_gen as G
from . import _c41_ref as R

# ------------------------------------------------------------------ S1: one attribute of every valid form

NUMBERS = ['0', '1', '-1', '2.5', '-0.0', '1e-3', '.25', '1e15', '1e16', '123456789.125', '3']
S1_TYPES = ['int', 'double', 'float', 'bool', 'string', 'file', 'chars', 'enum<e>', 'flags<e>', 'id<ns>', 'ref<ns>']
S1_ARITIES = ['', '[]', '[0]', '[1]', '[3]', '[0..3]', '[1..3]', '[2..3]', '[0..mjNREF]', '[1..mjNIMP]', '[12]']
S1_DEFAULTS = ([''] + ['= ' + n for n in NUMBERS] + ['= "s"', '= "a&b<c"', '= k', '= true', '= false', '= "2d"',
                                                       '= {1}', '= {1, 2, 3}', '= {0.5, .25, 1e-3}', '= {1, 2}',
                                                       '= {-1, 0, 2.5, 1e16, 7, 8, 9, 10, 11, 12, 13, 14}'])
S1_FACETS = ['', '(required)', '(nodefault)', '(field=f)', '(pattern="[a&b]{3}")', '(min=0)', '(max=5)',
             '(min=-1.5, max=2)', '(positive)', '(reading=custom)', '(writing=custom)', '(required, nodefault)',
             '(min=0, positive, nodefault)']

_S1_PRELUDE = ['enum e : mjtE {   # doc of e & more', '  k = C0', '  "2d" = C1', '  "a&b" = -1', '}']


def s1_attr_forms():
    for t, ar, d, f in itertools.product(S1_TYPES, S1_ARITIES, S1_DEFAULTS, S1_FACETS):
        yield ' '.join(x for x in ('a : ' + t + ar, d, f) if x)


def s1_contexts(attr):
    doc = '   # doc of a <b>'
    root = ['element mujoco {   # the root', '  model : string = "m"', '  child option *', '}']
    yield '\n'.join(_S1_PRELUDE + root + ['element option {   # doc of option', '  n : id<ns>', '  ' + attr + doc, '}']) + '\n'
    yield '\n'.join(_S1_PRELUDE + ['group g {', '  ' + attr + doc, '  z : int', '}'] + root +
                    ['element option {', '  n : id<ns>', '  use g', '}']) + '\n'
    yield '\n'.join(_S1_PRELUDE + ['group g variant {', '  ' + attr, '  n : id<ns>', '}'] + root +
                    ['element option {', '  use g', '}']) + '\n'
    # the same attribute under <default>: projected away when nodefault
    yield '\n'.join(_S1_PRELUDE + ['element mujoco {', '  child default ?', '}',
                                   'element default {', '  class : id<default>', '  child default R', '  child option ?', '}',
                                   'element option {', '  n : id<ns>', '  name : string', '  ' + attr + doc, '}']) + '\n'


def s1_texts(full=True):
    """full: every valid form in all 4 contexts; otherwise every valid form as a direct attribute plus one of the
    other three contexts in rotation."""
    n = 0
    for a in s1_attr_forms():
        ctxs = list(s1_contexts(a))
        if not R.analyse(ctxs[0]).ok:
            continue            # the form itself is not a valid attribute: not in the space
        if full:
            for t in ctxs:
                yield t
        else:
            yield ctxs[0]
            yield ctxs[1 + n % 3]
        n += 1


# ------------------------------------------------------------------ S2: special element names, every feature subset

FEATURES = ['mujoco>option', 'mujoco>default', 'default>default', 'default>geom', 'default>default_eq',
            'default>plugin', 'mujoco>body', 'body>body', 'body>frame', 'body>geom', 'body>plugin',
            'geom.nodefault', 'geom.constraint', 'geom.group', 'frame>frame']


def s2_text(fs):
    has = fs.__contains__
    deflt = has('mujoco>default')
    body = has('mujoco>body')
    lines = ['enum gt : mjtGeom {', '  sphere = mjGEOM_SPHERE', '  box = mjGEOM_BOX', '}']
    lines += ['group pose {', '  pos : double[3] = {0, 0, 0}', '  quat : double[4] = {1, 0, 0, 0}   # orientation']
    if has('geom.constraint'):
        lines += ['  exclusive pos quat']
    lines += ['}']
    lines += ['element mujoco {', '  model : string = "MuJoCo Model"']
    if has('mujoco>option'):
        lines += ['  child option *']
    if deflt:
        lines += ['  child default ?']
    if body:
        lines += ['  child body R']
    lines += ['}']
    used = set()
    if has('mujoco>option'):
        lines += ['element option {', '  timestep : double = 0.002 (positive)', '  gravity : double[3] = {0, 0, -9.81}',
                  '  child flag ?', '}', 'element flag {', '  contact : bool = true', '}']
    geom_parents = []
    plugin = False
    if deflt:
        lines += ['element default {', '  class : id<default>']
        if has('default>default'):
            lines += ['  child default R']
        if has('default>geom'):
            lines += ['  child geom ?']
            geom_parents.append('default')
        if has('default>default_eq'):
            lines += ['  child default_eq ?']
        if has('default>plugin'):
            lines += ['  child plugin *']
            plugin = True
        lines += ['}']
        if has('default>default_eq'):
            lines += ['element default_eq (xml=equality) {', '  solref : double[0..mjNREF] = {0.02, 1}', '}']
    if body:
        kids = []
        if has('body>body'):
            kids.append('  child body R')
        if has('body>frame'):
            kids.append('  child frame R')
        if has('body>geom'):
            kids.append('  child geom *')
            geom_parents.append('body')
        if has('body>plugin'):
            kids.append('  child plugin *')
            plugin = True
        lines += ['element body : mjsBody {   # a body', '  name : id<body>']
        if deflt:
            lines += ['  childclass : ref<default>']
        lines += ['  mocap : bool = false (nodefault)'] + kids + ['}']
        lines += ['element worldbody (alias=body) {'] + kids + ['}']
        if has('body>frame'):
            fk = [k for k in kids if 'plugin' not in k and (has('frame>frame') or 'frame' not in k)]
            lines += ['element frame : mjsFrame (alias=body) {', '  name : string'] + fk + ['}']
    if geom_parents:
        lines += ['element geom : mjsGeom {   # a geom', '  name : id<geom>']
        if deflt:
            lines += ['  class : ref<default>']
        lines += ['  type : enum<gt> = sphere', '  size : double[0..3] = {0, 0, 0}' + (' (nodefault)' if has('geom.nodefault') else '')]
        if has('geom.group'):
            lines += ['  use pose']
        else:
            lines += ['  pos : double[3]']
        lines += ['  fromto : double[6]']
        if has('geom.constraint'):
            lines += ['  exclusive fromto pos', '  requires name type', '  oneof size+type fromto']
        lines += ['}']
    if plugin:
        lines += ['element plugin {', '  plugin : string (required)', '  child config *', '}',
                  'element config {', '  key : string (required)', '  value : string (required)', '}']
    return '\n'.join(lines) + '\n'


def s2_texts(nfeat):
    feats = FEATURES[:nfeat]
    seen = set()
    for bits in range(1 << len(feats)):
        fs = frozenset(f for i, f in enumerate(feats) if bits >> i & 1)
        t = s2_text(fs)
        if t not in seen:
            seen.add(t)
            yield t


# ------------------------------------------------------------------ S3: neutral trees, every cardinality

LEVEL1 = ['option', 'compiler', 'size', 'statistic', 'asset', 'contact', 'equality', 'tendon']
CARDS = ['?', '!', '*', 'R']


def forests(n):
    """Parent tuples (pre-order) of all ordered rooted trees with n nodes below a root numbered -1."""
    def rec(par):
        i = len(par)
        if i == n:
            yield tuple(par)
            return
        cands = [-1]
        j = i - 1
        while j >= 0:
            cands.append(j)
            j = par[j]
        for c in cands:
            yield from rec(par + [c])
    yield from rec([])


def s3_texts(nmax):
    shapes = [par for n in range(1, nmax + 1) for par in forests(n)]
    # plus the chains (nesting depth 4, 5, 6) that the bound on the number of elements would leave out
    chains = [tuple(range(-1, n - 1)) for n in (4, 5, 6) if n > nmax]
    for par in shapes + chains:
        n = len(par)
        if True:
            names = []
            for i, p in enumerate(par):
                names.append(LEVEL1[sum(1 for q in par[:i] if q == -1)] if p == -1 else 'n%d' % i)
            deep = par in chains
            for cards in (itertools.product(CARDS, repeat=n) if n <= 4 else [(c,) * n for c in CARDS]):
                for selfrec in ((0, (1 << n) - 1) if deep else range(1 << n)):
                    lines = ['element mujoco {', '  model : string']
                    lines += ['  child %s %s' % (names[i], cards[i]) for i in range(n) if par[i] == -1]
                    lines += ['}']
                    for i in range(n):
                        lines += ['element %s {   # node %d' % (names[i], i), '  a%d : int = %d' % (i, i)]
                        if i % 2:
                            lines += ['  name : string']
                        lines += ['  child %s %s' % (names[j], cards[j]) for j in range(n) if par[j] == i]
                        if selfrec >> i & 1:
                            lines += ['  child %s %s' % (names[i], 'R' if cards[i] != 'R' else '*')]
                        lines += ['}']
                    yield '\n'.join(lines) + '\n'


# ------------------------------------------------------------------ S4: enum forms

ENUM_KEYS = ['k', '"2d"', '"a&b"', '"a<b"', 'K_9', '"k-1"']
ENUM_VALUES = ['C0', '0', '-1', 'mjX_Y', '1.5']


def s4_texts():
    items = ['%s = %s' % kv for kv in itertools.product(ENUM_KEYS, ENUM_VALUES)]
    combos = [(a,) for a in items] + [(a, b) for a in items for b in items if a.split(' = ')[0] != b.split(' = ')[0]]
    for idx, combo in enumerate(combos):
        for usage in range(4):
            head = 'enum e%s {%s' % (' : mjtE' if idx % 2 else '', '   # doc of e' if idx % 3 == 0 else '')
            lines = ['enum first { a = 1 }', head] + ['  ' + it for it in combo] + ['}', 'enum last : mjtL {', '  z = Z', '}']
            lines += ['element mujoco {', '  child option *', '}', 'element option {']
            first_key = combo[0].split(' = ')[0]
            if usage & 1:
                lines += ['  t : enum<e> = %s' % first_key]
            if usage & 2:
                lines += ['  f : flags<e>']
            lines += ['  u : enum<last>', '}']
            yield '\n'.join(lines) + '\n'


# ------------------------------------------------------------------ S5: constraints through groups

def s5_texts():
    shapes = {'exclusive': ['a b', 'a+b c', 'a b c', 'name b', 'nd b', 'a+nd b+name'],
              'together': ['a b', 'a b c', 'name b'],
              'oneof': ['a b', 'a+b c', 'nd b+c'],
              'requires': ['a b', 'name b', 'b nd']}
    attrs = ['  a : int', '  b : int', '  c : int', '  name : string', '  nd : int (nodefault)']
    for kind, shs in shapes.items():
        for sh in shs:
            con = '  %s %s   # doc of constraint' % (kind, sh)
            for place in ('element', 'group', 'nested', 'nested3', 'two'):
                for under_default in (False, True):
                    lines = []
                    if place == 'element':
                        body = attrs + [con]
                    elif place == 'group':
                        lines += ['group g {'] + attrs + [con, '}']
                        body = ['  use g']
                    elif place == 'nested':
                        lines += ['group h {'] + attrs + [con, '}', 'group g {', '  d : int', '  use h', '}']
                        body = ['  use g']
                    elif place == 'nested3':
                        lines += ['group h {'] + attrs + [con, '}', 'group g2 {', '  d : int', '  use h', '  together d e',
                                  '  e : int', '}', 'group g {', '  use g2', '  f : int', '}']
                        body = ['  use g', '  exclusive f a']
                    else:
                        body = attrs + [con, con.replace(kind, 'exclusive' if kind != 'exclusive' else 'together')
                                        if kind != 'requires' else '  requires b a']
                    if under_default:
                        lines += ['element mujoco {', '  child default ?', '}', 'element default {',
                                  '  class : id<default>', '  child option ?', '}']
                    else:
                        lines += ['element mujoco {', '  child option !', '}']
                    lines += ['element option {'] + body + ['}']
                    yield '\n'.join(lines) + '\n'


# ------------------------------------------------------------------ S6: the real schema, one edit at a time

def s6_sites(text):
    """-> (Lines, [(edit kind, site, (edits, inserts))]) one-line edits of the real schema that keep it valid
    (validity is decided by the reference when the text is used; invalid results are counted and dropped)."""
    res = R.analyse(text)
    assert res.ok
    enums, groups, elements = res.model
    L = G.Lines(text)
    out = []
    E = {e[0]: e for e in enums}
    containers = [('group', g[0], g[2]) for g in groups] + [('element', e[0], e[3]) for e in elements]
    for ckind, cname, members in containers:
        for m in members:
            line = m[-1]
            row = L.rows[line - 1]
            site = '%s %s line %d' % (ckind, cname, line)
            if m[0] == 'child' and len(row) == 3:
                out.append(('drop-child', site, ({line: []}, None)))
                for c in '?!*R':
                    if c != row[2]:
                        out.append(('card-' + c, site, ({line: row[:2] + [c]}, None)))
                        break
            elif m[0] == 'use' and len(row) == 2:
                out.append(('drop-use', site, ({line: []}, None)))
            elif m[0] == 'con' and row and row[0] == m[1]:
                out.append(('drop-constraint', site, ({line: []}, None)))
            elif m[0] == 'attr':
                _, name, typ, target, lo, hi, default, facets, doc, _ = m
                if not (row and row[0] == name and len(row) > 2 and row[1] == ':'):
                    continue
                head, dtoks, ftoks = G._split_attr(row)
                fd = dict(facets)
                out.append(('drop-attr', site, ({line: []}, None)))
                if default is not None:
                    out.append(('drop-default', site, ({line: head + ftoks}, None)))
                    if isinstance(default, float):
                        out.append(('default+1', site, ({line: G._with_default(head + ftoks, [repr(default + 1.0)])}, None)))
                    elif isinstance(default, tuple):
                        vec = ['{']
                        for i, v in enumerate(default):
                            if i:
                                vec.append(',')
                            vec.append(repr(v + 0.5 if i == len(default) - 1 else v))
                        out.append(('default-last+0.5', site, ({line: G._with_default(head + ftoks, vec + ['}'])}, None)))
                    elif typ == 'enum':
                        kws = [k for k, _ in E[target][2] if k != default]
                        if kws:
                            kw = kws[0] if kws[0].isidentifier() else '"%s"' % kws[0]
                            out.append(('default-other-keyword', site, ({line: G._with_default(head + ftoks, [kw])}, None)))
                    elif typ == 'bool':
                        out.append(('default-flip', site, ({line: G._with_default(head + ftoks, ['false' if default == 'true' else 'true'])}, None)))
                elif not fd.get('required'):
                    if typ in ('double', 'float', 'int') and lo == 1 and hi == 1:
                        out.append(('add-default', site, ({line: G._with_default(row, ['7'])}, None)))
                    out.append(('add-required', site, ({line: G._with_facet(row, ['required'])}, None)))
                if 'nodefault' not in fd:
                    out.append(('add-nodefault', site, ({line: G._with_facet(row, ['nodefault'])}, None)))
                if typ in ('double', 'float', 'int') and isinstance(hi, int) and lo == hi and hi > 1 and default is None:
                    out.append(('arity+1', site, ({line: G._with_arity(row, ['[', str(hi + 1), ']'])}, None)))
                    out.append(('arity-range', site, ({line: G._with_arity(row, ['[', '0', '..', str(hi), ']'])}, None)))
    for e in enums:
        name, ctype, items, doc, line = e
        if len(items) > 1:
            last = None
            for ln in range(line + 1, len(L.rows) + 1):
                if L.rows[ln - 1] == ['}']:
                    break
                if L.rows[ln - 1]:
                    last = ln
            if last:
                out.append(('drop-enum-item', 'enum %s line %d' % (name, last), ({last: []}, None)))
                row = L.rows[last - 1]
                if len(row) == 3:
                    out.append(('enum-value', 'enum %s line %d' % (name, last), ({last: row[:2] + ['mjCHANGED']}, None)))
    return L, out
