"""Build + load the small native helpers of C01 / C04 / C26 as separate shared objects.

The helpers live in native/drivers/ and are linked against the tree-built library (same
path as the one ctypes already loaded, so the dynamic loader shares the single instance).
"""
from __future__ import annotations

import ctypes
import os
import subprocess

from .. import build

_loaded = {}


def _ensure_so(name: str, src: str, libpath: str, variant: str = "rel") -> str:
    srcpath = os.path.join(build.NATIVE, src)
    obj = build.compile_obj(srcpath, variant)
    key = build._sha(name, variant, obj, libpath)
    outdir = os.path.join(build.CACHE, "so", variant, key)
    out = os.path.join(outdir, name + ".so")
    if os.path.exists(out):
        return out
    os.makedirs(outdir, exist_ok=True)
    tmp = out + ".%d.tmp" % os.getpid()
    cmd = [build.CXX, "-shared", "-o", tmp, obj, libpath, "-Wl,-rpath," + os.path.dirname(libpath)]
    r = subprocess.run(cmd, capture_output=True, text=True)
    if r.returncode != 0:
        raise build.BuildError("LINK ERROR %s\n%s" % (name, r.stderr[-3000:]))
    os.replace(tmp, out)
    return out


def register_stateplugin(lib) -> int:
    """Register the verification plugin 'verif.state' (nstate > 0) in this process; returns its slot."""
    k = ("stateplugin", lib.path)
    if k not in _loaded:
        so = _ensure_so("c26_stateplugin", "drivers/c26_stateplugin.cc", lib.path, lib.variant)
        h = ctypes.CDLL(so)
        h.c26_register_stateplugin.restype = ctypes.c_int
        slot = h.c26_register_stateplugin()
        _loaded[k] = (h, slot)
    return _loaded[k][1]


IGNORE_ALWAYS = frozenset(["timer", "maxuse_stack", "maxuse_threadstack", "maxuse_arena", "maxuse_con", "maxuse_efc",
                           "threadpool", "plugin_data"])


class Cmp:
    """Complete per-field bit-exact diff of two mjData of the same model (native/drivers/c01_cmp.cc).

    Ignored always: timers, maxuse_* statistics, the thread-pool handle and plugin_data (per-instance
    heap pointers).  Everything else -- every MJDATA_POINTERS buffer, every arena array (shape, NULL-ness
    and content), every scalar incl. pstack/pbase/parena, solver statistics, warnings -- is compared."""

    def __init__(self, lib):
        so = _ensure_so("c01_cmp", "drivers/c01_cmp.cc", lib.path, lib.variant)
        self.h = ctypes.CDLL(so)
        self.h.c01_diff_all.argtypes = [ctypes.c_void_p, ctypes.c_void_p, ctypes.c_void_p, ctypes.c_void_p, ctypes.c_int]
        self.h.c01_diff_all.restype = ctypes.c_int
        self.h.c01_field_bytes.argtypes = [ctypes.c_void_p, ctypes.c_void_p, ctypes.c_int, ctypes.POINTER(ctypes.c_void_p)]
        self.h.c01_field_bytes.restype = ctypes.c_longlong
        self.h.c01_hash.argtypes = [ctypes.c_void_p, ctypes.c_void_p, ctypes.c_void_p, ctypes.c_int]
        self.h.c01_hash.restype = ctypes.c_uint64
        self.h.c01_poison_arena.argtypes = [ctypes.c_void_p, ctypes.c_int, ctypes.c_int]
        self.h.c01_poison_arena.restype = ctypes.c_longlong
        LL = ctypes.POINTER(ctypes.c_longlong)
        self.h.c01_snapshot.argtypes = [ctypes.c_void_p, ctypes.c_void_p, ctypes.c_void_p, ctypes.c_longlong, LL, LL, ctypes.c_int]
        self.h.c01_snapshot.restype = ctypes.c_longlong
        self.h.c01_classify.argtypes = [ctypes.c_void_p, ctypes.c_void_p, ctypes.c_void_p, ctypes.c_void_p, LL, LL,
                                        ctypes.c_void_p, LL, LL, ctypes.c_int, ctypes.c_int, ctypes.c_void_p, ctypes.c_int]
        self.h.c01_classify.restype = ctypes.c_int
        self.h.c01_garbage.argtypes = [ctypes.c_void_p, ctypes.c_void_p, ctypes.c_void_p, ctypes.c_int]
        self.h.c01_garbage.restype = ctypes.c_int
        self._skip = {}
        self.nout = 1024
        self.out = (ctypes.c_ubyte * self.nout)()
        self._names = {}

    def names(self, d):
        k = d.model.ptr
        v = self._names.get(k)
        if v is None:
            v = d.fields()
            self._names[k] = v
        return v

    def diff(self, m, a, b, ignore=()):
        """Names of all fields that differ (after removing IGNORE_ALWAYS and `ignore`)."""
        n = self.h.c01_diff_all(m.ptr, a.ptr, b.ptr, self.out, self.nout)
        if n < 0:
            raise RuntimeError("c01_diff_all: too many fields")
        if n == 0:
            return []
        names = self.names(a)
        out = self.out
        res = []
        for i, nm in enumerate(names):
            if out[i] and nm not in IGNORE_ALWAYS and nm not in ignore:
                res.append(nm)
        return res

    def hash(self, m, d):
        """64-bit FNV-1a over every compared field (IGNORE_ALWAYS excluded)."""
        k = m.ptr
        sk = self._skip.get(k)
        if sk is None:
            names = self.names(d)
            sk = (ctypes.c_ubyte * len(names))(*[1 if nm in IGNORE_ALWAYS else 0 for nm in names])
            self._skip[k] = sk
        return self.h.c01_hash(m.ptr, d.ptr, sk, len(sk))

    def poison(self, d, full, byte):
        n = self.h.c01_poison_arena(d.ptr, 1 if full else 0, byte)
        if n < 0:
            raise RuntimeError("c01_poison_arena: stack in use")
        return n

    def snap_alloc(self, d):
        """Reusable snapshot storage for mjData objects of d's model."""
        return Snap(int(d.nbuffer) + int(d.narena) + int(d.lib.c.vg_sizeof(b"mjData")) + 4096, self.nout)

    def snap(self, m, d, sn):
        n = self.h.c01_snapshot(m.ptr, d.ptr, sn.buf, sn.cap, sn.off, sn.len, sn.nf)
        if n < 0:
            raise RuntimeError("c01_snapshot: buffer too small (%d)" % n)

    def classify(self, m, a, b, sna, snb, pa, pb):
        """-> (stale, bad): names of differing fields by class (IGNORE_ALWAYS removed); see c01_classify."""
        nbad = self.h.c01_classify(m.ptr, a.ptr, b.ptr, sna.buf, sna.off, sna.len, snb.buf, snb.off, snb.len, pa, pb,
                                   self.out, self.nout)
        if nbad < 0:
            raise RuntimeError("c01_classify failed")
        names = self.names(a)
        out = self.out
        stale, bad = [], []
        for i, nm in enumerate(names):
            v = out[i]
            if v and nm not in IGNORE_ALWAYS:
                (bad if v == 2 else stale).append(nm)
        return stale, bad

    def garbage(self, m, d, keep):
        """Overwrite every mjtNum buffer field of d except those named in `keep` with finite garbage."""
        names = self.names(d)
        sk = (ctypes.c_ubyte * len(names))(*[1 if nm in keep else 0 for nm in names])
        return self.h.c01_garbage(m.ptr, d.ptr, sk, len(sk))

    def kind(self, d, name):
        return d._f[name][1]

    def snapshot(self, m, d, fields):
        """bytes of the given fields (None for NULL/empty)."""
        names = self.names(d)
        snap = {}
        p = ctypes.c_void_p()
        for nm in fields:
            i = d._f[nm][0]
            nb = self.h.c01_field_bytes(m.ptr, d.ptr, i, ctypes.byref(p))
            snap[nm] = ctypes.string_at(p.value, nb) if nb > 0 else None
        return snap


class Snap:
    def __init__(self, cap, nf):
        self.cap = cap
        self.nf = nf
        self.buf = (ctypes.c_ubyte * cap)()
        self.off = (ctypes.c_longlong * nf)()
        self.len = (ctypes.c_longlong * nf)()


_cmps = {}


def cmp_for(lib) -> Cmp:
    if lib.path not in _cmps:
        _cmps[lib.path] = Cmp(lib)
    return _cmps[lib.path]
