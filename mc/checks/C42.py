"""C42 Schema generators faithfully translate any valid schema.

Systems under test: <tree>/doc/generate/generate_{xsd,mjcf_table,mjcf_map,
dmcontrol,schema,read_table,default_table}.py, driven exactly as the pinned
tests drive them (module.generate() after pointing module.SCHEMA_PATH at the
schema; generate_schema reads the grammar table and the link targets through
its module-level open()).

For every schema of the enumerated families the generated text is read back
with generic readers (ElementTree, a brace reader for the C tables) and
compared item by item with what the *reference* reading of the schema
(mc/checks/_c41_ref.py, independent of the tree's parser) obliges it to
contain: every element and expanded attribute once, with its declared type,
arity, default, required flag and documentation, enum keywords with their
constants, constraints with their bundles, nothing that the schema does not
declare; a refusal (ValueError) only where the generator documents one; two
runs byte-identical.
"""
import builtins
import hashlib
import io
import os
import shutil
import signal
import sys
import tempfile
import time

from .. import build, core
from . import _c41_ref as R
from . import _c42_expect as X
from . import _c42_spaces as SP
from . import _c42_tables as T

LEVEL = "exploration"
META = dict(
    category=LEVEL,
    technique="exhaustive enumeration of grammar-derived schema families and of all one-line edits of the real schema; "
              "parse-back of every generated file and item-by-item comparison with an independent reading of the schema",
    text="The generators are pure functions of the schema text.  Families: every valid attribute form (11 types x 11 "
         "arities x 23 defaults x 13 facet lists) in 4 declaration contexts incl. the <default> projection; every subset "
         "of 12 (15) structural features over the special element names (default, body/worldbody, frame, plugin, xml= "
         "and alias= facets); every ordered tree with <=3 (4) elements x every cardinality x every self-recursion "
         "pattern; every 1- and 2-item enum over keys/values needing quoting or XML escaping x every use; every "
         "constraint kind x bundle shape x placement (element, group, nested groups) x projection; the real mjcf.schema "
         "and every one-line edit of it (drop/alter attribute, default, facet, arity, child, use, constraint, enum item) "
         "through all seven generators.  Each output is parsed back and compared with the schema; pinned tests only "
         "compare the one checked-in schema with checked-in files.  Exhaustive within the families.",
    note="Trusted base: _c41_ref.py (schema reading), _c42_expect.py / _c42_tables.py (what each output format must "
         "contain, written from the generators' docstrings and the consuming C++ row layouts).  The overlay/config tables "
         "of the generators (dm_control overlays, ELEMENT_ORDER, NOT_TABLE_DRIVEN, SENSOR_DISPATCH, ...) are inputs, not "
         "checked.  Schemas outside a generator's documented domain (unreachable elements, numeric facets on vectors, "
         "non-alias child cycles, nesting deeper than 4 for XMLschema.rst, unbound fields) must be refused with "
         "ValueError; that is checked too.",
    design_ref="DESIGN.md §3 C42")

_M = None        # dict of the tree's generator modules
_TMP = None
_DIMS = None
_REAL = None     # (Lines, sites)
_HDR = None      # C struct layouts (own reader)
_NAME = dict(map="generate_mjcf_map", table="generate_mjcf_table", xsd="generate_xsd", dm="generate_dmcontrol",
             rst="generate_schema", read="generate_read_table", defaults="generate_default_table")
SCHEMA_ONLY = ("map", "table", "xsd", "dm", "rst")
ALL = SCHEMA_ONLY + ("read", "defaults")


def load_generators():
    gen_dir = os.path.join(build.REPO, "doc", "generate")
    if gen_dir not in sys.path:
        sys.path.insert(0, gen_dir)
    import mjcf_schema
    import generate_default_table
    import generate_dmcontrol
    import generate_mjcf_map
    import generate_mjcf_table
    import generate_read_table
    import generate_schema
    import generate_xsd
    mods = dict(schema=mjcf_schema, map=generate_mjcf_map, table=generate_mjcf_table, xsd=generate_xsd,
                dm=generate_dmcontrol, rst=generate_schema, read=generate_read_table, defaults=generate_default_table)
    root = os.path.realpath(gen_dir) + os.sep
    for k, m in mods.items():
        if not os.path.realpath(m.__file__).startswith(root):
            raise RuntimeError("%s imported from %s, not from the tree" % (k, m.__file__))
    return mods


CPU_LIMIT_S = 120.0    # per generator run (CPU time); the real schema needs < 1 s


class CpuTimeLimitExceeded(BaseException):
    """A generator did not return within CPU_LIMIT_S seconds of CPU time (treated as non-termination)."""


def _on_vtalarm(signum, frame):
    raise CpuTimeLimitExceeded("no result after %.0f s of CPU time" % CPU_LIMIT_S)


class State(object):
    def __init__(self):
        self.part = core.Part()
        self.viol = {}
        self.digests = bytearray()
        self.n = 0
        self.path = os.path.join(_TMP, "w%d.schema" % os.getpid())

    def violation(self, key, what, text, space, gen):
        cand = (len(text), text, what, space, gen)
        cur = self.viol.get(key)
        if cur is None or cand < cur:
            self.viol[key] = cand

    def finish(self):
        for key, (_, text, what, space, gen) in sorted(self.viol.items()):
            self.part.violation(key, what, {"schema": text, "space": space, "generator": gen})
        if self.digests:
            fd, _ = tempfile.mkstemp(suffix=".bin", dir=_TMP)
            with os.fdopen(fd, "wb") as fh:
                fh.write(self.digests)
        return self.part


def _generate(name, path, rst_inputs=None):
    """Run one generator on the schema at `path` the way the pinned tests do (under a CPU-time limit)."""
    signal.setitimer(signal.ITIMER_VIRTUAL, CPU_LIMIT_S)
    try:
        return _generate1(name, path, rst_inputs)
    finally:
        signal.setitimer(signal.ITIMER_VIRTUAL, 0)


def _generate1(name, path, rst_inputs=None):
    mod = _M[name]
    if name == "rst":
        table_text, links_text = rst_inputs

        def fake_open(p, mode="r", *a, **kw):
            p = str(p)
            if p.endswith("mjcf_table.inc"):
                return io.StringIO(table_text)
            if p.endswith("XMLreference.rst"):
                return io.StringIO(links_text)
            return builtins.open(p, mode, *a, **kw)
        mod.open = fake_open
        try:
            return mod.generate()
        finally:
            del mod.open
    old = mod.SCHEMA_PATH
    mod.SCHEMA_PATH = path
    try:
        return mod.generate()
    finally:
        mod.SCHEMA_PATH = old


def run_case(st, text, space, gens, twice=True):
    part = st.part
    ref = R.analyse(text)
    if not ref.ok:
        part.add("dropped_invalid_for_reference")
        return
    view = X.View(ref.model)
    with open(st.path, "w", encoding="utf-8") as fh:
        fh.write(text)
    cyc = X.child_cycle(view)
    table_out = None
    for gen in gens:
        part["evaluations"] += 1
        if cyc and gen in ("table", "dm", "rst"):
            part.add("outside_domain_child_cycle")
            continue
        rst_in = None
        try:
            if gen == "rst":
                entries, _ = X.expected_table(view)
                depth = 0
                deepest = 0
                for e in entries:
                    depth += (e == ["<"]) - (e == [">"])
                    deepest = max(deepest, depth)
                if deepest > 4:
                    part.add("outside_domain_rst_depth")
                    continue
                tags = [e[0] for e, lvl in _levels(entries) if lvl == 1]
                if len(set(tags)) != len(tags):
                    part.add("outside_domain_rst_duplicate_top_tag")
                    continue
                if table_out is None:
                    table_out = _generate("table", st.path)
                _, links = X.rst_expected(entries, _M["rst"].ELEMENT_ORDER, _M["rst"].ELEMENT_DISPLAY_NAME)
                rst_in = (table_out, "".join(".. _%s:\n\n" % l for l in sorted(links)))
            out = _generate(gen, st.path, rst_in)
            err = None
        except (KeyboardInterrupt, SystemExit):
            raise
        except BaseException as e:     # noqa
            out, err = None, e
        if gen == "table" and out is not None:
            table_out = out
        # what the schema obliges
        try:
            if err is None and twice:
                out2 = _generate(gen, st.path, rst_in)
                X.need(out2 == out, "nondeterministic", "two runs differ")
            verdict = _check(gen, view, out, text) if err is None else _expect_refusal(gen, view, text)
            if err is not None:
                if verdict and isinstance(err, ValueError):
                    part.add("refused_as_documented")
                else:
                    st.violation("%s:raised-%s" % (gen, type(err).__name__),
                                 "%s raised %s (%s) on a valid schema%s" %
                                 (_NAME[gen], type(err).__name__, str(err)[:160],
                                  " it documents as unsupported (%s) but not with ValueError" % verdict if verdict else ""),
                                 text, space, gen)
                continue
            part.add("items_compared", verdict)
            part.add("generated_ok")
            if verdict >= 4:
                st.digests += hashlib.blake2b((gen + "\0" + text).encode(), digest_size=8).digest()
                if len(part["samples"]) < 2 and st.n % 11 == 5:
                    part["samples"].append({"space": space, "generator": gen, "schema": text[:600],
                                            "items_compared": verdict})
            st.n += 1
        except X.Refuse as r:
            st.violation("%s:accepted-unsupported" % gen, "%s produced output for a schema it documents as "
                         "unsupported (%s)" % (_NAME[gen], r.why), text, space, gen)
        except X.Mismatch as m:
            if m.what == "harness":
                raise RuntimeError("harness: %s on %r" % (m, text[:300]))
            key = m.what if ":" in m.what else "%s:%s" % (gen, m.what)
            st.violation(key, "%s output disagrees with the schema: %s %s"
                         % (_NAME[gen], m.what, m.detail[:400]), text, space, gen)
        except (KeyboardInterrupt, SystemExit):
            raise
        except Exception as e:      # noqa  reader failed on the output: the output is malformed
            st.violation("%s:unreadable-%s" % (gen, type(e).__name__), "%s output cannot be read back: %s %s"
                         % (_NAME[gen], type(e).__name__, str(e)[:200]), text, space, gen)


def _levels(entries):
    lvl = 0
    for e in entries:
        if e == ["<"]:
            lvl += 1
        elif e == [">"]:
            lvl -= 1
        else:
            yield e, lvl


def _check(gen, view, out, text):
    if gen == "map":
        return X.check_map(view, out)
    if gen == "table":
        return X.check_table(view, out)
    if gen == "xsd":
        return X.check_xsd(view, out, _DIMS)
    if gen == "dm":
        if X.dm_refusal(view, _DIMS, _M["dm"]):
            raise X.Refuse("references into namespaces no emitted element populates")
        return X.check_dm(view, out, _DIMS, _M["dm"])
    if gen == "rst":
        entries, _ = X.expected_table(view)
        return X.check_rst(entries, out, _M["rst"].ELEMENT_ORDER, _M["rst"].ELEMENT_DISPLAY_NAME)
    if gen == "read":
        return T.check_read(view, out, _HDR, _M["read"])
    if gen == "defaults":
        return T.check_defaults(view, out, _HDR, _M["defaults"], _M["read"])
    raise RuntimeError(gen)


def _expect_refusal(gen, view, text):
    """Documented reason for which the generator may refuse this schema, or None."""
    try:
        if gen == "xsd":
            types, order = X.xsd_expected(view, _DIMS)
            for name, proj in order:
                attrs = view.elements[name].attrs()
                for a in (X.project(attrs) if proj else attrs):
                    X.xsd_expected_type(view, a, _DIMS)
        elif gen == "dm":
            if X.dm_refusal(view, _DIMS, _M["dm"]):
                return "references into namespaces no emitted element populates"
        elif gen == "read":
            T.expected_read(view, _HDR, _M["read"])
        elif gen == "defaults":
            T.expected_defaults(view, _HDR, _M["defaults"], _M["read"])
    except X.Refuse as r:
        return r.why
    return None


# ------------------------------------------------------------------ jobs

_FAMILIES = {
    "S1:attribute-forms": lambda q: SP.s1_texts(full=q),
    "S2:special-names": lambda q: SP.s2_texts(15 if q else 12),
    "S3:trees": lambda q: SP.s3_texts(4 if q else 3),
    "S4:enums": lambda q: SP.s4_texts(),
    "S5:constraints": lambda q: SP.s5_texts(),
}


def _work(chunk):
    signal.signal(signal.SIGVTALRM, _on_vtalarm)
    st = State()
    for job in chunk:
        t0 = time.process_time()
        n0 = st.part["evaluations"]
        if job[0] == "family":
            _, name, k, nk, thorough = job
            for j, t in enumerate(_FAMILIES[name](thorough)):
                if j % nk == k:
                    gens = SCHEMA_ONLY if thorough or not name.startswith("S1") else ("table", "xsd", "dm")
                    run_case(st, t, name, gens, twice=thorough or (j // nk) % 4 == 0)
        elif job[0] == "real-edits":
            _, k, nk = job
            L, sites = _REAL
            for j in range(k, len(sites), nk):
                kind, site, e = sites[j]
                run_case(st, L.text(*e), "S6:real-schema/" + kind, ALL, twice=False)
        elif job[0] == "real":
            real = open(os.path.join(build.REPO, "src", "xml", "mjcf.schema"), encoding="utf-8").read()
            run_case(st, real, "S6:real-schema", ALL)
        else:
            raise RuntimeError(job)
        st.part.add("cpu_s:" + job[1 if job[0] == "family" else 0], round(time.process_time() - t0, 3))
        st.part.add("n:" + job[1 if job[0] == "family" else 0], st.part["evaluations"] - n0)
    return st.finish()


class _Collector(object):
    def __init__(self, ctx):
        self.ctx = ctx
        self.seed = ctx.seed
        self.viol = {}

    def merge(self, part):
        for v in part.get("violations", ()):
            text = (v.get("replay") or {}).get("schema", "")
            cand = (len(text), text, v["what"], v.get("replay"))
            cur = self.viol.get(v["key"])
            if cur is None or cand[:2] < cur[:2]:
                self.viol[v["key"]] = cand
        part["violations"] = []
        self.ctx.merge(part)

    def flush(self):
        for key in sorted(self.viol):
            _, _, what, replay = self.viol[key]
            self.ctx.violation(key, what, replay)


def run(ctx):
    global _M, _TMP, _DIMS, _REAL, _HDR
    _M = load_generators()
    base = "/dev/shm" if os.path.isdir("/dev/shm") and os.access("/dev/shm", os.W_OK) else None
    _TMP = tempfile.mkdtemp(prefix="c42_", dir=base)
    try:
        _DIMS = X.dims_from_header(os.path.join(build.REPO, "include", "mujoco", "mjmodel.h"))
        _HDR = T.read_structs([os.path.join(build.REPO, "include", "mujoco", "mjspec.h"),
                               os.path.join(build.REPO, "include", "mujoco", "mjmodel.h")])
        real = open(os.path.join(build.REPO, "src", "xml", "mjcf.schema"), encoding="utf-8").read()
        jobs = [("real",)]
        for name in _FAMILIES:
            nk = 64 if name.startswith(("S1", "S3")) else 16
            for k in range(nk):
                jobs.append(("family", name, k, nk, ctx.thorough))
        if R.analyse(real).ok:
            L, sites = SP.s6_sites(real)
            stride = ctx.q(24, 1)
            _REAL = (L, sites[::stride])
            for k in range(64):
                jobs.append(("real-edits", k, 64))
            ctx.extra["real_schema_edit_stride"] = stride
            ctx.extra["real_schema_edits"] = len(_REAL[1])
        col = _Collector(ctx)
        core.pmap(col, _work, jobs, nchunks=len(jobs))
        col.flush()
        import numpy as np
        arrs = [np.fromfile(os.path.join(_TMP, f), dtype=np.uint64) for f in os.listdir(_TMP) if f.endswith(".bin")]
        allv = np.concatenate(arrs) if arrs else np.zeros(0, dtype=np.uint64)
        ctx.nontrivial_extra = int(np.unique(allv).size)
    finally:
        shutil.rmtree(_TMP, ignore_errors=True)
    cpu = {}
    for k in list(ctx.extra):
        if k.startswith("cpu_s:"):
            cpu.setdefault(k[6:], [0, 0])[0] = round(ctx.extra.pop(k), 1)
        elif k.startswith("n:"):
            cpu.setdefault(k[2:], [0, 0])[1] = ctx.extra.pop(k)
    ctx.extra["per_space_cpu_s_and_evaluations"] = cpu
    ctx.extra["tree"] = build.REPO
    ctx.rule = (
        "an evaluation = one generator run on one schema, output parsed back and compared.  Schemas: S1 every valid "
        "attribute form (type x arity x default x facets, validity by the reference) as a direct attribute, through a "
        "group, through a variant group, and under <default>%s; S2 every subset of the first %d structural features over "
        "the special names; S3 every ordered tree of <=%d elements x cardinalities x self-recursion; S4 every 1- and "
        "2-item enum over %d keys x %d values x 4 uses; S5 every constraint kind x bundle shape x placement x "
        "projection; S6 the real mjcf.schema and every %s one-line edit of it (all 7 generators; S1-S5 use the 5 "
        "schema-only generators).  Non-trivial = the generator produced output and at least 4 items of it (rows, "
        "attributes, keywords, types) were compared with the schema; distinct = distinct (generator, schema text)."
        % ("" if ctx.thorough else " (quick: direct plus one of the other three in rotation; second run for "
           "determinism on every 4th schema; S1 through the three generators that look at attributes: table, xsd, dm)", 15 if ctx.thorough else 12, 4 if ctx.thorough else 3, len(SP.ENUM_KEYS), len(SP.ENUM_VALUES),
           "" if ctx.thorough else "24th"))
    ctx.assumptions = [
        "generator configuration tables (dm_control overlays, EXCLUDED_ELEMENTS, ELEMENT_ORDER, NOT_TABLE_DRIVEN, "
        "SENSOR_DISPATCH, HAND_GROUPS, EMIT_GROUPS, UNSET_SENTINELS, DIM_EQUIV) are taken as given",
        "expected content of each format is written from the generator docstrings and the row layouts documented in "
        "the generated headers (mjXAttr, mjXDefaultEntry, mjXConstraintDef)",
        "schemas are valid for the reference reading (_c41_ref.py); symbolic arity bounds are names defined in mjmodel.h",
        "documentation strings are compared by containment, numeric defaults by value (2 and 2.0 are the same default)",
        "text attributes (string, file) are opaque: an arity written on them is not expected in the XSD / dm_control "
        "types (the real schema has no such attribute)"]
