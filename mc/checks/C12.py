"""C12 The constraint cost has consistent derivatives.

System under test: mj_constraintUpdate_impl (exported, pure) and mj_constraintUpdate of the tree build.

Row parameters (ne, nf, efc_D, efc_R, efc_frictionloss, efc_type, efc_id and the mjContact array with mu / friction /
dim) are harvested after mj_forward from compiled models: every composition of {equality, friction loss, limit} x
contact sets (condim 1/3/4/6 and mixes) x {pyramidal, elliptic} x friction / impratio / solimp / solref variants.  The
residual vector `jar` is synthetic: per constraint block a finite lattice that contains every zone boundary (0 for
inequality rows, +-R*floss for friction loss, cone top N = mu T, cone bottom mu N + T = 0, apex T = 0 with N of either
sign and N = 0) and points +-1e-7 (relative) on both sides of each, along every +-axis and +-diagonal tangential
direction; whole vectors are (base vector of the other blocks) x (every lattice point of one block).

Oracles
 (a) reference model from the documented dual problem (doc/computation: f = argmin_{lambda in Omega} 1/2 lambda'R lambda
     + lambda'jar; Omega = R (equality), |lambda|<=eta (friction loss), lambda>=0 (limit / pyramidal / frictionless),
     second-order cone with the contact's friction coefficients (elliptic)); cost = -(optimal value); state = zone.
 (b) force == -d cost / d jar by central differences (per component, stencil inside one zone);
 (c) first-order convexity on all pairs, mid-point convexity on all pairs of each cone plane / scalar lattice;
 (d) gradient monotone and Lipschitz (constant max D) on all pairs => C1 across every boundary (the +-delta pairs);
 (e) contact.H == d force / d jar (central differences) in the middle zone, symmetric, PSD; untouched when the flag is 0
     or the zone is not the middle zone;
 (f) separability / indexing: rows of the other blocks are bit-identical to the base evaluation, cost is additive;
 (g) cost == NULL gives the same force/state; inputs are not written; nefc == 0 gives cost 0;
 (h) mj_constraintUpdate == impl on the real mjData and qfrc_constraint == J' efc_force (numpy).
"""
import ctypes
import itertools

import numpy as np

from .. import alphabet as A
from .. import core, mj
from ..mjutil import dense

LEVEL = "exploration"
META = dict(
    category=LEVEL,
    technique="exhaustive enumeration of a residual lattice containing every zone boundary of the constraint cost "
              "(small-scope lattice over harvested row parameters); reference model from the documented dual problem, "
              "central differences, all-pairs convexity / monotonicity / Lipschitz tests",
    text="mj_constraintUpdate_impl is a pure function, so it is driven directly.  Row parameters come from compiled "
         "models (every composition of equality / friction-loss / limit rows with pyramidal and elliptic contacts of "
         "condim 1,3,4,6; friction, impratio, solimp, solref variants) so that the relations the engine establishes "
         "between the rows of one contact are the real ones; the residual vector runs over a lattice that contains "
         "every zone boundary visible in the code and points +-1e-7 on each side, in every +-axis / +-diagonal tangential "
         "direction.  Force, cost and state are compared with a closed-form solution of the documented dual problem, "
         "force with central differences of the returned cost, the cone Hessian with central differences of the force; "
         "convexity and C1 are decided on all pairs of lattice points.  Exhaustive over the stated lattice, which is "
         "the right level for a piecewise-analytic function with finitely many zones.",
    note="Verdict holds on the lattice only (continuous domain).  Whole residual vectors are a covering design (each "
         "block runs through its full lattice while the other blocks sit on base points), not the full product across "
         "blocks; separability is checked bit-exactly instead.  Residual magnitudes within 1e-4..1e4 of the natural "
         "scale, plus one denormal-scale family (tangential residual 1e-90..1e-200) that only asks for finite outputs.",
    design_ref="DESIGN.md §3 C12")

SAT, QUAD, LNEG, LPOS, CONE = 0, 1, 2, 3, 4
ZN = {SAT: "satisfied", QUAD: "quadratic", LNEG: "linearneg", LPOS: "linearpos", CONE: "cone"}
T_ELLIPTIC = 7
DELTA = 1e-7

# thresholds (observed noise on the unchanged tree in brackets)
TOL_REF = 1e-10      # force / cost vs reference, relative to block scale        [<= 3e-15]
TOL_FD = 1e-5        # central-difference gradient, relative to block scale      [<= 3e-8]
TOL_H = 1e-4         # central-difference Hessian, relative to block scale       [<= 2e-7]
TOL_CVX = 1e-9       # convexity inequalities, relative                          [<= 1e-15]
TOL_LIP = 1e-6       # Lipschitz slack (relative) + 1e-11 absolute (relative to block scale)
TOL_JT = 1e-10       # qfrc_constraint vs J'f


# ------------------------------------------------------------------------------------------------ models

FRICTIONS = [(1.0, 0.005, 0.0001), (0.3, 0.02, 0.001), (2.0, 0.5, 0.05)]
IMPRATIOS = [1, 0.25, 10]
SOLIMPS = ["0.9 0.95 0.001", "0.5 0.99 0.01 0.5 2", "0.99 0.999 0.0001"]
SOLREFS = ["0.02 1", "0.005 0.3", "-1000 -50"]
CONTACT_SETS = [(), (1,), (3,), (4,), (6,), (3, 4), (6, 1, 3), (1, 3, 4, 6)]
NOCOL = 'contype="0" conaffinity="0"'


def scene(E, F, L, contacts, cone, fr, impratio, solimp, solref, jacobian="auto"):
    body = '<geom name="floor" type="plane" size="5 5 .1" condim="1" friction="%g %g %g"/>\n' % fr
    eq = ten = ""
    if E:
        body += ('<body name="e1" pos="0 0 2"><joint name="e1a" type="hinge" axis="0 1 0"/><geom type="sphere" size=".05" %s/>'
                 '<body name="e2" pos=".3 0 0"><joint name="e2a" type="ball"/><geom type="capsule" size=".03 .1" %s/></body></body>\n'
                 '<body name="e3" pos="0 1 2"><joint name="e3a" type="slide" axis="1 0 0"/><geom type="sphere" size=".05" %s/></body>\n'
                 % (NOCOL, NOCOL, NOCOL))
        eq += ('<connect body1="e2" anchor=".1 0 .1" solimp="%s" solref="%s"/>'
               '<joint joint1="e1a" joint2="e3a" polycoef="0.1 1 0 0 0" solimp="%s" solref="%s"/>' % (solimp, solref, solimp, solref))
        if E > 1:
            body += '<body name="e4" pos="0 2 2"><freejoint/><geom type="box" size=".05 .04 .03" %s/></body>\n' % NOCOL
            eq += '<weld body1="e4" solimp="%s" solref="%s"/>' % (solimp, solref)
    if F:
        body += ('<body name="f1" pos="1 0 2"><joint name="f1a" type="hinge" axis="0 1 0" frictionloss="0.3"/><geom type="sphere" size=".05" %s/>'
                 '<body name="f2" pos=".3 0 0"><joint name="f2a" type="slide" axis="0 0 1" frictionloss="2"/><geom type="sphere" size=".05" %s/>'
                 '<body name="f3" pos=".3 0 0"><joint name="f3a" type="ball" frictionloss="0.05"/><geom type="capsule" size=".03 .1" %s/></body>'
                 '</body></body>\n' % (NOCOL, NOCOL, NOCOL))
        ten += '<fixed name="ft" frictionloss="0.7" solimpfriction="%s"><joint joint="f1a" coef="1"/><joint joint="f2a" coef="-2"/></fixed>' % solimp
    if L:
        body += ('<body name="l1" pos="2 0 2"><joint name="l1a" type="hinge" axis="0 1 0" limited="true" range="-0.1 0.1"/><geom type="sphere" size=".05" %s/>'
                 '<body name="l2" pos=".3 0 0"><joint name="l2a" type="slide" axis="0 0 1" limited="true" range="-0.2 0.2"/><geom type="sphere" size=".05" %s/>'
                 '</body></body>\n' % (NOCOL, NOCOL))
        ten += ('<fixed name="lt" limited="true" range="-0.1 0.1" solimplimit="%s" solreflimit="%s"><joint joint="l1a" coef="1"/>'
                '<joint joint="l2a" coef="1"/></fixed>' % (solimp, solref))
    for k, cd in enumerate(contacts):
        body += ('<body name="c%d" pos="%g -1 0.04"><freejoint/><geom type="sphere" size=".05" condim="%d" friction="%g %g %g"/></body>\n'
                 % (k, 0.5 * k, cd, fr[0], fr[1], fr[2]))
    sec = ""
    if eq:
        sec += "<equality>%s</equality>" % eq
    if ten:
        sec += "<tendon>%s</tendon>" % ten
    opt = A.option_elem(cone=cone, impratio=impratio, jacobian=jacobian)
    default = ('<geom solimp="%s" solref="%s"/><joint solimplimit="%s" solreflimit="%s" solimpfriction="%s"/>'
               % (solimp, solref, solimp, solref, solimp))
    return A.mjcf(body, option_elem=opt, default=default, sections=sec)


def model_items(thorough):
    """(E, F, L, contacts, cone, friction idx, impratio idx, solimp idx, solref idx, jacobian)"""
    if thorough:
        pv = list(itertools.product(range(3), repeat=4))
    else:  # star design: every parameter takes each of its values with the others at the first value
        pv = [(0, 0, 0, 0)]
        for ax in range(4):
            for v in (1, 2):
                t = [0, 0, 0, 0]
                t[ax] = v
                pv.append(tuple(t))
    out, seen = [], set()
    for E, F, L in itertools.product((0, 1), repeat=3):
        for cs in CONTACT_SETS:
            for cone in ("pyramidal", "elliptic"):
                for p in pv:
                    fi, ii, si, ri = p
                    if not thorough and any(p) and (E, F, L) not in ((0, 0, 0), (1, 1, 1)):
                        continue            # quick: parameter variants only on the empty and the full row composition
                    if not cs:
                        if cone == "elliptic" or fi or ii:
                            continue        # no contact rows: cone / friction / impratio are moot
                        if not (E or F or L):
                            continue
                    Ev = E * (2 if (E and (len(cs) + si) % 2) else 1)   # weld in every other variant
                    key = (Ev, F, L, cs, cone, fi, ii, si, ri)
                    if key in seen:
                        continue
                    seen.add(key)
                    jac = ("dense", "sparse")[len(out) % 2]
                    out.append(key + (jac,))
    return out


# ------------------------------------------------------------------------------------------------ harvest / driver

class Rows:
    """Row parameters of one compiled model + a batch driver of mj_constraintUpdate_impl."""

    def __init__(self, lib, m, d):
        n = self.nefc = int(d.nefc)
        self.ne, self.nf = int(d.ne), int(d.nf)
        self.D = np.array(d.efc_D[:n], float)
        self.R = np.array(d.efc_R[:n], float)
        self.floss = np.array(d.efc_frictionloss[:n], float)
        self.type = np.array(d.efc_type[:n], np.int32)
        self.id = np.array(d.efc_id[:n], np.int32)
        self.contact = np.array(d.contact, copy=True)
        self.ncon = len(self.contact)
        self.citem = self.contact.dtype.itemsize
        fn = lib.c.mj_constraintUpdate_impl
        fn.argtypes = [ctypes.c_int] * 3 + [ctypes.c_void_p] * 10 + [ctypes.c_int]
        fn.restype = None
        self.fn = fn
        self.blocks = []
        i = 0
        while i < n:
            if i < self.ne:
                self.blocks.append(("E", i, 1, -1))
                i += 1
            elif i < self.ne + self.nf:
                self.blocks.append(("F", i, 1, -1))
                i += 1
            elif self.type[i] == T_ELLIPTIC:
                cid = int(self.id[i])
                dim = int(self.contact["dim"][cid])
                self.blocks.append(("C", i, dim, cid))
                i += dim
            else:
                self.blocks.append(("I", i, 1, -1))
                i += 1

    def run(self, JAR, flg=0, want_cost=True, own_contacts=False):
        """Evaluate every row of JAR (K x nefc).  Outputs are poisoned first so unwritten rows are visible."""
        JAR = np.ascontiguousarray(JAR, float)
        K, n = JAR.shape
        force = np.full((K, n), np.nan)
        state = np.full((K, n), -7, np.int32)
        cost = np.full(K, np.nan)
        if self.ncon:
            con = np.ascontiguousarray(np.tile(self.contact, (K, 1))) if own_contacts else self.contact.copy()
            cbase = con.ctypes.data
            cstride = self.ncon * self.citem if own_contacts else 0
        else:
            con, cbase, cstride = None, None, 0
        D, R, fl, tp, idp = (x.ctypes.data for x in (self.D, self.R, self.floss, self.type, self.id))
        jp, fp, sp, cp = JAR.ctypes.data, force.ctypes.data, state.ctypes.data, cost.ctypes.data
        fn, ne, nf = self.fn, self.ne, self.nf
        for k in range(K):
            fn(ne, nf, n, D, R, fl, jp + k * n * 8, tp, idp, (cbase + k * cstride) if cbase else None,
               sp + k * n * 4, fp + k * n * 8, (cp + k * 8) if want_cost else None, flg)
        return force, state, cost, con


# ------------------------------------------------------------------------------------------------ reference model

def cone_params(rows, blk):
    """(R0, kappa, friction[dim-1], relation error) of an elliptic block, from R and the contact's friction only."""
    _, i, dim, cid = blk
    R = rows.R[i:i + dim]
    fr = np.array(rows.contact["friction"][cid][:dim - 1], float)
    c = R[1:] * fr * fr                       # R_j friction_j^2 must be one constant for the closed form below
    cm = float(np.mean(c))
    relerr = float(np.max(np.abs(c - cm)) / cm) if dim > 1 else 0.0
    return float(R[0]), float(np.sqrt(cm / R[0])), fr, relerr


def reference(rows, JAR, only=None):
    """Closed-form solution of  min_{lambda in Omega} 1/2 lambda' R lambda + lambda' jar  per block.
    Returns force, zone, cost (per evaluation total), per-block cost, per-block boundary margin (relative).
    only=b restricts the computation to block b (the other rows are returned as zeros)."""
    K = len(JAR)
    nb = len(rows.blocks)
    f = np.zeros_like(JAR)
    z = np.zeros(JAR.shape, np.int32)
    bc = np.zeros((K, nb))
    mg = np.full((K, nb), np.inf)
    for b, blk in enumerate(rows.blocks):
        if only is not None and b != only:
            continue
        kind, i, dim, cid = blk
        j = JAR[:, i]
        R = rows.R[i]
        if kind == "E":
            lam = -j / R
            f[:, i], z[:, i], bc[:, b] = lam, QUAD, 0.5 * R * lam * lam
        elif kind == "I":
            lam = np.maximum(0.0, -j / R)
            f[:, i], z[:, i], bc[:, b] = lam, np.where(j >= 0, SAT, QUAD), 0.5 * R * lam * lam
            mg[:, b] = np.where(j == 0, 0.0, np.inf)       # jar == 0: both states have zero cost
        elif kind == "F":
            eta = rows.floss[i]
            lam = np.clip(-j / R, -eta, eta)
            f[:, i] = lam
            z[:, i] = np.where(-j / R >= eta, LNEG, np.where(-j / R <= -eta, LPOS, QUAD))
            bc[:, b] = -(0.5 * R * lam * lam + lam * j)
            mg[:, b] = np.abs(np.abs(j) - R * eta) / (R * eta)
        else:
            R0, kap, fr, _ = cone_params(rows, blk)
            jt = JAR[:, i + 1:i + dim]
            a = -j / R0
            pt = -(jt * fr) / (kap * R0)
            t = np.sqrt(np.sum(pt * pt, axis=1))
            inK = t <= kap * a                    # unconstrained minimiser is admissible: quadratic
            polar = kap * t <= -a                 # projection is the origin: zero force
            polar &= ~inK | ((a == 0) & (t == 0))
            inK &= ~((a == 0) & (t == 0))
            mid = ~(inK | polar)
            x0 = np.where(inK, a, 0.0)
            xt = np.where(inK[:, None], pt, 0.0)
            with np.errstate(divide="ignore", invalid="ignore"):
                s = (a + kap * t) / (1 + kap * kap)
                x0 = np.where(mid, s, x0)
                xt = np.where(mid[:, None], (s * kap / t)[:, None] * pt, xt)
                nrm = np.sqrt(a * a + t * t)
                gap = np.minimum(np.abs(t - kap * a), np.abs(kap * t + a)) / (nrm * max(1.0, kap))
            f[:, i] = x0
            f[:, i + 1:i + dim] = xt * fr / kap
            zz = np.where(polar, SAT, np.where(inK, QUAD, CONE))
            z[:, i:i + dim] = zz[:, None]
            bc[:, b] = 0.5 * R0 * (x0 * x0 + np.sum(xt * xt, axis=1))
            mg[:, b] = np.where(nrm > 0, gap, 0.0)
    return f, z, bc.sum(axis=1), bc, mg


# ------------------------------------------------------------------------------------------------ lattices

SC = [-2.3, -0.5, 0.7, 3.1]


def block_lattice(rows, blk, s):
    """(points [L x dim], tags [L] (True = boundary / +-delta / cone-zone point), plane id [L] for cone blocks)."""
    kind, i, dim, cid = blk
    if kind == "E":
        v = [x * s for x in SC] + [0.0, DELTA * s]
        return np.array(v)[:, None], np.zeros(len(v), bool), np.zeros(len(v), int)
    if kind == "I":
        v = [x * s for x in SC]
        bnd = [0.0, -0.0, DELTA * s, -DELTA * s, 1e-3 * s, -1e-3 * s]
        return np.array(v + bnd)[:, None], np.array([False] * len(v) + [True] * len(bnd)), np.zeros(len(v) + len(bnd), int)
    if kind == "F":
        b = rows.R[i] * rows.floss[i]              # boundary is absolute (R*floss); s only scales the far points
        inner = [0.0, 0.5, -0.5, 0.99, -0.99]
        bnd = [sg * (1 + e) for sg in (1, -1) for e in (0.0, DELTA, -DELTA)]
        far = [2.0, -2.0, 10.0 * s, -10.0 * s]
        v = [x * b for x in inner + bnd + far]
        return (np.array(v)[:, None], np.array([False] * len(inner) + [True] * len(bnd) + [False] * len(far)),
                np.zeros(len(v), int))
    # elliptic cone, in scaled variables N = kappa*jar0, U_j = friction_j*jar_j, T = |U_t|
    R0, kap, fr, _ = cone_params(rows, blk)
    nt = dim - 1
    dirs, planes = [], []
    for a in range(nt):
        for sg in (1.0, -1.0):
            e = np.zeros(nt)
            e[a] = sg
            dirs.append(e)
            planes.append(a)
    if nt > 1:
        for sg in (1.0, -1.0):
            dirs.append(sg * np.ones(nt) / np.sqrt(nt))
            planes.append(nt)
    pts, tags, pl = [], [], []

    def add(N, T, u, tag, p):
        jar = np.zeros(dim)
        jar[0] = N / kap
        jar[1:] = T * u / fr
        pts.append(jar)
        tags.append(tag)
        pl.append(p)
    for N, tag in ((-1.0, False), (-DELTA, True), (0.0, True), (-0.0, True), (DELTA, True), (1.0, False)):
        add(N * s, 0.0, dirs[0], tag, -1)          # apex line T = 0 (belongs to every plane)
    for u, p in zip(dirs, planes):
        for T in (1e-7 * s, 0.3 * s, 1.0 * s, 3.0 * s):
            top, bot = kap * T, -T / kap
            for e in (0.0, DELTA, -DELTA):
                add(top * (1 + e), T, u, True, p)
                add(bot * (1 + e), T, u, True, p)
            add(0.0, T, u, True, p)                          # middle zone
            add(0.5 * top, T, u, True, p)
            add(0.5 * bot, T, u, True, p)
            add(top + 0.5 * T, T, u, False, p)               # top zone
            add(2 * top + 2 * T, T, u, False, p)
            add(bot - 0.5 * T, T, u, False, p)               # bottom zone
            add(2 * bot - 2 * T, T, u, False, p)
    return np.array(pts), np.array(tags), np.array(pl)


def block_scale(rows, blk, jar_blk):
    """Natural force scale of a block at residual jar_blk [.. x dim]: the unconstrained force magnitude per row,
    made isotropic for cones (friction_j * D0/kappa^2 * |U|)."""
    kind, i, dim, cid = blk
    if kind != "C":
        sc = rows.D[i] * np.abs(jar_blk)
        if kind == "F":
            sc = np.maximum(sc, rows.floss[i])
        return sc
    R0, kap, fr, _ = cone_params(rows, blk)
    w = np.concatenate([[kap], fr])
    U = jar_blk * w
    nU = np.sqrt(np.sum(U * U, axis=-1, keepdims=True))
    return w * nU / (R0 * kap * kap)


# ------------------------------------------------------------------------------------------------ per model

def note(part, name, v):
    """Observed-noise histogram (decade buckets), so that the evidence shows the head-room of every threshold."""
    v = float(v)
    b = -99 if not v > 0 else int(np.ceil(np.log10(v)))
    part.add("noise_%s<=1e%+03d" % (name, max(b, -17)) if b > -99 else "noise_%s==0" % name, 1)


def vkey(name, blk, zone=None):
    kind, i, dim, cid = blk
    k = "%s kind=%s" % (name, {"E": "equality", "F": "frictionloss", "I": "inequality", "C": "elliptic dim=%d" % dim}[kind])
    if zone is not None:
        k += " zone=%s" % ZN.get(int(zone), str(zone))
    return k


def check_model(lib, part, item, scales, heavy):
    E, F, L, cs, cone, fi, ii, si, ri, jac = item
    xml = scene(E, F, L, cs, cone, FRICTIONS[fi], IMPRATIOS[ii], SOLIMPS[si], SOLREFS[ri], jac)
    m = lib.load_xml(xml)
    d = lib.make_data(m)
    for j in range(m.njnt):
        if m.jnt_limited[j]:
            d.qpos[m.jnt_qposadr[j]] = 0.3
    lib.mj_forward(m, d)
    rows = Rows(lib, m, d)
    n = rows.nefc
    desc = {"E": E, "F": F, "L": L, "condim": cs, "cone": cone, "friction": FRICTIONS[fi], "impratio": IMPRATIOS[ii],
            "solimp": SOLIMPS[si], "solref": SOLREFS[ri], "jacobian": jac}
    exp_rows = ((4 + (6 if E > 1 else 0)) if E else 0) + (6 if F else 0) + (3 if L else 0)
    for c in cs:
        exp_rows += 1 if c == 1 else (c if cone == "elliptic" else 2 * (c - 1))
    if n != exp_rows:
        raise RuntimeError("harvest: expected %d rows, model has %d (%r)" % (exp_rows, n, desc))

    def viol(key, what, jar, extra=None):
        rp = {"xml": xml, "model": desc, "jar": jar, "ne": rows.ne, "nf": rows.nf, "nefc": n}
        if extra:
            rp.update(extra)
        part.violation(key, what + " | model %r" % (desc,), rp)

    # the closed form needs R_j friction_j^2 == const within one elliptic contact (established by mj_makeImpedance)
    for blk in rows.blocks:
        if blk[0] == "C":
            R0, kap, fr, rel = cone_params(rows, blk)
            if rel > 1e-12:
                viol(vkey("regularizer relation R_j*friction_j^2 != const", blk),
                     "efc_R of one elliptic contact does not satisfy R_j friction_j^2 = const (rel %.3g): cost cannot be C1" % rel,
                     None)
                d.free()
                m.free()
                return

    for s in scales:
        lat = [block_lattice(rows, blk, s) for blk in rows.blocks]
        nb = len(rows.blocks)
        # base vectors: 0 = every block at zero cost (jar = 0); k>0: block b sits on lattice point (7k + 3b) mod L_b
        bases = [np.zeros(n)]
        for k in (1, 2):
            v = np.zeros(n)
            for b, blk in enumerate(rows.blocks):
                P = lat[b][0]
                v[blk[1]:blk[1] + blk[2]] = P[(7 * k + 3 * b) % len(P)]
            bases.append(v)
        for bi, base in enumerate(bases):
            fb, sb, cb, _ = rows.run(base[None, :])
            rfb, rzb, rcb, rbc, _ = reference(rows, base[None, :])
            for b, blk in enumerate(rows.blocks):
                kind, i, dim, cid = blk
                P, tags, planes = lat[b]
                Lb = len(P)
                JAR = np.tile(base, (Lb, 1))
                JAR[:, i:i + dim] = P
                snap = (rows.D.copy(), rows.R.copy(), rows.floss.copy(), rows.type.copy(), rows.id.copy(), JAR.copy())
                force, state, cost, con = rows.run(JAR)
                rf, rz, rc, rbcK, mg = reference(rows, JAR)
                if bi == 0:
                    rc = rbcK[:, b]       # other blocks sit at jar = 0: zero cost
                sc = block_scale(rows, blk, P)
                scm = np.maximum(np.max(sc, axis=1), 1e-300)
                nt_mask = tags | (rz[:, i] == CONE)
                part["evaluations"] += Lb
                part["nontrivial_count"] += int(np.count_nonzero(nt_mask))
                if bi == 0 and b == nb - 1 and len(part["samples"]) < 2:
                    k0 = int(np.argmax(nt_mask))
                    part["samples"].append(core.jsonable({"model": desc, "block": [kind, i, dim], "scale": s, "jar_block": P[k0],
                                                          "ref_zone": ZN[int(rz[k0, i])], "force": force[k0, i:i + dim]}))
                # (g) inputs untouched
                now = (rows.D, rows.R, rows.floss, rows.type, rows.id, JAR)
                if any(not np.array_equal(x, y) for x, y in zip(snap, now)) or (con is not None and any(
                        not np.array_equal(con[nm], rows.contact[nm]) for nm in con.dtype.names)):
                    viol("inputs modified", "an input array (or mjContact with flg_coneHessian=0) was written", None)
                if not np.all(np.isfinite(force)) or not np.all(np.isfinite(cost)) or np.any(state < 0):
                    k = int(np.argmax(~np.isfinite(force).all(axis=1) | ~np.isfinite(cost) | (state < 0).any(axis=1)))
                    viol(vkey("output not written / not finite", blk, rz[k, i]),
                         "force/state/cost not finite or left unwritten: force=%r state=%r cost=%r" % (force[k], state[k], cost[k]),
                         JAR[k])
                    continue
                # (a) force, cost, state vs reference
                ef = np.max(np.abs(force[:, i:i + dim] - rf[:, i:i + dim]) / scm[:, None], axis=1)
                k = int(np.argmax(ef))
                note(part, "force_ref", ef[k])
                if ef[k] > TOL_REF:
                    viol(vkey("force != argmin of dual", blk, rz[k, i]),
                         "efc_force %r, reference %r (rel err %.3g) rows %d..%d" % (force[k, i:i + dim], rf[k, i:i + dim], ef[k], i, i + dim - 1),
                         JAR[k], {"block": [kind, i, dim]})
                # cost scale of the varied block: (force scale)^2 / stiffness; absolute floor 1e-9 of it (see TOL_REF)
                csc = np.sum(rows.D * JAR * JAR, axis=1) + float(np.sum(rows.R * rows.floss ** 2))
                ec = np.abs(cost - rc) / (np.abs(rc) + 1e-9 * csc + 1e-300)
                k = int(np.argmax(ec))
                note(part, "cost_ref", ec[k])
                if ec[k] > TOL_REF:
                    viol(vkey("cost != -dual optimum", blk, rz[k, i]),
                         "cost %.17g, reference %.17g (rel err %.3g)" % (cost[k], rc[k], ec[k]), JAR[k], {"block": [kind, i, dim]})
                ok = mg[:, b] > 1e-12
                part.add("boundary_excluded_state", int(np.count_nonzero(~ok)))
                bad = ok & np.any(state[:, i:i + dim] != rz[:, i:i + dim], axis=1)
                if np.any(bad):
                    k = int(np.argmax(bad))
                    viol(vkey("state != zone", blk, rz[k, i]),
                         "efc_state %r, reference zone %r rows %d..%d" % (state[k, i:i + dim], rz[k, i:i + dim], i, i + dim - 1),
                         JAR[k], {"block": [kind, i, dim]})
                # (f) separability: other rows bit-identical to the base evaluation, cost additive
                oth = np.ones(n, bool)
                oth[i:i + dim] = False
                if not (np.array_equal(force[:, oth], np.tile(fb[0, oth], (Lb, 1))) and np.array_equal(state[:, oth], np.tile(sb[0, oth], (Lb, 1)))):
                    k = int(np.argmax(np.any(force[:, oth] != fb[0, oth], axis=1) | np.any(state[:, oth] != sb[0, oth], axis=1)))
                    viol(vkey("rows of other constraints changed", blk, rz[k, i]),
                         "changing jar rows %d..%d changed force/state of other rows" % (i, i + dim - 1), JAR[k], {"base": base})
                if bi:
                    continue
                # ------- from here on: other blocks at zero cost, so cost == block cost
                _pairs(part, rows, blk, P, planes, force[:, i:i + dim], cost, rz[:, i], viol, JAR, heavy)
                _fd(part, rows, blk, b, P, force, state, cost, rz, JAR, viol, s)
                if kind == "C":
                    _H_static(part, rows, blk, JAR, state[:, i], viol)
        # (g) cost == NULL and nefc == 0
        fz, sz, cz, _ = rows.run(np.array(bases), want_cost=False)
        fy, sy, cy, _ = rows.run(np.array(bases))
        part["evaluations"] += 2 * len(bases)
        if not (np.array_equal(fz, fy) and np.array_equal(sz, sy)) or not np.all(np.isnan(cz)):
            viol("cost==NULL changes the result", "force/state differ between cost==NULL and cost!=NULL", bases[1])
    _tiny_scale(part, rows, viol)
    c0 = np.array([123.0])
    rows.fn(0, 0, 0, None, None, None, None, None, None, None, None, None, c0.ctypes.data, 1)
    if c0[0] != 0:
        viol("nefc==0 cost", "nefc == 0 must return cost 0, got %r" % c0[0], None)
    # (h) mj_constraintUpdate on the real mjData
    if n:
        lat = [block_lattice(rows, blk, 1.0) for blk in rows.blocks]
        J = None
        for k in range(4):
            v = np.zeros(n)
            for b, blk in enumerate(rows.blocks):
                P = lat[b][0]
                v[blk[1]:blk[1] + blk[2]] = P[(11 * k + 5 * b) % len(P)]
            fi_, si_, ci_, coni = rows.run(v[None, :], flg=1)
            cst = np.array([np.nan])
            if rows.ncon:
                d.contact["H"][:] = rows.contact["H"]
            lib.mj_constraintUpdate(m, d, v, cst, 1)
            part["evaluations"] += 1
            if J is None:
                if int(lib.mj_isSparse(m)):
                    J = dense(d.efc_J_rownnz, d.efc_J_rowadr, d.efc_J_colind, d.efc_J, n, m.nv)
                else:
                    J = np.array(d.efc_J).reshape(n, m.nv)
            ff = np.array(d.efc_force[:n])
            if not (np.array_equal(ff, fi_[0]) and np.array_equal(np.array(d.efc_state[:n]), si_[0]) and cst[0] == ci_[0]
                    and (coni is None or np.array_equal(np.array(d.contact["H"]), coni["H"]))):
                viol("mj_constraintUpdate != impl", "mj_constraintUpdate and mj_constraintUpdate_impl disagree on force/state/cost/H", v)
            q = np.array(d.qfrc_constraint)
            qr = J.T @ ff
            e = float(np.max(np.abs(q - qr)) / (np.max(np.abs(qr)) + 1e-300))
            note(part, "JTf", e)
            if e > TOL_JT:
                viol("qfrc_constraint != J'f (%s)" % jac, "qfrc_constraint differs from J' efc_force (rel %.3g)" % e, v)
    d.free()
    m.free()


def _pairs(part, rows, blk, P, planes, F, cost, zone, viol, JAR, heavy):
    """All-pairs tests within one block lattice (other blocks at zero cost)."""
    kind, i, dim, cid = blk
    Lb = len(P)
    if kind == "C":
        R0, kap, fr, _ = cone_params(rows, blk)
        w = np.concatenate([[kap], fr])
        Lc = 1.0 / (R0 * kap * kap)
    else:
        w = np.ones(1)
        Lc = rows.D[i]
    U = P * w                    # isotropic coordinates
    G = F / w                    # force in isotropic coordinates (minus gradient)
    UU, GG, GU = U @ U.T, G @ G.T, G @ U.T
    nu2, ng2 = np.diag(UU), np.diag(GG)
    nU = np.sqrt(nu2)
    dist2 = np.maximum(nu2[:, None] + nu2[None, :] - 2 * UU, 0.0)
    dg2 = np.maximum(ng2[:, None] + ng2[None, :] - 2 * GG, 0.0)
    big = np.maximum(nU[:, None], nU[None, :])
    part.add("pairs", Lb * (Lb - 1) // 2)
    zpair = lambda a, b: " zones=%s|%s" % tuple(sorted((ZN[int(zone[a])], ZN[int(zone[b])])))
    # (d) Lipschitz gradient: |g(a)-g(b)| <= L |a-b|  (C1 across every boundary, in particular the +-delta pairs).
    # far pairs through the Gram matrices, near pairs (|a-b| < 1e-3 max(|a|,|b|)) with exact differences.
    near = np.triu(dist2 < 1e-6 * big * big, 1)
    jump = np.sqrt(dg2) - Lc * np.sqrt(dist2) * (1 + TOL_LIP) - 1e-9 * Lc * big
    jump[near | near.T] = -np.inf
    na, nb_ = np.nonzero(near)
    if len(na):
        dUn, dGn = U[na] - U[nb_], G[na] - G[nb_]
        jn = (np.sqrt(np.sum(dGn * dGn, axis=1)) - Lc * np.sqrt(np.sum(dUn * dUn, axis=1)) * (1 + TOL_LIP)
              - 1e-11 * Lc * big[na, nb_])
        jump[na, nb_] = jn
        part.add("pairs_near_boundary", len(na))
    a, b = np.unravel_index(int(np.argmax(jump)), jump.shape)
    if jump[a, b] > 0:
        viol(vkey("force discontinuous / not Lipschitz", blk) + zpair(a, b),
             "force jumps by %.3g (isotropic units) over a residual distance %.3g (Lipschitz bound %.3g): %r vs %r"
             % (np.linalg.norm(G[a] - G[b]), np.linalg.norm(U[a] - U[b]), Lc * np.linalg.norm(U[a] - U[b]), F[a], F[b]),
             JAR[a], {"jar_b": JAR[b], "block": [kind, i, dim]})
    # gradient monotone: (grad(a)-grad(b)).(a-b) >= 0  with grad = -force  =>  (G[a]-G[b]).(U[a]-U[b]) <= 0
    dGU = np.diag(GU)
    mono = dGU[:, None] + dGU[None, :] - GU - GU.T
    tolm = TOL_CVX * Lc * big * big
    a, b = np.unravel_index(int(np.argmax(mono - tolm)), mono.shape)
    if mono[a, b] > tolm[a, b]:
        viol(vkey("gradient not monotone (cost not convex)", blk) + zpair(a, b),
             "(f(a)-f(b)).(a-b) = %.3g > 0" % mono[a, b], JAR[a], {"jar_b": JAR[b], "block": [kind, i, dim]})
    # (c) first-order convexity: cost(b) >= cost(a) + grad(a).(b-a) = cost(a) + G[a].(U[a]-U[b])
    lin = cost[None, :] - cost[:, None] - (dGU[:, None] - GU)
    tolc = TOL_CVX * (np.abs(cost)[None, :] + np.abs(cost)[:, None] + Lc * big * big)
    a, b = np.unravel_index(int(np.argmin(lin + tolc)), lin.shape)
    if lin[a, b] < -tolc[a, b]:
        viol(vkey("cost below its tangent (not convex or force != -gradient)", blk, zone[a]),
             "cost(b) - cost(a) + f(a).(b-a) = %.3g < 0" % lin[a, b], JAR[a], {"jar_b": JAR[b], "block": [kind, i, dim]})
    # mid-point convexity on all pairs of each plane (cone) / whole lattice (scalar rows)
    if kind == "C":
        groups = [np.nonzero((planes == p) | (planes == -1))[0] for p in sorted(set(planes.tolist()) - {-1})]
        if not heavy and len(groups) > 2:
            groups = groups[:1] + groups[-1:]
    else:
        groups = [np.arange(Lb)]
    base = JAR[0].copy()
    for g in groups:
        ia, ib = np.triu_indices(len(g), 1)
        ia, ib = g[ia], g[ib]
        M = np.tile(base, (len(ia), 1))
        M[:, i:i + dim] = 0.5 * (P[ia] + P[ib])
        _, _, cm, _ = rows.run(M)
        part["evaluations"] += len(ia)
        gapv = 0.5 * (cost[ia] + cost[ib]) - cm
        tol = TOL_CVX * (cost[ia] + cost[ib] + Lc * np.maximum(nU[ia], nU[ib]) ** 2 + 1e-300)
        k = int(np.argmin(gapv + tol))
        if gapv[k] < -tol[k]:
            viol(vkey("mid-point convexity", blk) + " zones=%s|%s" % tuple(sorted((ZN[int(zone[ia[k]])], ZN[int(zone[ib[k]])]))),
                 "cost(mid) = %.17g > (cost(a)+cost(b))/2 = %.17g" % (cm[k], 0.5 * (cost[ia[k]] + cost[ib[k]])),
                 JAR[ia[k]], {"jar_b": JAR[ib[k]], "block": [kind, i, dim]})


def _fd(part, rows, blk, b, P, force, state, cost, rz, JAR, viol, s):
    """Central differences: force == -dcost/djar and (middle zone) H == dforce/djar."""
    kind, i, dim, cid = blk
    Lb = len(P)
    if kind == "C":
        R0, kap, fr, _ = cone_params(rows, blk)
        w = np.concatenate([[kap], fr])
        U = P * w
        nU = np.sqrt(np.sum(U * U, axis=1))
        T = np.sqrt(np.sum(U[:, 1:] ** 2, axis=1))
        hU = 1e-4 * np.where(rz[:, i] == CONE, T, nU)
        gsc = nU / (R0 * kap * kap)               # isotropic force scale
    else:
        w = np.ones(1)
        ref = np.abs(P[:, 0])
        if kind == "F":
            ref = np.maximum(ref, rows.R[i] * rows.floss[i])
        hU = 1e-4 * np.where(ref > 0, ref, s)
        gsc = rows.D[i] * np.where(ref > 0, ref, s)
    zone = rz[:, i]
    for c in range(dim):
        h = hU / w[c]
        # stencil must stay inside one zone: reference zone at +-h and +-3h equals the centre zone
        inside = hU > 0
        for mult in (1.0, -1.0, 3.0, -3.0):
            Q = JAR.copy()
            Q[:, i + c] += mult * h
            inside &= reference(rows, Q, only=b)[1][:, i] == zone
        idx = np.nonzero(inside)[0]
        part.add("fd_skipped_at_kink", int(Lb - len(idx)))
        if not len(idx):
            continue
        Qp = JAR[idx].copy()
        Qm = JAR[idx].copy()
        Qp[:, i + c] += h[idx]
        Qm[:, i + c] -= h[idx]
        hh = 0.5 * (Qp[:, i + c] - Qm[:, i + c])      # representable step
        own = kind == "C"
        fp_, sp_, cp_, conp = rows.run(Qp, flg=0)
        fm_, sm_, cm_, conm = rows.run(Qm, flg=0)
        part["evaluations"] += 2 * len(idx)
        part.add("fd_gradient_components", len(idx))
        fd = (cp_ - cm_) / (2 * hh)
        err = np.abs(fd + force[idx, i + c]) / (w[c] * gsc[idx])
        k = int(np.argmax(err))
        note(part, "fd_grad", err[k])
        if err[k] > TOL_FD:
            viol(vkey("force != -dcost/djar (central difference)", blk, zone[idx[k]]),
                 "row %d: force %.12g, -dcost/djar %.12g (rel %.3g, h=%.3g)" % (i + c, force[idx[k], i + c], -fd[k], err[k], hh[k]),
                 JAR[idx[k]], {"block": [kind, i, dim], "component": c})
        if kind != "C":
            continue
        # Hessian column c in the middle zone (points that the implementation itself classifies as cone: H is only
        # written there; implementation state vs reference zone is compared separately)
        mid = np.nonzero((zone[idx] == CONE) & (state[idx, i] == CONE))[0]
        if not len(mid):
            continue
        sel = idx[mid]
        _, _, _, conH = rows.run(JAR[sel], flg=1, own_contacts=True)
        part["evaluations"] += len(sel)
        part.add("fd_hessian_columns", len(sel))
        H = conH["H"][:, cid, :dim * dim].reshape(len(sel), dim, dim)
        dF = (fp_[mid, i:i + dim] - fm_[mid, i:i + dim]) / (2 * hh[mid, None])     # d force / d jar_c
        # H is the Hessian of the cost = -dforce/djar; compare in isotropic scaling
        hs = (w[None, :] * w[c]) / (R0 * kap * kap)
        errH = np.max(np.abs(H[:, :, c] - (-dF)) / hs, axis=1)
        k = int(np.argmax(errH))
        note(part, "fd_hess", errH[k])
        if errH[k] > TOL_H:
            viol(vkey("cone Hessian != -dforce/djar", blk, CONE),
                 "column %d: H %r, central difference %r (rel %.3g)" % (c, H[k, :, c], -dF[k], errH[k]),
                 JAR[sel[k]], {"block": [kind, i, dim], "component": c})


def _tiny_scale(part, rows, viol):
    """Residuals so small that T*T*T underflows (the cone Hessian divides by T^3): outputs must stay finite and the
    Hessian must stay inside its bounds.  One root cause => one key."""
    n = rows.nefc
    for blk in rows.blocks:
        kind, i, dim, cid = blk
        if kind != "C":
            continue
        R0, kap, fr, _ = cone_params(rows, blk)
        w = np.concatenate([[kap], fr])
        for T in (1e-90, 1e-104, 1e-120, 1e-200):
            for Nf in (0.0, 0.5 * kap, -0.5 / kap):
                jar = np.zeros(n)
                jar[i] = Nf * T / kap
                jar[i + 1] = T / fr[0]
                f, st, c, con = rows.run(jar[None, :], flg=1, own_contacts=True)
                part["evaluations"] += 1
                part["nontrivial_count"] += 1
                H = con["H"][0, cid, :dim * dim].reshape(dim, dim)
                ok = np.all(np.isfinite(f)) and np.isfinite(c[0])
                if st[0, i] == CONE:
                    ok = ok and np.all(np.isfinite(H))
                    if ok:
                        ev = np.linalg.eigvalsh(H / np.outer(w, w) * (R0 * kap * kap))
                        ok = ev[0] > -1e-6 and ev[-1] < 1 + 1e-6
                if not ok:
                    viol("cone Hessian not finite for denormal-scale tangential residuals (T*T*T underflows)",
                         "tangential residual %g, normal %g: force %r cost %r H %r" % (jar[i + 1], jar[i], f[0, i:i + dim], c[0], H),
                         jar, {"block": [kind, i, dim],
                               "minimal_pure_call": {"ne": 0, "nf": 0, "nefc": dim, "D": rows.D[i:i + dim], "R": rows.R[i:i + dim],
                                                     "frictionloss": [0.0] * dim, "type": [T_ELLIPTIC] * dim, "id": [0] * dim,
                                                     "contact[0]": {"dim": dim, "mu": float(rows.contact["mu"][cid]),
                                                                    "friction": rows.contact["friction"][cid]},
                                                     "jar": jar[i:i + dim], "flg_coneHessian": 1}})
        return          # first elliptic contact only


def _H_static(part, rows, blk, JAR, zone, viol):
    """H symmetric + PSD where the implementation reports the cone state; untouched elsewhere and with flg == 0
    (`zone` is the implementation's efc_state of the block)."""
    kind, i, dim, cid = blk
    R0, kap, fr, _ = cone_params(rows, blk)
    w = np.concatenate([[kap], fr])
    K = len(JAR)
    saved = rows.contact["H"].copy()
    rows.contact["H"][:] = -12345.0
    try:
        _, _, _, con1 = rows.run(JAR, flg=1, own_contacts=True)
        _, _, _, con0 = rows.run(JAR, flg=0, own_contacts=True)
    finally:
        rows.contact["H"][:] = saved
    part["evaluations"] += 2 * K
    H1 = con1["H"]
    if np.any(con0["H"] != -12345.0):
        viol("H written with flg_coneHessian=0", "contact.H was written although flg_coneHessian == 0", JAR[0])
    for k in range(K):
        Hk = H1[k, cid]
        if zone[k] != CONE:
            if np.any(Hk != -12345.0):
                viol(vkey("H written outside the middle zone", blk, zone[k]), "contact.H written in zone %s" % ZN[int(zone[k])], JAR[k])
            continue
        if np.any(Hk[dim * dim:] != -12345.0) or np.any(np.delete(H1[k], cid, axis=0) != -12345.0):
            viol(vkey("H written out of its dim x dim block", blk, CONE), "contact.H written beyond dim*dim or in another contact", JAR[k])
        Hm = Hk[:dim * dim].reshape(dim, dim)
        if not np.all(np.isfinite(Hm)):
            viol(vkey("H not finite", blk, CONE), "contact.H not finite: %r" % Hm, JAR[k])
            continue
        if not np.array_equal(Hm, Hm.T):
            viol(vkey("H not symmetric", blk, CONE), "contact.H not symmetric: %r" % Hm, JAR[k])
        Hs = Hm / np.outer(w, w) * (R0 * kap * kap)           # isotropic scaling: eigenvalues in [0, 1]
        ev = np.linalg.eigvalsh(0.5 * (Hs + Hs.T))
        note(part, "H_eig_below_0", max(-ev[0], 0.0))
        note(part, "H_eig_above_1", max(ev[-1] - 1.0, 0.0))
        if ev[0] < -1e-6 or ev[-1] > 1 + 1e-6:
            viol(vkey("H not PSD / above the Lipschitz bound", blk, CONE), "scaled eigenvalues %r outside [0,1]" % ev, JAR[k])


def _tune_malloc():
    """Keep freed numpy temporaries (> 128 kB) on the heap: in this sandbox every mmap/munmap cycle of a temporary costs
    page faults that dominate the run time (measured 600x on a 629x629 array)."""
    try:
        libc = ctypes.CDLL("libc.so.6")
        libc.mallopt(-3, 1 << 30)    # M_MMAP_THRESHOLD
        libc.mallopt(-1, 1 << 30)    # M_TRIM_THRESHOLD
    except OSError:
        pass


def _chunk(chunk):
    _tune_malloc()
    lib = mj.load()
    part = core.Part()
    for item, scales, heavy in chunk:
        try:
            check_model(lib, part, item, scales, heavy)
            part.add("models", 1)
        except mj.MjError as e:
            part.violation("engine error", "unexpected mju_error / compile error: %s on %r" % (e, item), {"item": item})
    return part


def run(ctx):
    mj.load()
    # thorough: full parameter product at the natural scale; residual scales 1e-4 / 1e4 on the quick tier's model set
    quick_set = set(model_items(False))
    items = []
    for it in model_items(ctx.thorough):
        scales = (1.0, 1e-4, 1e4) if (ctx.thorough and it in quick_set) else (1.0,)
        items.append((it, scales, ctx.thorough))
    scales = (1.0, 1e-4, 1e4) if ctx.thorough else (1.0,)
    core.pmap(ctx, _chunk, items, nchunks=min(len(items), 16 * 8))
    ctx.rule = (
        "models: every subset of {equality(connect+joint[+weld]), friction loss(hinge,slide,ball,tendon), limit(hinge,slide,tendon)} x "
        "contact sets %s x {pyramidal, elliptic} x %s of friction %s / impratio %s / solimp %s / solref %s (alternating dense/sparse "
        "Jacobian); rows harvested after mj_forward.  Per block a lattice: scalar rows {+-far, 0, -0, +-1e-7, +-1e-3}, friction loss "
        "R*floss*{0,+-.5,+-.99,+-1,+-(1+-1e-7),+-2,+-10}, elliptic cone: apex line T=0 x N in {+-1,+-1e-7,+-0} and for every +-axis and "
        "+-diagonal tangential direction x T in {1e-7,.3,1,3} the 13 points N in {top, top(1+-1e-7), bottom, bottom(1+-1e-7), 0, top/2, "
        "bottom/2, 2 top-zone, 2 bottom-zone}; residual scales %s (scales other than 1 on the star-design models only); one denormal-scale "
        "family (T=1e-90..1e-200) on the first elliptic contact of every model.  Whole vectors = 3 base vectors x every lattice point of one block.  "
        "All pairs of a block lattice for convexity / monotonicity / Lipschitz; mid-points for all pairs of %s.  "
        "non-trivial = evaluation whose varied block is on / within 1e-7 of a zone boundary or in the cone (middle) zone"
        % (CONTACT_SETS, "the full product" if ctx.thorough else "a star design (one parameter off-default at a time; variants only with none or all of "
           "equality/friction/limit present)",
           FRICTIONS, IMPRATIOS, SOLIMPS, SOLREFS, list(scales),
           "every cone plane" if ctx.thorough else "the first axis plane and the diagonal plane of each cone and of every scalar lattice"))
    ctx.assumptions = [
        "reference: closed-form argmin of the documented dual problem; for elliptic contacts it needs R_j*friction_j^2 = const "
        "inside one contact, which is verified on the harvested rows (a failure is reported as a violation)",
        "state at an exact zone boundary (jar == 0, |jar| == R*floss to 1e-12, cone boundaries to 1e-12, apex) is not compared "
        "(either classification has the same cost and force); counted as boundary_excluded_state",
        "central differences only where the +-3h stencil stays inside one zone; kink-adjacent points are covered by the all-pairs "
        "Lipschitz / monotonicity tests instead (fd_skipped_at_kink)",
        "thresholds: reference 1e-10, FD gradient 1e-5, FD Hessian 1e-4, convexity 1e-9, Lipschitz slack 1e-6 (relative to block scale)",
    ]
