"""Shared reference-side helpers for C05 / C08 / C25 / C29 (numpy, written from doc/computation/index.rst).

Nothing here calls engine code except the thin wrappers `fullM` / `denseD` / `jac_com`
that only *read* engine results into dense numpy arrays.
"""
from __future__ import annotations

import itertools
import math

import numpy as np

from .. import alphabet as A
from ..mjutil import dense, quat_mul, quat_exp

FREE, BALL, SLIDE, HINGE = 0, 1, 2, 3
INT_EULER, INT_RK4, INT_IMPLICIT, INT_IMPLICITFAST = 0, 1, 2, 3
INT_NAME = {0: "Euler", 1: "RK4", 2: "implicit", 3: "implicitfast"}
DSBL_SPRING, DSBL_DAMPER, DSBL_GRAVITY, DSBL_CLAMPCTRL, DSBL_ACTUATION, DSBL_EULERDAMP = (
    1 << 5, 1 << 6, 1 << 7, 1 << 8, 1 << 11, 1 << 15)
ENBL_ENERGY = 1 << 1
STAGE_NONE, STAGE_POS, STAGE_VEL = 0, 1, 2
NPOLY = 2


class MInfo:
    """Python-side copy of the static model arrays the references need (avoids ctypes traffic)."""

    def __init__(self, m):
        self.nq, self.nv, self.na, self.nu, self.nbody, self.njnt = m.nq, m.nv, m.na, m.nu, m.nbody, m.njnt
        self.ntendon = m.ntendon
        self.jnt_type = [int(x) for x in m.jnt_type]
        self.jnt_qposadr = [int(x) for x in m.jnt_qposadr]
        self.jnt_dofadr = [int(x) for x in m.jnt_dofadr]
        self.jnt_bodyid = [int(x) for x in m.jnt_bodyid]
        self.body_parentid = [int(x) for x in m.body_parentid]
        self.body_jntnum = [int(x) for x in m.body_jntnum]
        self.body_jntadr = [int(x) for x in m.body_jntadr]
        self.dof_jntid = [int(x) for x in m.dof_jntid]
        self.quat_adr = []     # qpos addresses of quaternions
        for j, t in enumerate(self.jnt_type):
            if t == FREE:
                self.quat_adr.append(self.jnt_qposadr[j] + 3)
            elif t == BALL:
                self.quat_adr.append(self.jnt_qposadr[j])
        # standalone free bodies (doc: "free joints whose body has no children")
        haschild = set(self.body_parentid[1:])
        self.free_blocks = [self.jnt_dofadr[j] for j, t in enumerate(self.jnt_type)
                            if t == FREE and self.jnt_bodyid[j] not in haschild]


def integrate_pos(mi: MInfo, qpos, vel, h):
    """q (+) h*vel on the joint manifold (own quaternion exponential, right-multiplication = local frame)."""
    q = np.array(qpos, dtype=float)
    for j in range(mi.njnt):
        t = mi.jnt_type[j]
        pa = mi.jnt_qposadr[j]
        va = mi.jnt_dofadr[j]
        if t == FREE:
            q[pa:pa + 3] += h * vel[va:va + 3]
            pa += 3
            va += 3
            t = BALL
        if t == BALL:
            qq = q[pa:pa + 4]
            qq = qq / math.sqrt(float(qq @ qq))
            q[pa:pa + 4] = quat_mul(qq, quat_exp(h * np.asarray(vel[va:va + 3], float)))
        else:
            q[pa] += h * vel[va]
    return q


def quat_conj(q):
    return np.array([q[0], -q[1], -q[2], -q[3]])


def quat_log(q):
    """Rotation vector of unit quaternion q (angle in [0, pi])."""
    q = np.asarray(q, float)
    s = math.sqrt(q[1] * q[1] + q[2] * q[2] + q[3] * q[3])
    if s < 1e-300:
        return np.zeros(3)
    ang = 2 * math.atan2(s, q[0])
    if ang > math.pi:
        ang -= 2 * math.pi
    return q[1:] * (ang / s)


def quat_sub(qa, qb):
    """Rotation vector r with qb * exp(r) = qa (expressed in the local frame)."""
    qa = np.asarray(qa, float)
    qb = np.asarray(qb, float)
    qa = qa / np.linalg.norm(qa)
    qb = qb / np.linalg.norm(qb)
    return quat_log(quat_mul(quat_conj(qb), qa))


def diff_pos(mi: MInfo, q1, q2):
    """Tangent vector v (nv) with q1 (+) v = q2."""
    v = np.zeros(mi.nv)
    for j in range(mi.njnt):
        t = mi.jnt_type[j]
        pa = mi.jnt_qposadr[j]
        va = mi.jnt_dofadr[j]
        if t == FREE:
            v[va:va + 3] = np.asarray(q2[pa:pa + 3]) - np.asarray(q1[pa:pa + 3])
            pa += 3
            va += 3
            t = BALL
        if t == BALL:
            v[va:va + 3] = quat_sub(q2[pa:pa + 4], q1[pa:pa + 4])
        else:
            v[va] = q2[pa] - q1[pa]
    return v


def fullM(lib, m, d):
    M = np.zeros((m.nv, m.nv))
    lib.mj_fullM(m, d, M)
    return M


def denseD(m, d):
    return dense(m.D_rownnz, m.D_rowadr, m.D_colind, np.array(d.qDeriv), m.nv, m.nv)


def D_pattern(m):
    return dense(m.D_rownnz, m.D_rowadr, m.D_colind, np.ones(m.nD), m.nv, m.nv) > 0


def quat_norm_err(mi: MInfo, qpos):
    e = 0.0
    for a in mi.quat_adr:
        qq = qpos[a:a + 4]
        e = max(e, abs(math.sqrt(float(qq @ qq)) - 1.0))
    return e


def poly_force(lin, poly, x, odd):
    """documented polynomial: f = a x + b x^2 + c x^3 (standard) or a v + b v|v| + c v^3 (anti-symmetrised).
    returns f (the applied force is -f)."""
    b, c = poly
    if odd:
        return lin * x + b * x * abs(x) + c * x ** 3
    return lin * x + b * x * x + c * x ** 3


def poly_dforce(lin, poly, x, odd):
    b, c = poly
    if odd:
        return lin + 2 * b * abs(x) + 3 * c * x * x
    return lin + 2 * b * x + 3 * c * x * x


def poly_potential(lin, poly, x):
    b, c = poly
    return 0.5 * lin * x * x + b * x ** 3 / 3 + c * x ** 4 / 4


def models(nmax, menu=None, skip_all_none=True):
    """All rooted ordered forests with <= nmax bodies x full product of the joint menu."""
    for par in A.all_forests(nmax):
        roots = [p == -1 for p in par]
        doms = [A.joint_menu(r, menu) for r in roots]
        for js in itertools.product(*doms):
            if skip_all_none and all(j == "none" for j in js):
                continue
            yield par, js


def joint_names(js):
    """[(name, type)] in model order for a joint-menu assignment."""
    out = []
    for i, j in enumerate(js):
        for k, (jt, _) in enumerate(A.JOINTS[j]):
            out.append(("j%d_%d" % (i, k), jt))
    return out


def std_tree_xml(par, js, **kw):
    n = len(par)
    return A.tree_mjcf(par, list(js), axis=[i % 3 for i in range(n)], anchor=[(i + 1) % 2 for i in range(n)],
                       frame=[1 + i % 2 for i in range(n)], geom=[A.GEOM_ORDER[(i + 1) % 5] for i in range(n)], **kw)
