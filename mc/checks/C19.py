"""C19 Internal stack and arena allocation is memory-safe.

E2 (sequential): every history of depth <= D over {mark, free, stackAlloc(size, align), arenaAlloc(size, align)} with
sizes {0,1,8,9,64,cap/2,cap-8,cap,cap+1,SIZE_MAX/2,SIZE_MAX-63,SIZE_MAX-7,SIZE_MAX-3,SIZE_MAX} x aligns {1,8,64} on an
mjData whose arena window is 1 KB, against a shadow interval set (alignment, containment, disjointness from every live
block and from mark frames, free restores pstack/pbase, exhaustion -> error (stack) / NULL (arena)).
E3 (concurrent): engine_memory.c compiled with mj_atomic_add_size_t routed through the controlled scheduler; 2-3
threads x 1-2 reservations under the thread lock, all interleavings.
E1 (API neutrality): every public function whose parameters are exactly (const mjModel*, mjData*) returns with the
stack pointer it started with, on feature-rich models.
"""
import json
import os
import subprocess

import numpy as np

from .. import alphabet as A
from .. import build, core, mj

LEVEL = "model_checking"
META = dict(
    category=LEVEL,
    technique="explicit-state enumeration of all allocator operation histories up to a depth against a shadow interval "
              "model + stateless model checking of concurrent reservations under a controlled scheduler",
    text="All 86^d histories (d<=3 quick, 4 thorough) of mark/free/stack-alloc/arena-alloc with boundary sizes "
         "(0, around the capacity, around SIZE_MAX) and alignments are replayed on the real allocator and compared with a "
         "shadow interval set after every operation; concurrent reservations under the thread lock are explored over all "
         "interleavings with the atomic stack-pointer bump as a scheduling point; all (m,d) public functions are checked "
         "to return with the stack pointer they started with.",
    note="ASan build of the same histories (MuJoCo's own red zones / mark-free call-site matching) is run in the thorough "
         "tier; sequentially consistent atomics in the scheduler.",
    design_ref="DESIGN.md §3 C19")


def exes():
    x = build.ensure_exe("c19_memory", ["drivers/c19_memory.cc"])
    hook = ("-include", os.path.join(build.NATIVE, "vsched", "vsched_c.h"),
            "-D__atomic_fetch_add(p,v,m)=vsched_fetch_add_size(p,v)")
    xs = build.ensure_exe("c19_memory_sched", ["drivers/c19_memory.cc"], extra=("-DC19_SCHED",), static=True,
                          per_source={"src/engine/engine_memory.c": hook})
    return x, xs


def _root_cause(line):
    # "FAIL <message> : op op op" -> one key per (message, kind of the last op that produced a block)
    msg, _, ops = line[5:].partition(" :")
    toks = ops.split()
    kind = "?"
    for t in toks:
        if t[0] in "sa" and "1844674407370955" in t:
            kind = {"s": "stack", "a": "arena"}[t[0]] + " request near SIZE_MAX"
    if kind == "?":
        kind = "last op " + (toks[-1] if toks else "")
    return "allocator: %s [%s]" % (msg.strip(), kind)


def _seq(args):
    x, depth, shard, nsh = args
    part = core.Part()
    r = subprocess.run([x, "seq", str(depth), str(shard), str(nsh)], capture_output=True, text=True)
    if r.returncode not in (0, 1):
        part.violation("allocator: driver crashed in a sequential history", "rc=%d %s" % (r.returncode, r.stderr[-300:]),
                       {"depth": depth, "shard": shard})
        return part
    for line in r.stdout.splitlines():
        if line.startswith("FAIL"):
            part.violation(_root_cause(line), line[5:], {"history": line[5:], "depth": depth})
        elif line.startswith("STATS"):
            t = line.split()
            n, nt = int(t[1]), int(t[2])
            part["evaluations"] += n
            part["states"] += n
            part["transitions"] += n * depth
            part["traces"] += n
            part["nontrivial_count"] += nt
            part.add("histories_ending_in_stack_error", int(t[4]))
            part.add("null_results", int(t[5]))
    if shard == 0:
        part["samples"].append({"mode": "seq", "depth": depth, "example_history": "m s(64,8) a(9,64) f"})
    return part


CONC = ["16,24/8", "8/8/8", "16/2000", "500/500/100", "0,16/16", "18446744073709551612/8", "400,400/300"]


def _conc(args):
    xs, sc, bound, align = args
    part = core.Part()
    r = subprocess.run([xs, "conc", "explore", sc, str(bound), str(align)], capture_output=True, text=True)
    if r.returncode not in (0, 1) or not r.stdout.strip():
        part.violation("allocator: concurrent driver failed", "rc=%d %s" % (r.returncode, r.stderr[-300:]), {"scenario": sc})
        return part
    res = json.loads(r.stdout.strip().splitlines()[-1])
    part["evaluations"] += res["executions"]
    part["traces"] += res["executions"]
    part["states"] += res["distinct_prefixes"]
    part["transitions"] += res["points"]
    part["nontrivial_count"] += res["executions"]
    for o in res["outcome_samples"]:
        part["outcomes"].add(sc + ":" + o)
    part.add("concurrent_distinct_outcomes", res["distinct_outcomes"])
    if res["failures"]:
        what = res["first_failure"]
        key = "allocator (thread lock): " + what.split(":", 1)[-1].strip()[:120]
        if "1844674407370955" in sc:
            key += " [stack request near SIZE_MAX]"
        part.violation(key, "scenario %s align %d schedule %s: %s" % (sc, align, res["first_failure_schedule"], what),
                       {"scenario": sc, "align": align, "schedule": res["first_failure_schedule"]})
    part["samples"].append({"mode": "concurrent", "sizes_per_thread": sc, "align": align,
                            "outcome": (res["outcome_samples"] or [""])[0][:100]})
    return part


def _feature_models():
    chain = A.tree_mjcf((-1, 0, 0), ["free", "hinge2", "ball"], gattr="", world_extra='    <geom type="plane" size="2 2 .1" pos="0 0 -0.3"/>\n',
                        sections='<actuator><motor joint="j1_0"/><position joint="j1_1" kp="3"/></actuator>\n'
                                 '<sensor><jointpos joint="j1_0"/><accelerometer site="s1"/><subtreeangmom body="b0"/></sensor>\n'
                                 '<equality><connect body1="b2" anchor="0 0 .1"/></equality>\n',
                        option=A.option_elem(flags={"energy": "enable"}))
    isl = A.tree_mjcf((-1, -1, -1), ["free", "free", "slide"], gattr="", world_extra='    <geom type="plane" size="2 2 .1" pos="0 0 -0.25"/>\n',
                      option=A.option_elem(solver="CG", cone="elliptic", flags={"island": "enable"}))
    return [chain, isl]


def _neutral(names):
    lib = mj.load()
    part = core.Part()
    for xml in _feature_models():
        m = lib.load_xml(xml)
        for name in names:
            d = lib.make_data(m)
            try:
                lib.mj_forward(m, d)
                d.qvel[:] = 0.1
                p0, b0 = d.pstack, d.pbase
                getattr(lib, name)(m, d)
                part.count(1, key=name)
                if d.pstack != p0 or d.pbase != b0:
                    part.violation("stack pointer not restored by " + name, "%s returned with pstack %d->%d pbase %d->%d"
                                   % (name, p0, d.pstack, b0, d.pbase), {"function": name, "xml": xml})
            except mj.MjError as e:
                part.add("api_calls_raising_error")
            d.free()
        m.free()
    return part


def run(ctx):
    x, xs = exes()
    depth = ctx.q(3, 4)
    jobs = []
    nsh = 16
    for d in range(1, depth + 1):
        for s in range(nsh if d >= 3 else 1):
            jobs.append((x, d, s, nsh if d >= 3 else 1))
    core.pmap(ctx, _chunk_seq, jobs, nchunks=len(jobs))
    bound = ctx.q(2, 3)
    cj = [(xs, sc, bound, al) for sc in CONC for al in ((8,) if not ctx.thorough else (8, 64))]
    core.pmap(ctx, _chunk_conc, cj, nchunks=len(cj))
    # API neutrality
    lib = mj.load()
    names = sorted(n for n, p in lib.protos.items()
                   if [k for _, k in p["params"]] == ["ptr", "ptr"] and [a for a, _ in p["params"]] == ["m", "d"]
                   and n not in ("mj_deleteData", "mj_copyData", "mj_makeData", "mj_resetDataDebug", "mj_printData", "mj_saveLastXML"))
    nch = 16
    core.pmap(ctx, _neutral, names, nchunks=nch)
    ctx.extra["api_functions_checked"] = len(names)
    ctx.rule = ("sequential: all 86^d histories for d<=%d (ops: mark, free, 42 stack allocs, 42 arena allocs); non-trivial = history "
                "that ends with >=3 live blocks. concurrent: scenarios %s, all interleavings with <=%d preemptions at the atomic "
                "stack-pointer bump. neutrality: %d public (m,d) functions x 2 feature models" % (depth, CONC, bound, len(names)))
    ctx.assumptions = ["well-nested histories: free without a matching mark is skipped", "alignments are powers of two",
                       "after a reported stack overflow the mjData is discarded (documented contract)"]


def _chunk_seq(chunk):
    return _merge([_seq(a) for a in chunk])


def _chunk_conc(chunk):
    return _merge([_conc(a) for a in chunk])


def _merge(parts):
    total = core.Ctx("C19", "quick", 0, LEVEL)
    for p in parts:
        total.merge(p)
    p = core.Part()
    p["evaluations"] = total.evaluations
    p["nontrivial_count"] = total.nontrivial_extra
    p["states"], p["transitions"], p["traces"] = total.states, total.transitions, total.traces
    p["outcomes"] = total.outcomes
    p["samples"] = total.samples[:2]
    p["violations"] = [{"key": k, "what": w, "replay": r} for k, w, r in total.violations]
    p["extra"] = total.extra
    return p


def replay(ctx, path):
    """Re-run one recorded case: ./check C19 --replay <file>"""
    import json as _json
    r = _json.load(open(path))["replay"]
    x, xs = exes()
    if "scenario" in r:
        p = subprocess.run([xs, "conc", "replay", r["scenario"], "0", str(r.get("align", 8)), r.get("schedule", "")],
                           capture_output=True, text=True)
    else:
        p = subprocess.run([x, "seq", str(r.get("depth", 2)), "0", "1"], capture_output=True, text=True)
    print(p.stdout[-3000:])
    print("replay exit", p.returncode)
    return 1 if p.returncode else 0
